"""C05 - each host's output is relayed complete, in order, exactly once."""
import os, json
import vlib, outeng
from vlib import hexs, unhex

PROP = "C05"
JUDGE = outeng.judge_c05
WHAT = "payload identity (label stripped) for every stream and chunking"


def run(ctx, prop=PROP, judge=None, what=WHAT):
    judge = judge or JUDGE
    ctx.gen_params()
    ctx.prove()
    eng = outeng.Out(ctx)
    quick = ctx.tier == "quick"
    r = ctx.rng("streams")
    cases, meta = [], []
    cdir = os.path.join(vlib.VERIF, "corpus", prop)
    if os.path.isdir(cdir):
        for fn in sorted(os.listdir(cdir)):
            if fn.endswith(".json"):
                c = json.load(open(os.path.join(cdir, fn)))
                cases.append(c["case"]); meta.append((unhex(c["stream"]), unhex(c["host"]), c["labels"], c["which"]))
    ncorpus = len(cases)
    n = 1500 if quick else 40000
    for _ in range(n):
        s = outeng.gen_stream(r, big=not quick)
        host = r.choice(outeng.HOSTS)
        labels = 0 if r.chance(1, 4) else 1
        which = r.choice(["o", "o", "e"])
        cases.append("out %s %d %s %s" % (which, labels, hexs(host), outeng.gen_chunking(r, s)))
        meta.append((s, host, labels, which))
    if not quick:
        # exhaustive: every chunking of every stream of length <= 7 over {a, \n}
        import itertools
        for L in range(1, 8):
            for tup in itertools.product(b"a\n", repeat=L):
                s = bytes(tup)
                for mask in range(1 << (L - 1)):
                    items, prev = [], 0
                    for i in range(1, L):
                        if mask >> (i - 1) & 1:
                            items.append("A" + hexs(s[prev:i])); prev = i
                    items.append("A" + hexs(s[prev:])); items.append("E")
                    cases.append("out o 1 %s %s" % (hexs(b"n1"), "/".join(items)))
                    meta.append((s, b"n1", 1, "o"))
    ctx.log("running %d stream cases" % len(cases))
    bad = 0
    dist = {"with_tail": 0, "labels_off": 0, "stderr": 0, "eagain": 0, "bytes_total": 0}
    samples = []
    for keep in (False, True):
        # half of the cases in each keep-domain mode (the flag is process-wide in err.c)
        idx = [i for i in range(len(cases)) if (i % 2 == 1) == keep]
        sub = [cases[i] for i in idx]
        impl = eng.run_impl(sub, keep)
        model = eng.run_model(sub, keep)
        for i, io, mo in zip(idx, impl, model):
            s, host, labels, which = meta[i]
            dist["bytes_total"] += len(s)
            dist["with_tail"] += 0 if s.endswith(b"\n") or not s else 1
            dist["labels_off"] += 1 - labels
            dist["stderr"] += which == "e"
            dist["eagain"] += "X" in cases[i].split(" ")[4].split("/")
            problem = None
            if io.startswith(("CRASH", "HANG")):
                problem = ("input", "implementation fault: " + io)
            else:
                rc, calls = outeng.parse_result(io)
                in_dom = (outeng.MARKER not in s or which == "e") and b"\0" not in s and all(len(l) < 131072 for l in s.split(b"\n"))
                if in_dom:
                    e = judge(s, host, labels, keep, calls)
                    if e:
                        problem = ("input", e)
                if problem is None and io != mo:
                    problem = ("corr", "implementation and model disagree")
            if problem:
                bad += 1
                detail = "%s; host %r labels=%d keep_domain=%s stream %r... (%d bytes)" % (problem[1], host, labels, keep, s[:60], len(s))
                cs = cases[i] + (" #K" if keep else "")
                if problem[0] == "input":
                    ctx.violation("input", case=cs[:20000], expected=mo[:400], observed=io[:400], engine="out", detail=detail)
                else:
                    ctx.violation("no-failing-input-found", case=cs[:20000], expected=mo[:400], observed=io[:400], engine="out",
                                  correspondence="out: sequence of stdio calls and rc", detail=detail)
                if bad >= 6:
                    break
            if len(samples) < 3 and 10 < len(s) < 80 and not s.endswith(b"\n"):
                samples.append({"stream": s.decode("latin-1"), "host": host.decode(), "labels": labels, "chunks": cases[i].split(" ")[4][:120], "impl": io[:160]})
        if bad >= 6:
            break
    have_input = any(v["kind"] != "no-failing-input-found" for v in ctx.violations)
    vlib.report_proof_break(ctx, have_input)
    cov = vlib.proof_coverage(ctx, {
        "evaluations": len(cases), "distinct_nontrivial": len(set(cases)),
        "rule": "per-host byte streams (lines of 0..20000 bytes - up to 131072 in thorough -, empty lines, unterminated tails of 0/1/8190..8193/3*8191+5 bytes, buffer growth points) cut into read chunks (whole, per byte, at/after newlines, random) with EAGAIN sprinkled, fed through the real _handle_rcmd_stdout/_stderr + _flush_output with stdio calls captured; judged for " + what + "; distinct = distinct (stream, chunking, host, flags)",
        "samples": samples, "input_distribution": dist, "corpus_cases": ncorpus, "disagreements": bad})
    return ctx.finish(cov, ["read(2), close(2) and fputs(3) intercepted at link time; one fputs = one atomic append (stdio lock, trusted)",
                            "poll/EINTR and the thread interleaving are covered by the sched engine, not here",
                            "NUL bytes, lines over 128 KiB and the return-code marker are outside the property's domain"])


def replay(ctx, path):
    rec = json.load(open(path))
    ctx.gen_params()
    eng = outeng.Out(ctx)
    c = rec["case"]
    keep = c.endswith(" #K")
    c = c[:-3] if keep else c
    print("impl now :", eng.run_impl([c], keep)[0][:600])
    print("model now:", eng.run_model([c], keep)[0][:600])
    return 0
