"""C05 - each host's output is relayed complete, in order, exactly once."""
import os, json
import vlib, outeng
from vlib import hexs, unhex

PROP = "C05"
JUDGE = outeng.judge_c05
WHAT = "payload identity (label stripped) for every stream and chunking"


def run(ctx, prop=PROP, judge=None, what=WHAT):
    judge = judge or JUDGE
    ctx.gen_params()
    ctx.prove()
    eng = outeng.Out(ctx)
    quick = ctx.tier == "quick"
    r = ctx.rng("streams")
    cases, meta = [], []
    cdir = os.path.join(vlib.VERIF, "corpus", prop)
    if os.path.isdir(cdir):
        for fn in sorted(os.listdir(cdir)):
            if fn.endswith(".json"):
                c = json.load(open(os.path.join(cdir, fn)))
                cases.append(c["case"]); meta.append((unhex(c["stream"]), unhex(c["host"]), c["labels"], c["which"]))
    ncorpus = len(cases)
    n = 1500 if quick else 40000
    for _ in range(n):
        s = outeng.gen_stream(r, big=not quick)
        host = r.choice(outeng.HOSTS)
        labels = 0 if r.chance(1, 4) else 1
        which = r.choice(["o", "o", "e"])
        cases.append("out %s %d %s %s" % (which, labels, hexs(host), outeng.gen_chunking(r, s)))
        meta.append((s, host, labels, which))
    # the 128 KiB line limit, exactly (one piece and 1000-byte pieces)
    for L in (131070, 131071):
        s = b"x\n" + bytes([97 + (i % 26) for i in range(L)]) + b"\ntail\n"
        for items in (["A" + hexs(s)], ["A" + hexs(s[i:i + 1000]) for i in range(0, len(s), 1000)]):
            cases.append("out o 0 %s %s" % (hexs(b"n1"), "/".join(items + ["E"])))
            meta.append((s, b"n1", 0, "o"))
    # long lines that get shorter: the copy of a line is made in freshly obtained memory that an earlier, longer line has used
    for L1, L2 in ((131000, 99000), (120000, 98400)):
        s = bytes([65 + (i % 26) for i in range(L1)]) + b"\n" + bytes([97 + (i % 23) for i in range(L2)]) + b"\nend\n"
        for lab in (0, 1):
            cases.append("out o %d %s %s" % (lab, hexs(b"n1"), "/".join(["A" + hexs(s[i:i + 40000]) for i in range(0, len(s), 40000)] + ["E"])))
            meta.append((s, b"n1", lab, "o"))
    if not quick:
        # exhaustive: every chunking of every stream of length <= 7 over {a, \n}
        import itertools
        for L in range(1, 8):
            for tup in itertools.product(b"a\n", repeat=L):
                s = bytes(tup)
                for mask in range(1 << (L - 1)):
                    items, prev = [], 0
                    for i in range(1, L):
                        if mask >> (i - 1) & 1:
                            items.append("A" + hexs(s[prev:i])); prev = i
                    items.append("A" + hexs(s[prev:])); items.append("E")
                    cases.append("out o 1 %s %s" % (hexs(b"n1"), "/".join(items)))
                    meta.append((s, b"n1", 1, "o"))
    ctx.log("running %d stream cases" % len(cases))
    bad = 0
    dist = {"with_tail": 0, "labels_off": 0, "stderr": 0, "eagain": 0, "bytes_total": 0}
    samples = []
    # half of the cases in each keep-domain mode (the flag is process-wide in err.c); small batches first so
    # that a change which makes every case hang or fail is reported after seconds, not after all cases timed out
    batches = []
    for keep in (False, True):
        allidx = [i for i in range(len(cases)) if (i % 2 == 1) == keep]
        batches.append((keep, allidx[:8]))
    for keep in (False, True):
        allidx = [i for i in range(len(cases)) if (i % 2 == 1) == keep]
        batches.append((keep, allidx[8:120]))
        batches.append((keep, allidx[120:]))
    for keep, idx in batches:
        if not idx:
            continue
        sub = [cases[i] for i in idx]
        impl = eng.run_impl(sub, keep)
        model = eng.run_model(sub, keep)
        for i, io, mo in zip(idx, impl, model):
            s, host, labels, which = meta[i]
            dist["bytes_total"] += len(s)
            dist["with_tail"] += 0 if s.endswith(b"\n") or not s else 1
            dist["labels_off"] += 1 - labels
            dist["stderr"] += which == "e"
            dist["eagain"] += "X" in cases[i].split(" ")[4].split("/")
            problem = None
            if io.startswith(("CRASH", "HANG")):
                problem = ("input", "implementation fault: " + io)
            else:
                rc, calls = outeng.parse_result(io)
                in_dom = (outeng.MARKER not in s or which == "e") and b"\0" not in s and all(len(l) < 131072 for l in s.split(b"\n"))
                if in_dom:
                    e = judge(s, host, labels, keep, calls)
                    if e:
                        problem = ("input", e)
                if problem is None and io != mo:
                    problem = ("corr", "implementation and model disagree")
            if problem:
                bad += 1
                detail = "%s; host %r labels=%d keep_domain=%s stream %r... (%d bytes)" % (problem[1], host, labels, keep, s[:60], len(s))
                cs = cases[i] + (" #K" if keep else "")
                if problem[0] == "input":
                    ctx.violation("input", case=cs[:20000], expected=mo[:400], observed=io[:400], engine="out", detail=detail)
                else:
                    ctx.violation("no-failing-input-found", case=cs[:20000], expected=mo[:400], observed=io[:400], engine="out",
                                  correspondence="out: sequence of stdio calls and rc", detail=detail)
                if bad >= 6:
                    break
            if len(samples) < 3 and 10 < len(s) < 80 and not s.endswith(b"\n"):
                samples.append({"stream": s.decode("latin-1"), "host": host.decode(), "labels": labels, "chunks": cases[i].split(" ")[4][:120], "impl": io[:160]})
        if bad >= 6:
            break
    # ---- part B: many hosts streaming at once, whole program under the controlled scheduler ----
    nsched = 0
    if bad < 6:
        nsched, bad2 = sched_part(ctx, r, quick, judge)
        bad += bad2
    dist["sched_runs_many_hosts"] = nsched
    # ---- part C: real children; a later host's command cannot be started (execvp fails in the forked child) while an earlier
    #      host's unterminated record still sits in pdsh's stdio buffer: nothing may be written twice or under another label
    if bad < 6:
        import realeng
        real = realeng.Real(ctx, tag="real05")
        nx = 0
        for rep in range(2 if quick else 6):
            script = os.path.join(ctx.scratch, "once%d.sh" % rep)
            with open(script, "w") as fh:
                fh.write("#!/bin/sh\nprintf 'abc-%s' \"$1\"\nrm -f \"$0\"\n")
            os.chmod(script, 0o755)
            rc, o, e = real.run(["-R", "exec", "-f", "1", "-w", "a,b,c", script, "%h"], timeout=30)
            nx += 1
            if o != b"a: abc-a":
                bad += 1
                ctx.violation("input", case={"transport": "exec", "hosts": "a,b,c", "fanout": 1, "command": "a script that prints an unterminated record and removes itself"},
                              expected="standard output is exactly b'a: abc-a'", observed=repr(o[:200]), engine="exec",
                              detail="the command of b and c cannot be started; the record of a must appear once, under its own label: got %r (stderr %r)" % (o[:120], e[-160:]))
        dist["exec_failure_runs"] = nx
    # ---- part D: real children, records that name their producer ("<host> ...", so a record under another label, a torn or a lost
    #      record shows): descriptor numbers given back and handed out again while a timed-out command is torn down; pdsh
    #      started with descriptor 0 closed; the prompt loop (one forked run per command) with unterminated tails
    if bad < 6:
        nd, bad2 = real_records_part(ctx, real, quick)
        dist["exec_record_runs"] = nd
        bad += bad2
    have_input = any(v["kind"] != "no-failing-input-found" for v in ctx.violations)
    vlib.report_proof_break(ctx, have_input)
    cov = vlib.proof_coverage(ctx, {
        "evaluations": len(cases) + nsched, "distinct_nontrivial": len(set(cases)),
        "rule": "per-host byte streams (lines of 0..20000 bytes - up to 131072 in thorough -, empty lines, unterminated tails of 0/1/8190..8193/3*8191+5 bytes, buffer growth points) cut into read chunks (whole, per byte, at/after newlines, random) with EAGAIN sprinkled, fed through the real _handle_rcmd_stdout/_stderr + _flush_output with stdio calls captured; judged for " + what + "; distinct = distinct (stream, chunking, host, flags)",
        "samples": samples, "input_distribution": dist, "corpus_cases": ncorpus, "disagreements": bad})
    return ctx.finish(cov, ["read(2), close(2) and fputs(3) intercepted at link time; one fputs = one atomic append (stdio lock, trusted)",
                            "poll/EINTR and the thread interleaving are covered by the sched engine, not here",
                            "NUL bytes, lines over 128 KiB and the return-code marker are outside the property's domain"])


def judge_records(hosts_expect, out, errb):
    """hosts_expect: host -> (list of stdout records, list of stderr records), records without the label; every record starts
    with its producer's name.  Returns a problem string or None."""
    def lines_of(b):
        return [l for l in b.split(b"\n") if l]
    own = [l for l in lines_of(errb) if not l.startswith((b"pdsh@", b"sending signal"))]
    for what, got, idx in (("stdout", lines_of(out), 0), ("stderr", own, 1)):
        want = {}
        for h, recs in hosts_expect.items():
            for rec in recs[idx]:
                want[h.encode() + b": " + rec.encode()] = 0
        for l in got:
            lab, _, body = l.partition(b": ")
            if not body.startswith(lab + b" ") and body != lab:
                return "%s line %r: the record names another producer than its label (or is torn)" % (what, l[:80])
            if l in want:
                want[l] += 1
            else:
                return "%s line %r is not a record any host wrote" % (what, l[:80])
        for l, n in want.items():
            if n != 1:
                return "%s record %r appears %d times" % (what, l[:80], n)
    return None


def real_records_part(ctx, real, quick):
    n = bad = 0
    sc = os.path.join(ctx.scratch, "records.sh")
    with open(sc, "w") as fh:
        fh.write("""#!/bin/sh
h=$1
case $h in
ha) exec 0<&- 1>&-; exec sleep 30 ;;
hx) sleep 2.5 ;;
hb) sleep 1.8; echo "$h own"; echo "$h eown" >&2; sleep 1.2 ;;
hc) i=0; while [ $i -lt 30 ]; do echo "$h line $i"; echo "$h eline $i" >&2; i=$((i+1)); sleep 0.05; done ;;
t*) printf '%s line\\n%s tail' $h $h ;;
esac
exit 0
""")
    os.chmod(sc, 0o755)
    scen = []
    # (1) -u 3 -f 2: ha gives its stdout back at once and hangs until the command time-out; hb starts meanwhile (and gets the number
    #     ha gave back), hc starts when ha is torn down and writes while hb is still there
    exp = {"hb": (["hb own"], ["hb eown"]), "hc": (["hc line %d" % i for i in range(30)], ["hc eline %d" % i for i in range(30)])}
    scen.append(("command time-out while descriptor numbers are reused", ["-R", "exec", "-u", "3", "-f", "2", "-w", "ha,hx,hb,hc", sc, "%h"], {}, exp, False))
    # (2) descriptor 0 closed at start: the first host's connection is descriptor 0
    exp2 = {h: (["%s line" % h, "%s tail" % h], []) for h in ("t1", "t2", "t3")}
    scen.append(("started with descriptor 0 closed", ["-R", "exec", "-w", "t1,t2,t3", sc, "%h"], {"closed_stdin": True}, exp2, True))
    # (3) the prompt loop: two commands from standard input, every host ends with an unterminated tail
    exp3 = {h: (["%s line" % h, "%s tail" % h], []) for h in ("t1", "t2")}
    scen.append(("prompt loop, records ending without a newline", ["-R", "exec", "-w", "t1,t2"], {"stdin": ("%s %%h\n" % sc).encode()}, exp3, True))
    for name, args, kw, exp, tails in scen[:(3 if not quick else 3)]:
        rc, o, e = real.run(args, timeout=40, **kw)
        n += 1
        if tails:
            # the unterminated tail of a host is followed directly by the next label: put the line ends back before judging
            for h in exp:
                o = o.replace(("%s tail" % h).encode(), ("%s tail\n" % h).encode())
            o = o.replace(b"pdsh> ", b"")
        p = "pdsh did not finish" if rc == -999 else judge_records(exp, o, e)
        if p:
            bad += 1
            ctx.violation("input", case={"transport": "exec", "scenario": name, "args": [str(a) for a in args[:-2]]}, expected="every record once, under the label of the host that wrote it",
                          observed=repr(o[-300:]) + " / " + repr(e[-200:]), engine="exec", detail="%s: %s" % (name, p))
    return n, bad


UY = {"SCHED_UYIELD": "1"}     # library-lock releases are preemption points too (code right after cbuf_read interleaves)
NAMESETS = [[b"n1.example.co", b"n2.example.com"], [b"a.Dom", b"b.dom"], [b"x.lab", b"y.lab.example.com", b"z.lab"], [b"p.d", b"q.d", b"r.dd"],
            [b"u.site", b"v.site", b"w.site"], [b"k1.a.b", b"k2.a.b", b"k3.b"], [b"1a.foo", b"b.bar"], [b"b.bar", b"c.bar", b"10.0.0.1"],
            [b"9.bar", b"b.bar"],
            [b"n1", b"n2", b"n3"], [b"foo", b"foo1", b"foo-ib"], [b"a.dom", b"b.dom"], [b"a.x.org", b"b.y.org", b"c"], [b"10.0.0.1", b"10.0.0.2"],
            [b"h1.d", b"h2.d", b"h3.d", b"h4.d"], [b"n1", b"n10", b"n100"], [b"a", b"ab", b"abc", b"abcd"]]


def sched_part(ctx, r, quick, judge):
    import schedeng
    eng = schedeng.Sched(ctx)
    bad = 0
    keepq = []
    nrun = 150 if quick else 4000
    for k in range(nrun):
        names = list(r.choice(NAMESETS))
        if r.chance(1, 3):
            names.reverse()
        doms = set(n[n.index(b"."):] for n in names if b"." in n)
        keep = len(doms) > 1              # dsh(): labels keep the domain as soon as two targets differ in theirs (exact comparison)
        keepq.append((keep, names))
        hosts, streams = [], {}
        tails = r.chance(1, 3)            # every host ends in an unterminated tail: all workers pass through the tail path at once
        for nm in names:
            if tails:
                so = b"".join(bytes(r.choice(b"abcxyz019 ") for _ in range(r.range(0, 12))) + b"\n" for _ in range(r.range(0, 2))) + \
                     nm + b"-tail-" + bytes(r.choice(b"abcdefgh") for _ in range(r.range(1, 30)))
                se = (b"E" + nm + bytes(r.choice(b"qrstuv") for _ in range(r.range(1, 20)))) if r.chance(1, 2) else b""
            else:
                so = outeng.gen_stream(r) if r.chance(4, 5) else b""
                se = outeng.gen_stream(r) if r.chance(1, 3) else b""
            if len(so) > 3000:
                so = so[:3000]
            if len(se) > 3000:
                se = se[:3000]
            streams[nm] = (so, se)
            def items(s):
                if not s:
                    return "-"
                cuts = sorted(set(r.range(1, max(1, len(s) - 1)) for _ in range(r.range(0, 3)))) if len(s) > 1 else []
                out, prev = [], 0
                for c in cuts + [len(s)]:
                    if c > prev:
                        out.append("A" + hexs(s[prev:c])); prev = c
                return "/".join(out)
            hosts.append((nm.decode(), "o", items(so), items(se), 0))
        fan = r.range(1, len(names))
        ru = eng.run(["-R", "sim", "-f", str(fan), "-w", b",".join(names).decode(), "cmd"], hosts, seed=r.next() % (1 << 31), env=UY)
        who2host = {}
        for st, kind, f in ru.events:
            if kind == "CONNBEGIN":
                who2host[f[0]] = f[2].encode()
        problem = None
        if ru.exit is None or ru.deadlock:
            problem = "pdsh did not finish: " + ru.errtxt[-150:]
        else:
            for who, nm in who2host.items():
                for stream, idx in (("out", 0), ("err", 1)):
                    calls = [b for st, w, sname, b in ru.outs if w == who and sname == stream and not (stream == "err" and b.startswith(b"pdsh@"))]
                    e = judge(streams[nm][idx], nm, 1, keep, calls)
                    if e:
                        problem = "host %r %s: %s" % (nm, stream, e)
                        break
                if problem:
                    break
        if problem:
            bad += 1
            ctx.violation("schedule", case={"names": [n.decode() for n in names], "fanout": fan, "hosts": hosts, "seed": ru.seed, "schedule": [c for c in ru.choices if c != "sig"]},
                          expected="every host's records, whole and under its own label", observed=ru.summary(), engine="sched",
                          detail=problem + "; several hosts streaming at once, schedule of %d steps" % len(ru.choices))
            if bad >= 3:
                break
    # the oracle's rule for "labels keep the domain" is the extracted Dsh/Domain.v (C06_domain_rule) on the same target lists
    model = ctx.build_runner("dsh", "dsh_model")
    mres = ctx.run_lines([model], ["dom 0 " + " ".join(hexs(n) for n in nms) for _, nms in keepq], crash_tag="MODEL-CRASH")
    for (kp, nms), mr in zip(keepq, mres):
        if mr != "keep=%d" % (1 if kp else 0):
            bad += 1
            ctx.violation("no-failing-input-found", case={"names": [n.decode() for n in nms]}, expected=mr, observed="keep=%d" % (1 if kp else 0), engine="sched",
                          correspondence="sched: domain-in-label rule of the oracle = Domain.domain_in_label (extracted)", detail="the oracle's domain rule and Dsh/Domain.v disagree on %r" % nms)
            break
    return nrun, bad


def replay(ctx, path):
    rec = json.load(open(path))
    ctx.gen_params()
    eng = outeng.Out(ctx)
    c = rec["case"]
    if isinstance(c, dict):
        import schedeng
        se = schedeng.Sched(ctx)
        ru = se.run(["-R", "sim", "-f", str(c.get("fanout", 2)), "-w", ",".join(c["names"]), "cmd"], [tuple(h) for h in c["hosts"]], seed=c["seed"], env=UY)
        print("run now (same seed):", ru.summary()[:1500])
        for o in ru.outs:
            print("  ", o)
        return 0
    keep = c.endswith(" #K")
    c = c[:-3] if keep else c
    print("impl now :", eng.run_impl([c], keep)[0][:600])
    print("model now:", eng.run_model([c], keep)[0][:600])
    return 0
