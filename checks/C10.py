"""C10 - the target list is assembled faithfully from every source."""
import os, json, shutil
import vlib, hlgen
from vlib import hexs, unhex, hexlist

PROP = "C10"
NAMES = [b"A", b"B", b"C", b"D", b"grp", b"hosts.txt"]


def gen_line(r, names, cur):
    k = r.weighted([("host", 8), ("range", 4), ("comment", 2), ("trail_comment", 2), ("blank", 2), ("include", 5), ("bad_include", 1),
                    ("long", 1), ("indented_include", 1), ("multi", 2)])
    if k == "host":
        return hlgen.gen_text(r, ("alpha", "alnum", "dash", "dot"))
    if k == "range":
        return hlgen.gen_text(r, ("alpha",)) + b"[" + hlgen.render_ranges(hlgen.gen_ranges(r, maxn=2)) + b"]"
    if k == "comment":
        return b"# " + hlgen.gen_text(r, ("alpha",))
    if k == "trail_comment":
        return hlgen.gen_text(r, ("alpha", "alnum")) + r.choice([b" # c", b"#c", b"\t# x y"])
    if k == "blank":
        return r.choice([b"", b" ", b"\t", b"  \t "])
    if k == "include":
        return b"#include" + r.choice([b" ", b"\t", b"  "]) + r.choice(names) + r.choice([b"", b" ", b"\t"])
    if k == "bad_include":
        return r.choice([b"#include", b"#include ", b"#include a b", b"#includ A", b"# include A"])
    if k == "indented_include":
        return b" #include " + r.choice(names)
    if k == "multi":
        return b" " + hlgen.gen_text(r, ("alpha",)) + b"1," + hlgen.gen_text(r, ("alpha",)) + b"2 \t"
    # a single very long line: many hosts separated by commas, around the old 2048-byte fgets buffer
    n = r.choice([2040, 2046, 2047, 2048, 2049, 4095, 4096, 5400, 9000])
    hosts, tot = [], 0
    i = 0
    while tot < n:
        h = b"node%04d" % i
        hosts.append(h); tot += len(h) + 1; i += 1
    return b",".join(hosts)


def gen_tree(r):
    """returns (fs dict path->bytes relative to the scratch dir, top-level file path)"""
    sub = r.choice([b"", b"", b"d", b"d/e"])
    k = r.range(1, 5)
    names = NAMES[:k]
    fs = {}
    for n in names:
        lines = [gen_line(r, names, n) for _ in range(r.range(0, 7))]
        body = b"\n".join(lines)
        if lines and not r.chance(1, 5):
            body += b"\n"
        fs[(sub + b"/" if sub else b"") + n] = body
    top = (sub + b"/" if sub else b"") + r.choice(names)
    if r.chance(1, 12):
        # an include of something that does not exist
        fs[top] += b"#include nosuchfile\n"
    return fs, top


def s_assemble(fs, top):
    """S: the property, independent of the code: lines in order, comments and blanks ignored, '#include F'
    (exactly, first column) replaced in place by F's hosts, F looked up in the directory of the file named on the
    command line; a file reached a second time is skipped; unreadable is an error.  Returns (exprs, warnings) or None."""
    d = os.path.dirname(top) or b"."
    seen = {os.path.normpath(os.path.join(d, os.path.basename(top)))}
    warns = [0]

    def rd(path):
        out = []
        content = fs.get(os.path.normpath(path))
        if content is None:
            raise KeyError(path)
        lines = content.split(b"\n")
        if lines and lines[-1] == b"":
            lines.pop()
        for l in lines:
            if l.startswith(b"#include"):
                rest = l[8:].lstrip(b" \t")
                toks = rest.replace(b"\r", b" ").replace(b"\t", b" ").split()
                if len(toks) != 1:
                    warns[0] += 1
                    continue
                g = toks[0]
                tgt = g if (g.startswith(b"/") or g.startswith(b"./") or g.startswith(b"../")) else os.path.join(d, g)
                key = os.path.normpath(tgt)
                if key not in fs:
                    raise KeyError(tgt)
                if key in seen:
                    warns[0] += 1
                    continue
                seen.add(key)
                out += rd(tgt)
                continue
            e = l.split(b"#")[0].strip(b"\n\t ")
            if e:
                out.append(e)
        return out
    try:
        return rd(top), warns[0]
    except KeyError:
        return None


def run(ctx):
    ctx.gen_params()
    ctx.prove()
    import outeng
    impl = ctx.cc([os.path.join(vlib.VERIF, "harness", "wcoll_harness.c")] + [s for s in outeng.PDSH_SRCS] +
                  [os.path.join(vlib.REPO, "src/pdsh/dsh.c"), write_cfg(ctx)], "wcoll_harness", flags=["-rdynamic"], libs=["-ldl", "-lpthread"])
    model = ctx.build_runner("args", "args_model")
    # the hostlist side of S: expressions -> hosts through the implementation-independent expander of C01 is not
    # available for arbitrary expressions, so hosts of single expressions come from the hl harness (covered by C01)
    import hleng
    hl = hleng.HL(ctx)
    quick = ctx.tier == "quick"
    r = ctx.rng("trees")
    trees = []
    cdir = os.path.join(vlib.VERIF, "corpus", PROP)
    if os.path.isdir(cdir):
        for fn in sorted(os.listdir(cdir)):
            if fn.endswith(".json"):
                c = json.load(open(os.path.join(cdir, fn)))
                trees.append(({k.encode("latin-1"): v.encode("latin-1") for k, v in c["fs"].items()}, c["top"].encode("latin-1")))
    ncorpus = len(trees)
    for _ in range(400 if quick else 8000):
        trees.append(gen_tree(r))
    base = os.path.join(ctx.scratch, "wtrees")
    icases, mcases = [], []
    for k, (fs, top) in enumerate(trees):
        d = os.path.join(base, "t%d" % k)
        for p, c in fs.items():
            fp = os.path.join(d.encode(), p)
            os.makedirs(os.path.dirname(fp), exist_ok=True)
            open(fp, "wb").write(c)
        icases.append("wcoll %s %s" % (hexs(d.encode()), hexs(top)))
        mcases.append("wcoll %s %s" % (hexs(top), " ".join("%s=%s" % (hexs(p), hexs(c)) for p, c in fs.items())))
    ctx.log("running %d file trees" % len(trees))
    ires = ctx.run_lines([impl], icases)
    mres = ctx.run_lines([model], mcases, env={"OCAMLRUNPARAM": "l=4G"}, crash_tag="MODEL-CRASH")
    # S: expected hosts = concatenation of the expansions of the expressions S assembles
    specs = [s_assemble(fs, top) for fs, top in trees]
    exprs = sorted(set(e for s in specs if s for e in s[0]))
    eres = dict(zip(exprs, hl.run_impl(["targets1 " + hexs(e) for e in exprs])))
    bad, samples = 0, []
    dist = {"fatal": 0, "with_warning": 0, "long_lines": 0, "includes": 0}
    for (fs, top), ic, io, mo, sp in zip(trees, icases, ires, mres, specs):
        dist["long_lines"] += any(len(l) > 2046 for c in fs.values() for l in c.split(b"\n"))
        dist["includes"] += sum(c.count(b"#include") for c in fs.values())
        if sp is None:
            exp = "FATAL"
            dist["fatal"] += 1
        else:
            hosts = []
            for e in sp[0]:
                er = eres[e]
                if er.startswith("OK "):
                    hosts += vlib.unhexlist(er[3:])
            exp = "OK " + hexlist(hosts)
            dist["with_warning"] += sp[1] > 0
        got = io if not io.startswith("OK ") else "OK " + io.split(" ", 2)[2]
        problem = None
        if io.startswith(("CRASH", "HANG")):
            problem = ("input", "reading the file tree crashed or did not terminate: " + io)
        elif got != exp:
            problem = ("input", "assembled target list differs from the specification")
        elif sp is not None and sp[1] > 0 and io.startswith("OK W=0 "):
            problem = ("input", "a file reached twice / a malformed include was skipped without a warning")
        elif io != mo:
            problem = ("corr", "implementation and model disagree")
        if problem:
            bad += 1
            rec = {"fs": {k.decode("latin-1"): v.decode("latin-1")[:3000] for k, v in fs.items()}, "top": top.decode("latin-1")}
            if problem[0] == "input":
                ctx.violation("input", case=rec, expected=exp[:400], observed=io[:400], engine="wcoll", detail=problem[1] + "; top-level file %r" % top)
            else:
                ctx.violation("no-failing-input-found", case=rec, expected=mo[:400], observed=io[:400], engine="wcoll",
                              correspondence="wcoll: read_wcoll(impl) = model", detail=problem[1])
            if bad >= 6:
                break
        if len(samples) < 2 and len(fs) >= 3 and sp and sp[1] > 0:
            samples.append({"top": top.decode(), "files": {k.decode(): v.decode("latin-1")[:120] for k, v in fs.items()}, "impl": io[:100]})
    shutil.rmtree(base, ignore_errors=True)
    have_input = any(v["kind"] != "no-failing-input-found" for v in ctx.violations)
    vlib.report_proof_break(ctx, have_input)
    cov = vlib.proof_coverage(ctx, {
        "evaluations": len(trees), "distinct_nontrivial": len(set(mcases)),
        "rule": "generated directory trees of 1-5 files in ., d or d/e: host and range lines, comments and blanks anywhere, #include with extra tokens / indentation / missing name, nested, diamond and cyclic include graphs including cycles through the top-level file, unreadable includes, lines of 2040..9000 bytes; read by the real read_wcoll() in a forked child; compared with the extracted model and with an independent assembler; distinct = distinct tree",
        "samples": samples, "input_distribution": dist, "corpus_cases": ncorpus, "disagreements": bad})
    return ctx.finish(cov, ["the file system and dirname(3) are modelled (paths without symbolic links)", "command-line order of several sources is exercised by C02's whole-command-line runs"])


def write_cfg(ctx):
    p = os.path.join(ctx.scratch, "wcfg.c")
    open(p, "w").write('char *pdsh_version = "v"; char *pdsh_module_dir = "/nonexistent";\n')
    return p


def replay(ctx, path):
    print(json.dumps(json.load(open(path)), indent=1)[:3000])
    return 0
