"""C10 - the target list is assembled faithfully from every source.

Two implementation-side engines, one model:
  A  harness/wcoll_harness.c : read_wcoll() of the repository on generated directory trees (forked child per case,
     20 s alarm), hosts in hex - long lines, include graphs, odd directory names, malformed directives;
  B  the real pdsh binary (lib/realeng.py) : `pdsh -Q -w ... -w ...` with generated words, ^files, '-' (standard
     input), WCOLL in the environment, every order and grouping - the whole path through opt.c.
Both are compared with the extracted Coq model (Args/WcollFile.v, Args/Assemble.v through ocaml/args_runner.ml) and
judged by S restated below in Python, independently of the code and of the Coq text."""
import os, json, shutil, time
import vlib, hlgen
from vlib import hexs, unhex, hexlist

PROP = "C10"
NAMES = [b"A", b"B", b"A1", b"C", b"D", b"grp", b"hosts.txt", b"grp2"]     # A and A1, grp and grp2: one path is a prefix of the other
PATH_MAX = 4096

# =====================================================================================================================
# S, restated: the property, independent of the code.
# =====================================================================================================================
SEPS = b" \t\r\n"


class SErr(Exception):
    pass


class SOutOfScope(Exception):
    pass


def s_lines(content):
    """the lines of a text: what stands between newlines; a final newline ends the last line"""
    ls = content.split(b"\n")
    if ls and ls[-1] == b"":
        ls.pop()
    return ls


def s_directive(line):
    """None: not a directive line; ('bad',): '#include' without exactly one name; ('inc', name)"""
    if not line.startswith(b"#include"):
        return None
    toks = line[8:].replace(b"\t", b" ").replace(b"\r", b" ").replace(b"\n", b" ").split(b" ")
    toks = [t for t in toks if t]
    return ("inc", toks[0]) if len(toks) == 1 else ("bad",)


def s_entry(line):
    """the host expression of an ordinary line: comment removed, surrounding blanks removed"""
    return line.split(b"#")[0].strip(b" \t")


def s_dirname(p):
    """POSIX dirname"""
    q = p.rstrip(b"/")
    if not q:
        return b"/" if p else b"."
    if b"/" not in q:
        return b"."
    d = q[:q.rindex(b"/")].rstrip(b"/")
    return d if d else b"/"


def s_locate(d, g):
    if g.startswith(b"/") or g.startswith(b"./") or g.startswith(b"../"):
        return g
    return d + b"/" + g


def s_read(readf, lines, d, seen, warns):
    out = []
    for l in lines:
        if l.startswith(b"#"):
            k = s_directive(l)
            if k is None:
                continue                        # a comment
            if k[0] == "bad":
                warns[0] += 1
                continue
            p = s_locate(d, k[1])
            if p in seen:
                warns[0] += 1                   # reached a second time: skipped with a warning
                continue
            c = readf(p)
            if c is None:
                raise SErr(p)
            seen.add(p)
            out += s_read(readf, s_lines(c), d, seen, warns)
        else:
            e = s_entry(l)
            if e:
                out.append(e)
    return out


def s_file(readf, path, warns):
    c = readf(path)
    if c is None:
        raise SErr(path)
    d = s_dirname(path)
    return s_read(readf, s_lines(c), d, {d + b"/" + path.split(b"/")[-1]}, warns)


def s_stream(readf, content, warns):
    return s_read(readf, s_lines(content), b".", set(), warns)


def s_split(arg):
    """the words of a -w argument: cut at the commas that are not between brackets"""
    words, cur, depth = [], b"", 0
    for ch in arg:
        c = bytes([ch])
        if c == b"," and depth == 0:
            words.append(cur)
            cur = b""
            continue
        if c == b"[":
            depth += 1
        elif c == b"]":
            depth -= 1
        cur += c
    words.append(cur)
    return [w for w in words if w]


def s_assemble(readf, args, stdin, wcoll):
    """('OK', expressions in order, warnings) | ('ERR',) | ('SKIP',)"""
    warns = [0]
    out, given, sin = [], False, stdin

    def source(path):
        nonlocal sin
        if path == b"-":
            r = s_stream(readf, sin, warns)
            sin = b""                           # standard input is read once
            return r
        return s_file(readf, path, warns)
    try:
        for a in args:
            for w in s_split(b"^-" if a == b"-" else a):
                excl = w.startswith(b"-")
                body = (w[1:] if excl else w).lstrip(b" \t\n\v\f\r")
                if body.startswith(b"^"):
                    es = source(body[1:])
                    if not excl:
                        out += es
                        given = True
                elif body.startswith(b"/"):
                    raise SOutOfScope()         # a filter: C02
                elif excl:
                    pass                        # an exclusion: C02
                elif b":" in body or b"@" in body:
                    raise SOutOfScope()         # rcmd_type:user@hosts: C09
                else:
                    out.append(body)
                    given = True
        if not given and wcoll is not None:
            out += source(wcoll)                # WCOLL only when nothing else named a target
    except SErr:
        return ("ERR",)
    except SOutOfScope:
        return ("SKIP",)
    return ("OK", out, warns[0])


# =====================================================================================================================
# generators
# =====================================================================================================================
def long_hosts(n):
    hosts, tot, i = [], 0, 0
    while tot < n:
        h = b"node%04d" % i
        hosts.append(h)
        tot += len(h) + 1
        i += 1
    return b",".join(hosts)


def gen_line(r, names, big=True, sub=b"", absdir=None, fatal=False):
    k = r.weighted([("host", 8), ("range", 4), ("range2", 2), ("comment", 2), ("trail_comment", 2), ("blank", 2), ("include", 6), ("bad_include", 1),
                    ("long", 1 if big else 0), ("indented_include", 1), ("multi", 2), ("long_small", 1), ("noblank_include", 1),
                    ("cr_include", 1), ("asis_include", 2), ("subdir_include", 2), ("long_rel_include", 1 if fatal else 0), ("hash_include_comment", 1)])
    if k == "host":
        return hlgen.gen_text(r, ("alpha", "alnum", "dash", "dot"))
    if k == "range":
        return hlgen.gen_text(r, ("alpha",)) + b"[" + hlgen.render_ranges(hlgen.gen_ranges(r, maxn=2)) + b"]"
    if k == "range2":
        # a second pair of brackets: expanded by the second pass over the assembled list, whatever the source of the word
        return hlgen.gen_text(r, ("alpha",)) + b"[" + r.choice([b"1-2", b"3", b"08-10", b"1,3"]) + b"]" + r.choice([b"-", b"r", b"-e"]) + \
            b"[" + r.choice([b"0-1", b"2", b"01-02", b"5,7"]) + b"]"
    if k == "comment":
        return b"# " + hlgen.gen_text(r, ("alpha",))
    if k == "trail_comment":
        return hlgen.gen_text(r, ("alpha", "alnum")) + r.choice([b" # c", b"#c", b"\t# x y", b" #include A"])
    if k == "blank":
        return r.choice([b"", b" ", b"\t", b"  \t "])
    if k == "include":
        return b"#include" + r.choice([b" ", b"\t", b"  "]) + r.choice(names) + r.choice([b"", b" ", b"\t"])
    if k == "bad_include":
        return r.choice([b"#include", b"#include ", b"#include a b", b"#includ A", b"# include A", b"#include A B C", b"#include \t"])
    if k == "hash_include_comment":
        return r.choice([b"#Include A", b"##include A", b"#INCLUDE B"])
    if k == "indented_include":
        return r.choice([b" ", b"\t"]) + b"#include " + r.choice(names)
    if k == "noblank_include":
        return b"#include" + r.choice(names)
    if k == "subdir_include":
        # a name with a directory part (no leading / ./ ../): still looked up below the directory of the top-level file
        return b"#include inc/" + r.choice(names)
    if k == "cr_include":
        return b"#include " + r.choice(names) + b"\r"
    if k == "asis_include":
        # names with a leading / ./ ../ are taken as they are, i.e. relative to the current directory
        n = r.choice(names)
        p = (sub + b"/" if sub else b"") + n
        form = r.weighted([("dot", 4), ("abs", 2 if absdir else 0), ("dotdot", 1), ("dotdot_missing", 1 if fatal else 0)])
        if form == "dot":
            return b"#include ./" + p
        if form == "abs":
            return b"#include " + absdir + b"/" + p
        if form == "dotdot":
            return b"#include ../" + os.path.basename(absdir or b"x") + b"/" + p if absdir else b"#include ./" + p
        return b"#include ../nosuchdir/" + n
    if k == "multi":
        return b" " + hlgen.gen_text(r, ("alpha",)) + b"1," + hlgen.gen_text(r, ("alpha",)) + b"2 \t"
    if k == "long_small":
        # long lines whose host list is short: blanks before a name that straddles the old 2048-byte buffer,
        # or a comment longer than the buffer
        if r.chance(1, 2):
            return b" " * r.choice([2036, 2040, 2044, 4090]) + b"straddle" + hlgen.gen_text(r, ("alnum",))
        return hlgen.gen_text(r, ("alnum",)) + b" #" + b"x" * r.choice([2046, 2100, 5000])
    if k == "long_rel_include":
        return b"#include " + b"n" * r.choice([4090, 4096, 5000])
    # a single very long line: many hosts separated by commas, around the old 2048-byte fgets buffer
    return long_hosts(r.choice([2040, 2046, 2047, 2048, 2049, 4095, 4096, 5400, 9000]))


SUBDIRS_A = [b"", b"", b"d", b"d/e", b"a:b", b"b[1:2]k", b"c,d", b"s p"]
SUBDIRS_B = [b"", b"", b"d", b"d/e", b"a:b", b"b[1:2]k"]


def gen_files(r, sub, names, big, absdir):
    fs = {}
    fatal = r.chance(1, 10)          # only some trees contain lines that make the read fail
    for n in names:
        lines = [gen_line(r, names, big, sub, absdir, fatal) for _ in range(r.range(0, 7))]
        body = b"\n".join(lines)
        if lines and not r.chance(1, 5):
            body += b"\n"
        fs[(sub + b"/" if sub else b"") + n] = body
    for n in names:
        if any((b"#include inc/" + n) in t for t in list(fs.values())):
            fs[(sub + b"/" if sub else b"") + b"inc/" + n] = b"inc" + n.replace(b".", b"d") + b"1\n#include " + r.choice(names) + b"\n"
            if sub and r.chance(2, 3):
                fs[b"inc/" + n] = b"stale" + n.replace(b".", b"d") + b"\n"      # a decoy below the current directory
    return fs


def gen_tree(r, absdir):
    """engine A: (fs, top)"""
    sub = r.choice(SUBDIRS_A)
    names = NAMES[:r.range(1, 5)]
    if r.chance(1, 4):
        # names that merely LOOK like as-is paths (start with dots, no slash after them): still looked up in the file's directory
        names = names + [r.choice([b"..spare", b".hid", b"...x"])]
    fs = gen_files(r, sub, names, True, absdir)
    top = (sub + b"/" if sub else b"") + r.choice(names)
    if r.chance(1, 20):
        fs[top] += b"#include nosuchfile\n"
    if r.chance(1, 10):
        top = b"./" + top
    elif sub and r.chance(1, 6):
        # the same file spelled with a doubled slash before its last component
        top = sub + b"//" + top[len(sub) + 1:]
    if r.chance(1, 25):
        # a NUL byte in a line: correspondence only (S speaks of text files)
        k = r.choice(sorted(fs))
        fs[k] = fs[k] + b"nul\x00tail,#include A\n"
    return fs, top


def gen_cmdline(r, absdir):
    """engine B: (fs, args, stdin, wcoll)"""
    subs = [r.choice(SUBDIRS_B)]
    if r.chance(1, 3):
        s2 = r.choice(SUBDIRS_B)
        if s2 not in subs:
            subs.append(s2)
    fs, tops = {}, []
    for sub in subs:
        names = NAMES[:r.range(1, 4)]
        if r.chance(1, 4):
            names = names + [r.choice([b"..spare", b".hid", b"...x"])]
        fs.update(gen_files(r, sub, names, False, absdir))
        tops += [(sub + b"/" if sub else b"") + n for n in names]
    top_names = sorted(set(os.path.basename(t) for t in tops))
    stdin = b""
    items = []
    nsrc = r.weighted([(0, 1), (1, 3), (2, 4), (3, 4), (4, 2), (5, 1)])
    for _ in range(nsrc):
        k = r.weighted([("word", 10), ("range", 4), ("file", 12), ("stdin", 6), ("excluded", 2), ("missing", 1), ("exfile", 2), ("spaced", 2)])
        if k == "word":
            items.append(hlgen.gen_text(r, ("alpha", "alnum", "dash", "dot")))
        elif k == "range":
            items.append(hlgen.gen_text(r, ("alpha",)) + b"[" + r.choice([b"1-3", b"07-09", b"1,3", b"2,5-6"]) + b"]")
        elif k == "file":
            t = r.choice(tops)
            items.append(b"^" + (b"./" + t if r.chance(1, 8) else (absdir + b"/" + t if r.chance(1, 10) else t)))
        elif k == "stdin":
            items.append(r.choice([b"-", b"^-"]))
        elif k == "excluded":
            items.append(b"-0x" + hlgen.gen_text(r, ("digits",)))       # excludes a host nobody names
        elif k == "missing":
            items.append(r.choice([b"^nosuchfile", b"^d/nosuch", b"^"]))
        elif k == "exfile":
            # an excluded file is still read (unreadable = error, standard input used up); its hosts (zz..) are named
            # nowhere else, so the exclusion itself (C02) changes nothing
            fs[b"X"] = b"zzx1\nzzx[2-3] # excluded\n"
            items.append(r.choice([b"-^nosuchfile", b"-^-", b"-^X"]))
        else:
            items.append(b" " + r.choice([hlgen.gen_text(r, ("alpha",)), b"^" + r.choice(tops)]))
    if b"-^-" in items:
        stdin = b"zzs1\nzzs2\n"
    elif any(i in (b"-", b"^-") for i in items) or r.chance(1, 6):
        stdin = b"\n".join(gen_line(r, top_names, False, b"", absdir) for _ in range(r.range(0, 5))) + r.choice([b"\n", b""])
    # group the items into -w arguments: "-" must be an argument of its own to mean standard input
    args, cur = [], []
    for it in items:
        if it == b"-":
            if cur:
                args.append(b",".join(cur))
                cur = []
            args.append(it)
            continue
        cur.append(it)
        if not r.chance(1, 3):
            args.append(b",".join(cur))
            cur = []
    if cur:
        args.append(b",".join(cur))
    wk = r.weighted([("unset", 10), ("file", 8), ("missing", 1), ("stdin", 2)])
    wcoll = None if wk == "unset" else r.choice(tops) if wk == "file" else b"nosuchwcoll" if wk == "missing" else b"-"
    if wcoll == b"-" and not stdin:
        stdin = b"fromstdin1\n#include " + r.choice(top_names) + b"\n"
    return fs, args, stdin, wcoll


def exhaustive_orders():
    """thorough: every order of word / file / stdin / second file, every grouping into one or several -w"""
    import itertools
    fs = {b"F": b"f1\n#include G\nf2\n", b"G": b"g1\n#include F\n", b"d/H": b"h1 # c\n#include K\n", b"d/K": b"k[1-2]\n"}
    srcs = [b"w1", b"^F", b"-", b"^d/H", b"-0x9"]
    out = []
    for n in (1, 2, 3, 4):
        for perm in itertools.permutations(srcs, n):
            for mask in range(1 << (n - 1)):
                args, cur = [], []
                for i, it in enumerate(perm):
                    if it == b"-":
                        if cur:
                            args.append(b",".join(cur))
                            cur = []
                        args.append(it)
                        continue
                    cur.append(it)
                    if not (mask >> i) & 1:
                        args.append(b",".join(cur))
                        cur = []
                if cur:
                    args.append(b",".join(cur))
                for wcoll in (None, b"d/K"):
                    out.append((fs, args, b"s1\n#include F\ns2", wcoll))
    return out


# =====================================================================================================================
# running cases
# =====================================================================================================================
def write_tree(d, fs):
    os.makedirs(d, exist_ok=True)
    for p, c in fs.items():
        fp = os.path.join(d.encode(), p)
        os.makedirs(os.path.dirname(fp), exist_ok=True)
        with open(fp, "wb") as f:
            f.write(c)


def disk_reader(d):
    db = d.encode()

    def readf(p):
        if len(p) >= PATH_MAX or not p:
            return None
        fp = p if p.startswith(b"/") else os.path.join(db, p)
        try:
            if not os.path.isfile(fp) or not os.access(fp, os.R_OK):
                return None
            with open(fp, "rb") as f:
                return f.read()
        except (OSError, ValueError):
            return None
    return readf


def model_fs(readf, texts, tops):
    """the abstract file system handed to the model: every path string the code could build (the file names given,
    every include name as it is or below the directory of a given file or below '.'), looked up on the disk"""
    toks = set()
    for c in texts:
        for l in c.split(b"\n"):
            l = l.split(b"\x00")[0]
            if l.startswith(b"#include"):
                for t in l[8:].replace(b"\t", b" ").replace(b"\r", b" ").split(b" "):
                    if t:
                        toks.add(t)
    dirs = {b"."} | {s_dirname(t) for t in tops}
    cands = set(tops)
    for t in toks:
        if t.startswith(b"/") or t.startswith(b"./") or t.startswith(b"../"):
            cands.add(t)
        else:
            for d in dirs:
                cands.add(d + b"/" + t)
    out = []
    for p in sorted(cands):
        c = readf(p)
        if c is not None:
            out.append("%s=%s" % (hexs(p), hexs(c)))
    return out


def case_texts(c):
    return list(c["fs"].values()) + [c.get("stdin", b"")]


def case_tops(c):
    if c["engine"] == "A":
        return [c["top"]]
    tops = []
    for a in c["args"]:
        for w in s_split(a):
            b = (w[1:] if w.startswith(b"-") else w).lstrip(b" \t\n\v\f\r")
            if b.startswith(b"^") and b != b"^-":
                tops.append(b[1:])
    if c.get("wcoll") not in (None, b"-"):
        tops.append(c["wcoll"])
    return [t for t in tops if t]


def to_json(c):
    j = {"engine": c["engine"], "fs": {k.decode("latin-1"): v.decode("latin-1") for k, v in c["fs"].items()}}
    if c["engine"] == "A":
        j["top"] = c["top"].decode("latin-1")
    else:
        j.update(args=[a.decode("latin-1") for a in c["args"]], stdin=c["stdin"].decode("latin-1"),
                 wcoll=None if c["wcoll"] is None else c["wcoll"].decode("latin-1"))
    return j


def from_json(j):
    c = {"engine": j.get("engine", "A"), "fs": {k.encode("latin-1"): v.encode("latin-1") for k, v in j["fs"].items()}}
    if c["engine"] == "A":
        c["top"] = j["top"].encode("latin-1")
    else:
        c.update(args=[a.encode("latin-1") for a in j["args"]], stdin=j.get("stdin", "").encode("latin-1"),
                 wcoll=None if j.get("wcoll") is None else j["wcoll"].encode("latin-1"))
    return c


def short(j):
    """a case for a replay file, long contents abbreviated"""
    j = dict(j)
    j["fs"] = {k: (v if len(v) <= 3000 else v[:3000] + "...[%d bytes]" % len(v)) for k, v in j["fs"].items()}
    return j


class Engines:
    def __init__(self, ctx):
        import outeng, hleng, realeng
        self.ctx = ctx
        self.harness = ctx.cc([os.path.join(vlib.VERIF, "harness", "wcoll_harness.c")] + [s for s in outeng.PDSH_SRCS] +
                              [os.path.join(vlib.REPO, "src/pdsh/dsh.c"), write_cfg(ctx)], "wcoll_harness", flags=["-rdynamic"],
                              libs=["-ldl", "-lpthread"])
        self.real = realeng.Real(ctx, null_exec=True, tag="real10")
        self.model = ctx.build_runner("args", "args_model")
        self.hl = hleng.HL(ctx)
        self.base = os.path.join(ctx.scratch, "wtrees")
        os.makedirs(self.base, exist_ok=True)
        self.absdir = self.base.encode()
        self.n = 0

    def new_dir(self):
        self.n += 1
        return os.path.join(self.base, "t%d" % self.n)

    def run(self, cases):
        """cases: dicts with 'dir' already chosen (the generators need the absolute path); returns per case
        (impl result line, model result line, S verdict)"""
        ctx = self.ctx
        icasesA, idxA, mcases, specs = [], [], [], []
        implB = {}
        t0 = time.time()
        for k, c in enumerate(cases):
            d = c["dir"]
            write_tree(d, c["fs"])
            readf = disk_reader(d)
            fsl = model_fs(readf, case_texts(c), case_tops(c))
            if c["engine"] == "A":
                icasesA.append("wcoll %s %s" % (hexs(d.encode()), hexs(c["top"])))
                idxA.append(k)
                mcases.append("wcoll %s %s" % (hexs(c["top"]), " ".join(fsl)))
                w = [0]
                try:
                    specs.append(("OK", s_file(readf, c["top"], w), w[0]))
                except SErr:
                    specs.append(("ERR",))
            else:
                mcases.append("asm %s %s %s %s" % (hexs(c["stdin"]), "_" if c["wcoll"] is None else hexs(c["wcoll"]),
                                                   ",".join(hexs(a) for a in c["args"]) if c["args"] else ".", " ".join(fsl)))
                specs.append(s_assemble(readf, c["args"], c["stdin"], c["wcoll"]))
                argv = ["-Q"]
                for a in c["args"]:
                    argv += ["-w", a]
                env = {} if c["wcoll"] is None else {"WCOLL": c["wcoll"]}
                rc, out, err = self.real.run(argv, env=env, stdin=c["stdin"], timeout=10, cwd=d)
                if rc == -999:                  # a loaded machine must not look like an include loop: once more, patiently
                    rc, out, err = self.real.run(argv, env=env, stdin=c["stdin"], timeout=90, cwd=d)
                implB[k] = canon_real(rc, out, err)
        t1 = time.time()
        iresA = ctx.run_lines([self.harness], icasesA, timeout_per_case=60.0)
        t2 = time.time()
        mres = ctx.run_lines([self.model], mcases, env={"OCAMLRUNPARAM": "l=4G"}, crash_tag="MODEL-CRASH")
        t3 = time.time()
        ctx.log("timing: write+oracle+real binary %.1fs, harness %.1fs, model %.1fs" % (t1 - t0, t2 - t1, t3 - t2))
        ires = [None] * len(cases)
        for k, v in zip(idxA, iresA):
            ires[k] = v
        for k, v in implB.items():
            ires[k] = v
        # the hosts of S's expressions: expansion is C01's subject, so the hostlist code itself expands them
        exprs = sorted(set(e for s in specs if s[0] == "OK" for e in s[1]))
        e1 = dict(zip(exprs, self.hl.run_impl(["targets1 " + hexs(e) for e in exprs])))
        e2 = dict(zip(exprs, self.hl.run_impl(["targets " + hexs(e) for e in exprs])))
        verdicts = []
        for c, sp in zip(cases, specs):
            if sp[0] != "OK":
                verdicts.append(sp[0])
                continue
            hosts, unparsed = [], 0
            for e in sp[1]:
                er = (e1 if c["engine"] == "A" else e2)[e]
                hs = vlib.unhexlist(er[3:]) if er.startswith("OK ") else []
                unparsed += not hs
                hosts += hs
            verdicts.append(("OK", hosts, sp[2], unparsed))
        return ires, mres, verdicts


def canon_real(rc, out, err):
    """what a user sees of `pdsh -Q`: the target list, or a failure"""
    if rc == -999:
        return "HANG no answer within 90 s"
    if rc < 0 or b"Sanitizer" in err or b"runtime error" in err:
        return "CRASH " + err[-200:].decode("latin-1")
    if rc != 0:
        return "FAIL"
    mark = b"-- Target nodes --\n"
    if mark not in out:
        return "FAIL"
    t = out.split(mark, 1)[1]
    t = t[:-1] if t.endswith(b"\n") else t
    if t.endswith(b"[truncated]"):
        return "TRUNCATED"
    hosts = t.split(b",") if t else []
    return "OK W=%d %s" % (err.count(b"warning:"), hexlist(hosts))


def canon_model(engine, mo):
    """the model's answer in the implementation's terms"""
    if engine == "A":
        return mo
    if mo == "ERROR":
        return "FAIL"
    if mo.startswith("OK "):
        f = mo.split(" ")
        hosts = f[3]
        if hosts == ".":
            return "FAIL"                       # opt_verify: no remote hosts specified
        return "OK %s %s" % (f[1], hosts)
    return mo


def expected_line(engine, v):
    if v == "ERR":
        return "FATAL" if engine == "A" else "FAIL"
    if v == "SKIP":
        return None
    _, hosts, warns, unparsed = v
    if engine == "B" and not hosts:
        return "FAIL"
    return "OK " + hexlist(hosts)


def strip_w(line):
    return "OK " + line.split(" ", 2)[2] if line.startswith("OK W=") else line


def judge(ctx, c, io, mo, v, counters):
    """returns None or (kind, detail, expected)"""
    eng = c["engine"]
    if io.startswith(("CRASH", "HANG")):
        return ("input", "reading the sources crashed or did not terminate: " + io[:200], "a target list or an error")
    exp = expected_line(eng, v)
    has_nul = any(b"\x00" in t for t in case_texts(c))
    if io == "TRUNCATED":
        counters["truncated"] += 1
        return None
    if exp is not None and not has_nul:
        if strip_w(io) != exp:
            return ("input", "the assembled target list differs from the specification", exp)
        if v != "ERR" and v[2] > 0 and io.startswith("OK W=0 "):
            return ("input", "a file reached a second time / a malformed #include was skipped without a warning", exp)
    mc = canon_model(eng, mo)
    if mc in ("OUTOFSCOPE",):
        counters["out_of_scope"] += 1
        return None
    if eng == "A" and v not in ("ERR", "SKIP") and mc.startswith("OK W=") and io.startswith("OK W="):
        # warnings about expressions the host-list parser rejects are printed by the code, counted by S's side here
        mw = int(mc.split(" ")[1][2:]) + v[3]
        mc = "OK W=%d %s" % (mw, mc.split(" ", 2)[2])
    if eng == "B" and v not in ("ERR", "SKIP") and mc.startswith("OK W=") and io.startswith("OK W="):
        mw = int(mc.split(" ")[1][2:]) + v[3]
        mc = "OK W=%d %s" % (mw, mc.split(" ", 2)[2])
    if io != mc:
        return ("corr", "implementation and model disagree", mc)
    return None


F_COLON = "C10-include-dir-colon"


def colon_signature(c):
    """signature of the finding: a file named on the command line (or by WCOLL) whose directory name contains ':'"""
    return any(b":" in s_dirname(t) for t in case_tops(c))


def run(ctx):
    ctx.gen_params()
    ctx.prove()
    t0 = time.time()
    eng = Engines(ctx)
    quick = ctx.tier == "quick"
    cases = []
    cdir = os.path.join(vlib.VERIF, "corpus", PROP)
    if os.path.isdir(cdir) and not os.environ.get("C10_SKIP_CORPUS"):      # (switch used to test the generators alone)
        for fn in sorted(os.listdir(cdir)):
            if fn.endswith(".json"):
                c = from_json(json.load(open(os.path.join(cdir, fn))))
                c["dir"] = eng.new_dir()
                cases.append(c)
    ncorpus = len(cases)
    rA, rB = ctx.rng("trees"), ctx.rng("cmdlines")
    for _ in range(500 if quick else 10000):
        d = eng.new_dir()
        fs, top = gen_tree(rA, d.encode())
        cases.append({"engine": "A", "fs": fs, "top": top, "dir": d})
    for _ in range(700 if quick else 10000):
        d = eng.new_dir()
        fs, args, stdin, wcoll = gen_cmdline(rB, d.encode())
        cases.append({"engine": "B", "fs": fs, "args": args, "stdin": stdin, "wcoll": wcoll, "dir": d})
    nexh = 0
    if not quick:
        for fs, args, stdin, wcoll in exhaustive_orders():
            cases.append({"engine": "B", "fs": fs, "args": args, "stdin": stdin, "wcoll": wcoll, "dir": eng.new_dir()})
            nexh += 1
    ctx.log("running %d cases (%d corpus, %d exhaustive orders)" % (len(cases), ncorpus, nexh))
    ires, mres, verdicts = eng.run(cases)
    bad, samples = 0, []
    counters = {"truncated": 0, "out_of_scope": 0}
    dist = {"engine_A_trees": 0, "engine_B_command_lines": 0, "errors_expected": 0, "with_warning": 0, "long_lines": 0, "include_lines": 0,
            "stdin_used": 0, "wcoll_set": 0, "wcoll_fallback_taken": 0, "several_sources": 0, "no_hosts": 0}
    seen_cases = set()
    for c, io, mo, v in zip(cases, ires, mres, verdicts):
        dist["engine_A_trees" if c["engine"] == "A" else "engine_B_command_lines"] += 1
        dist["long_lines"] += any(len(l) > 2046 for t in case_texts(c) for l in t.split(b"\n"))
        dist["include_lines"] += sum(t.count(b"#include") for t in case_texts(c))
        dist["errors_expected"] += v == "ERR"
        dist["with_warning"] += v not in ("ERR", "SKIP") and v[2] > 0
        if c["engine"] == "B":
            words = [w for a in c["args"] for w in s_split(b"^-" if a == b"-" else a)]
            srcs = [w for w in words if not w.startswith(b"-")]
            dist["stdin_used"] += any(w.lstrip(b"- ") == b"^-" for w in words) or (not srcs and c["wcoll"] == b"-")
            dist["wcoll_set"] += c["wcoll"] is not None
            dist["wcoll_fallback_taken"] += (not srcs) and c["wcoll"] is not None
            dist["several_sources"] += len(srcs) > 1
            dist["no_hosts"] += v not in ("ERR", "SKIP") and not v[1]
        seen_cases.add(json.dumps(to_json(c), sort_keys=True))
        problem = judge(ctx, c, io, mo, v, counters)
        if problem and colon_signature(c) and ctx.is_known(F_COLON):
            # the defect repaired by fixes/C10-include-dir-with-colon.diff, if the coordinator lists it as open
            ctx.known_finding(F_COLON, "an #include is looked up in the wrong directories when the directory of the file named "
                                       "on the command line contains ':' (it is split like a search path)")
            continue
        if problem:
            bad += 1
            rec = short(to_json(c))
            what = "top-level file %r" % c["top"] if c["engine"] == "A" else "pdsh -Q %s, WCOLL=%r, %d bytes on stdin" % (
                " ".join("-w %r" % a.decode("latin-1") for a in c["args"]), c["wcoll"], len(c["stdin"]))
            if problem[0] == "input":
                ctx.violation("input", case=rec, expected=problem[2][:600], observed=io[:600], engine="wcoll" if c["engine"] == "A" else "args",
                              detail=problem[1] + "; " + what)
            else:
                ctx.violation("no-failing-input-found", case=rec, expected=problem[2][:600], observed=io[:600],
                              engine="wcoll" if c["engine"] == "A" else "args",
                              correspondence="read_wcoll / opt_args of the repository = Args.WcollFile.read_wcoll / Args.Assemble.assemble (extracted)",
                              detail=problem[1] + "; " + what)
            if bad >= 6:
                break
        if len(samples) < 3 and v not in ("ERR", "SKIP") and v[2] > 0 and (c["engine"] == "B" or len(c["fs"]) >= 3) and \
                all(len(t) < 200 for t in case_texts(c)) and not any(s["engine"] == c["engine"] for s in samples):
            s = to_json(c)
            s["impl"] = io[:160]
            samples.append(s)
    # a file that is reached again and again (skipped with a warning each time) must not use anything up: eighty repeats under
    # a descriptor limit of 48, then a file that has not been read yet
    if bad < 6:
        rd = os.path.join(ctx.scratch, "repeat10")
        os.makedirs(rd, exist_ok=True)
        open(os.path.join(rd, "A"), "w").write("#include B\n" * 81 + "a1\n#include C\n")
        open(os.path.join(rd, "B"), "w").write("b1\n")
        open(os.path.join(rd, "C"), "w").write("c1\n")
        rc, o, e = eng.real.run(["-Q", "-w", "^A"], cwd=rd, timeout=30, nofile=48)
        got = canon_real(rc, o, e)
        want = "OK W=80 " + hexlist([b"b1", b"a1", b"c1"])
        dist["repeated_include_runs"] = 1
        if got != want:
            bad += 1
            ctx.violation("input", case={"engine": "B", "fs": {"A": "#include B (81 times), a1, #include C", "B": "b1", "C": "c1"}, "args": ["^A"], "descriptor_limit": 48},
                          expected=want, observed=got[:300], engine="args",
                          detail="a file included 81 times (80 repeats skipped) under a descriptor limit of 48, then a fresh include: pdsh -Q -w ^A answers %s" % got[:200])
    shutil.rmtree(eng.base, ignore_errors=True)
    have_input = any(v["kind"] != "no-failing-input-found" for v in ctx.violations)
    vlib.report_proof_break(ctx, have_input)
    cov = vlib.proof_coverage(ctx, {
        "evaluations": len(cases), "distinct_nontrivial": len(seen_cases),
        "rule": "engine A: generated directory trees of 1-5 files in ., d, d/e and directories named with ':' ',' '[ ]' and a blank: host and "
                "range lines, comments and blanks anywhere, #include with extra tokens / indentation / missing name / CR / no blank / names "
                "taken as they are (./, ../, absolute), nested, diamond and cyclic include graphs including cycles through the top-level file, "
                "unreadable includes, include names longer than the path buffer, lines of 2040..9000 bytes (long host lists, a name straddling "
                "byte 2047 after blanks, long comments), a few lines with a NUL byte (correspondence only); read by the real read_wcoll() in a "
                "forked child with a 20 s alarm.  engine B: the real pdsh binary, `pdsh -Q` with 0-5 sources (-w words and ranges, ^file, "
                "'-' and '^-' for standard input, '-word' and '-^file' exclusions, missing files, leading blanks) in every order and grouping "
                "into -w arguments, WCOLL unset / a file / missing / '-', 10 s per case (90 s on a second try).  Both compared with the extracted model and with an "
                "independent Python assembler (S); distinct = distinct case",
        "samples": samples, "input_distribution": dist, "corpus_cases": ncorpus, "exhaustive_order_cases": nexh, "disagreements": bad,
        "q_output_truncated_skipped": counters["truncated"], "seconds_cases": round(time.time() - t0, 1)})
    return ctx.finish(cov, ["the file system is an abstract finite map from path strings to contents; a file is identified by the string "
                            "the code builds for it (two spellings of one file are two files, as in the code's include cache); dirname(3) is modelled",
                            "expansion of a host expression is opaque here (C01); the hosts of S's expressions are obtained from the hostlist code",
                            "filters (-x, -word, /regex/) and rcmd_type:user@ words belong to C02 / C09: the model answers OutOfScope and such "
                            "command lines are not generated, except exclusions that match no host",
                            "no module supplies a target list (mod_read_wcoll): only the exec module is loaded"])


def write_cfg(ctx):
    p = os.path.join(ctx.scratch, "wcfg.c")
    open(p, "w").write('char *pdsh_version = "v"; char *pdsh_module_dir = "/nonexistent";\n')
    return p


def replay(ctx, path):
    rec = json.load(open(path))
    print(json.dumps(rec, indent=1)[:3000])
    case = rec.get("case")
    if not isinstance(case, dict) or "fs" not in case or any("...[" in v for v in case["fs"].values()):
        print("(case abbreviated or not a C10 case: not re-run)")
        return 0
    ctx.gen_params()
    eng = Engines(ctx)
    c = from_json(case)
    c["dir"] = eng.new_dir()
    ires, mres, verdicts = eng.run([c])
    print("implementation:", ires[0][:600])
    print("model:         ", canon_model(c["engine"], mres[0])[:600])
    print("specification: ", str(expected_line(c["engine"], verdicts[0]))[:600])
    p = judge(ctx, c, ires[0], mres[0], verdicts[0], {"truncated": 0, "out_of_scope": 0})
    print("verdict:", "reproduced: " + p[1] if p else "not reproduced")
    return 1 if p else 0
