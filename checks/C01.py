"""C01 - a host expression targets exactly its mathematical expansion."""
import os, json
import vlib, hlgen, hleng
from vlib import hexs, unhexlist, hexlist

PROP = "C01"


def case_of(tree, seps):
    return "targets " + hexs(hlgen.render(tree, seps))


def known_signature(ctx, tree, expr):
    """signatures of recorded findings (KNOWN_FINDINGS.json)"""
    return None


def judge(ctx, tree, expr, impl, model, stats, from_corpus=False):
    """returns None if fine, else a violation record (already registered)"""
    dom, why = hlgen.in_domain(tree) if tree is not None else (False, "raw")
    spec = "OK " + hexlist(hlgen.denote(tree)) if dom else None
    bad = None
    if model.startswith("HANG"):
        # the extracted model did not answer in time (a very large expansion on a loaded machine): no comparison with it; S still judges
        stats["model_timeouts"] = stats.get("model_timeouts", 0) + 1
        if dom and impl != spec:
            return ("input", "implementation differs from the mathematical expansion (S)"), spec
        if impl.startswith("CRASH") or impl.startswith("HANG"):
            return ("input", "implementation faults on a host expression"), spec
        return None, spec
    if dom and impl != spec:
        bad = ("input", "implementation differs from the mathematical expansion (S)")
    elif impl != model:
        if impl.startswith("CRASH") or impl.startswith("HANG"):
            bad = ("input", "implementation faults on a host expression")
        else:
            bad = ("corr", "implementation and model disagree outside the theorem's domain: " + why)
    if dom and model != spec:
        stats["model_vs_spec"] = stats.get("model_vs_spec", 0) + 1
        if not bad:
            bad = ("corr", "model differs from S inside the domain (model or theorem wrong)")
    return bad, spec


def run(ctx):
    ctx.gen_params()
    pr = ctx.prove()
    eng = hleng.HL(ctx)
    quick = ctx.tier == "quick"
    ncases = 3000 if quick else 60000
    r = ctx.rng("trees")
    trees, cases = [], []
    # corpus first
    cdir = os.path.join(vlib.VERIF, "corpus", PROP)
    corpus = []
    if os.path.isdir(cdir):
        for fn in sorted(os.listdir(cdir)):
            if fn.endswith(".json"):
                c = json.load(open(os.path.join(cdir, fn)))
                corpus.append(c)
    for c in corpus:
        trees.append(None if c.get("tree") is None else detuple(c["tree"]))
        cases.append(c["case"])
    ncorpus = len(cases)
    sizes = {}
    while len(cases) < ncases + ncorpus:
        t = hlgen.gen_tree(r, big=not quick)
        if hlgen.tree_weight(t) > (400 if quick else 20000):
            continue
        seps = hlgen.gen_seps(r, len(t))
        trees.append(t)
        cases.append(case_of(t, seps))
        k = "words=%d" % len(t)
        sizes[k] = sizes.get(k, 0) + 1
    # long names: a name of 62..1000 bytes passes through unchanged, alone, numbered and as a range
    LONG = []
    for L in (61, 62, 63, 64, 65, 100, 255, 300, 1000):
        P = b"p" + b"q" * (L - 1)
        LONG.append([("plain", P + b"01"), ("plain", P + b"02"), ("plain", b"z")])
        LONG.append([("br", P, [(b"01", b"02")], ("end",)), ("plain", P)])
        LONG.append([("br", P[:L // 2], [(b"1", b"2")], ("text", P[L // 2:]))])
    for t in LONG:
        trees.append(t)
        cases.append(case_of(t, [b","] * len(t)))
    if not quick:
        # exhaustive sweep of (lo, hi, width) with hi <= 1100, width <= 5 around decimal boundaries, digit-ending prefix
        for lo in list(range(0, 12)) + list(range(95, 103)) + list(range(995, 1003)):
            for span in (0, 1, 2, 9, 10, 11, 90, 100):
                for w in range(len(str(lo)), 6):
                    t = [("br", b"n1", [(hlgen.fmtw(w, lo), hlgen.fmtw(len(str(lo + span)), lo + span))], ("end",)),
                         ("plain", b"n1" + hlgen.fmtw(w, lo + span + 1))]
                    trees.append(t)
                    cases.append(case_of(t, [b","]))
    ctx.log("running %d cases (%d corpus) on implementation and model" % (len(cases), ncorpus))
    impl = eng.run_impl(cases)
    model = eng.run_model(cases)
    stats = {"in_domain": 0, "out_of_domain": 0, "impl_err": 0}
    distinct = set()
    samples = []
    disagreements = 0
    for i, (t, c) in enumerate(zip(trees, cases)):
        dom = t is not None and hlgen.in_domain(t)[0]
        stats["in_domain" if dom else "out_of_domain"] += 1
        if impl[i] == "ERR":
            stats["impl_err"] += 1
        if t is not None and hlgen.tree_weight(t) > 1:
            distinct.add(c)
        bad, spec = judge(ctx, t, c, impl[i], model[i], stats)
        if len(samples) < 3 and t is not None and len(t) > 1:
            samples.append({"expr": vlib.unhex(c.split()[1]).decode("latin-1"), "impl": impl[i][:200], "in_domain": dom})
        if bad:
            disagreements += 1
            kind, what = bad
            expr = vlib.unhex(c.split()[1]).decode("latin-1")
            if kind == "input":
                ctx.violation("input", case=c, expected=spec or model[i], observed=impl[i], engine="hl",
                              detail="%s; expression %r" % (what, expr))
            else:
                # correspondence broken on this case but the property is not shown to fail on it: search neighbours
                found = search(ctx, eng, t) if t is not None else None
                if not found:
                    ctx.violation("no-failing-input-found", case=c, expected=model[i], observed=impl[i], engine="hl",
                                  correspondence="hl: targets(impl) = targets(model)", detail="%s; expression %r" % (what, expr))
            if disagreements >= 8:
                break
    # ---- end to end: the hosts the real binary contacts for `-w EXPR` (opt.c's own second-bracket pass included) ----
    import realeng
    real = realeng.Real(ctx, tag="real01", null_exec=True,
                        extra_mods=[(os.path.join(vlib.VERIF, "harness", "c02_listrcmd.c"), "c02list")])
    logf = os.path.join(ctx.scratch, "contact01.log")
    e2e = []
    rr = ctx.rng("e2e")
    for _ in range(120 if quick else 2500):
        t = hlgen.gen_tree(rr)
        if hlgen.in_domain(t) and hlgen.tree_weight(t) <= 400:
            e2e.append(t)
    # one prefix whose ranges do not compress: several hundred separate numbers (the bracketed form of the prefix
    # exceeds any small fixed buffer), alone and next to other hosts
    for (step, cnt, pfx) in ((2, 300, b"sc"), (3, 700, b"q"), (2, 260, b"n0")):
        rs = [(b"%d" % (100 + step * k), None) for k in range(cnt)]
        e2e.append([("br", pfx, rs, ("end",)), ("plain", b"zlast")])
    e2e += [t for t in LONG if max(len(n) for n in hlgen.denote(t)) <= 300]
    ne2e = 0
    wfile = os.path.join(ctx.scratch, "wcoll01")
    for t in e2e:
        expr = hlgen.render(t, hlgen.gen_seps(rr, len(t)))
        want = hlgen.denote(t)
        try:
            os.unlink(logf)
        except OSError:
            pass
        # the same words reach the list through -w, through a file named by -w ^file, or through the WCOLL variable
        how = rr.choice(["-w", "-w", "^file", "WCOLL"])
        env = {"C02_CONTACT_LOG": logf}
        if how == "-w":
            argv = ["-w", expr]
        else:
            with open(wfile, "wb") as fh:
                # lines may be indented by blanks and tabs (they are stripped), the words themselves are unchanged
                body = b"".join(rr.choice([b"", b"", b" ", b"  ", b"\t \t", b"     "]) + hlgen.render([w], []) + rr.choice([b"", b"", b" ", b"  \t"]) + b"\n" for w in t)
                fh.write(body[:-1] if rr.chance(1, 2) else body)       # the last line with and without its newline
            argv = ["-w", "^" + wfile] if how == "^file" else []
            if how == "WCOLL":
                env["WCOLL"] = wfile
            expr = b"(" + how.encode() + b") " + b" / ".join(hlgen.render([w], []) for w in t)
        rc, o, e = real.run(["-R", "c02list", "-f", "1"] + argv + ["true"], env=env, timeout=60, stdin=b"")
        ne2e += 1
        try:
            got = [l.split(b" ", 1)[1] for l in open(logf, "rb").read().split(b"\n") if b" " in l]
        except OSError:
            got = []
        if got != want:
            k = next((i for i, (a, b) in enumerate(zip(got, want)) if a != b), min(len(got), len(want)))
            ctx.violation("input", case={"args": [how, expr.decode("latin-1")[:3000]]}, expected="%d hosts, the expansion" % len(want),
                          observed="%d hosts contacted; first difference at position %d: %r vs %r" % (len(got), k, got[k:k + 2], want[k:k + 2]), engine="args",
                          detail="the hosts pdsh contacts for -w %r differ from the mathematical expansion" % expr[:160])
            break
    stats["end_to_end_binary_runs"] = ne2e
    have_input = any(v["kind"] != "no-failing-input-found" for v in ctx.violations)
    vlib.report_proof_break(ctx, have_input)
    cov = vlib.proof_coverage(ctx, {
        "evaluations": len(cases), "distinct_nontrivial": len(distinct),
        "rule": "syntax trees (1-6 words, 0-2 bracket pairs, 1-5 ranges, widths 1..20, bounds at 9/10, 99/100, 2^25, adjacent/overlapping/repeated ranges) rendered with random separators; non-trivial = expands to more than one host; distinct = distinct rendered expression",
        "samples": samples, "input_distribution": dict(stats, **sizes), "corpus_cases": ncorpus,
        "correspondence": "impl (hostlist.c + wcoll_expand call sequence, ASan/UBSan) vs extracted Coq model vs Python S (denote)",
        "disagreements": disagreements})
    return ctx.finish(cov, ASSUME)


ASSUME = ["libc snprintf/strtoul/isdigit modelled (Base/Decimal.v, HLDefs.strtoul)",
          "opt.c's second-bracket pass replicated in the harness by the same public calls (hostlist_shift + hostlist_push)",
          "theorem domain D01: numbers < 10^15, plain words < 1023 bytes, expanded names < 4095 bytes, at most two bracket pairs"]


def search(ctx, eng, tree):
    """look for an input near `tree` on which the property itself (S) fails on the implementation"""
    cands = [t for t in hlgen.mutate_tree(tree) if hlgen.in_domain(t)[0] and hlgen.tree_weight(t) < 2000][:300]
    if not cands:
        return None
    cases = [case_of(t, hlgen.gen_seps(ctx.rng("s"), len(t))) for t in cands]
    impl = eng.run_impl(cases)
    for t, c, o in zip(cands, cases, impl):
        spec = "OK " + hexlist(hlgen.denote(t))
        if o != spec:
            ctx.violation("input", case=c, expected=spec, observed=o, engine="hl",
                          detail="found by neighbourhood search: %r" % vlib.unhex(c.split()[1]))
            return c
    return None


def detuple(t):
    def conv(x):
        if isinstance(x, list):
            return tuple(conv(y) for y in x) if (x and isinstance(x[0], str) and x[0] in ("plain", "br", "end", "text", "br2")) else [conv(y) for y in x]
        if isinstance(x, str):
            return x if x in ("plain", "br", "end", "text", "br2") else x.encode("latin-1")
        return x
    return [conv(w) for w in t]


def replay(ctx, path):
    rec = json.load(open(path))
    ctx.gen_params()
    eng = hleng.HL(ctx)
    c = rec["case"]
    impl = eng.run_impl([c])[0]
    model = eng.run_model([c])[0]
    print("case     :", c)
    print("expr     :", repr(vlib.unhex(c.split()[1])))
    print("expected :", rec.get("expected"))
    print("impl now :", impl)
    print("model now:", model)
    return 0 if impl == rec.get("expected") else 1
