"""C08 - exit status faithfully summarises the run."""
import os, json, itertools
import vlib, outeng, schedeng, realeng
from vlib import hexs, unhex

PROP = "C08"
CODES = [0, 1, 2, 9, 10, 99, 100, 127, 128, 137, 200, 254, 255]
MARK = b"XXRETCODE:"


def run(ctx):
    ctx.gen_params()
    ctx.prove()
    quick = ctx.tier == "quick"
    r = ctx.rng("outcomes")
    nviol = [0]
    stats = {"marker_lines": 0, "sched_runs": 0, "exec_runs": 0}
    samples = []

    def viol(kind, case, expected, observed, detail, corr=None):
        nviol[0] += 1
        if nviol[0] <= 6:
            ctx.violation(kind, case=case, expected=expected, observed=observed, engine="out/sched/exec", detail=detail, correspondence=corr)

    # ---- A. in-band status: _extract_rc on marker lines, alone and through the whole output path ----
    out = outeng.Out(ctx)
    cases, meta = [], []
    for fn in corpus_files("A"):
        c = json.load(open(fn)); cases.append(c["case"]); meta.append((c["code"], c["kind"]))
    for _ in range(300 if quick else 5000):
        code = r.choice(CODES + [r.range(0, 255)])
        text = r.choice([b"", b"foo", b"some output", b"x", b"a b c", b"X", b"XX", b"12", b"rc=3 ", b"%s: "])
        nl = r.choice([b"\n", b"\n", b""])
        line = text + MARK + b"%d" % code + nl
        cases.append("rc " + hexs(line)); meta.append((code, "line"))
        # the same as a stream: remote output without final newline followed by pdsh's echo
        pre = r.choice([b"", b"l1\n", b"l1\nl2\n"])
        s = pre + text + MARK + b"%d\n" % code
        cases.append("out o 1 %s %s" % (hexs(b"n1"), outeng.gen_chunking(r, s))); meta.append((code, "stream"))
    # the status line after unterminated output as long as the 128 KiB buffer (and longer): the head of such a line may be lost,
    # the status must not (judged by S only: lines over 128 KiB are outside the output model's domain)
    for N in ((131050, 131061, 131066, 131071, 131072, 131073, 262139) if quick else list(range(131040, 131080)) + [262130, 262139, 262144, 400000]):
        code = 3 + N % 5
        sdata = bytes(97 + (k % 26) for k in range(N)) + MARK + b"%d\n" % code
        items = ["A" + hexs(sdata[k:k + 4000]) for k in range(0, len(sdata), 4000)] + ["E"]
        cases.append("out o 1 %s %s" % (hexs(b"n1"), "/".join(items))); meta.append((code, "longtail"))
    impl = out.run_impl(cases)
    short = [k for k, mt in enumerate(meta) if mt[1] != "longtail"]
    msub = out.run_model([cases[k] for k in short])
    model = [None] * len(cases)
    for k, mline in zip(short, msub):
        model[k] = mline
    for c, (code, kind), i, m in zip(cases, meta, impl, model):
        stats["marker_lines"] += 1
        if i.startswith(("CRASH", "HANG")):
            viol("input", c[:2000], m, i, "implementation fault on a marker line")
            continue
        got = int(i.split(" ")[0][3:])
        if got != code:
            viol("input", c[:2000], "rc=%d" % code, i[:200], "the remote command returned %d (marker line) but pdsh recorded %d; input %r" % (code, got, unhex(c.split(" ")[1])[:80] if kind == "line" else c[:120]))
        elif m is not None and i != m:
            viol("no-failing-input-found", c, m[:300], i[:300], "implementation and model disagree on a marker line", corr="out: rc and calls")
    # ---- B. aggregation over outcome vectors, whole program under the scheduler, all orders for small vectors ----
    eng = schedeng.Sched(ctx)
    vectors = []
    for fn in corpus_files("B"):
        vectors.append([tuple(x) for x in json.load(open(fn))["vector"]])
    base = [("ok", c) for c in (0, 1, 7, 127, 254, 255)] + [("refuse", 0), ("refuse", 1), ("refuse", 3), ("drc", 3), ("drc", 255), ("ok", 0),
                                                             ("timeout", 0), ("timeout", 143), ("hangconn", 0)]
    for _ in range(40 if quick else 600):
        k = r.range(1, 4)
        v = [r.choice(base) for _ in range(k)]
        for perm in set(itertools.permutations(v)):
            vectors.append(list(perm))
    mlines, mobs = [], []         # the same vectors through the extracted Dsh/Exit.v (run_exit), compared with the observed status
    for v in vectors:
        for S in (True, False):
            hosts, exp = [], 0
            for j, (kind, code) in enumerate(v):
                if kind == "ok":
                    # M<code>: the remote shell prints the status line iff the command it received carries pdsh's suffix
                    hosts.append(("h%d" % j, "o", "A" + (b"out%d\n" % j).hex() + "/M%d" % code, "-", 0))
                    exp = max(exp, code)
                elif kind == "refuse":      # could not be reached; the transport's teardown may report a code of its own
                    hosts.append(("h%d" % j, "r", "-", "-", code))
                    exp = max(exp, 254, code)
                elif kind == "timeout":     # hangs mid-command, abandoned by the command timeout
                    hosts.append(("h%d" % j, "o", "A" + b"partial\n".hex() + "/H", "-", code))
                    exp = max(exp, 254, code)
                elif kind == "hangconn":    # hangs in connect, abandoned by the connect timeout
                    hosts.append(("h%d" % j, "h", "-", "-", code))
                    exp = max(exp, 254, code)
                else:
                    hosts.append(("h%d" % j, "o", "A" + b"x\n".hex() + "/M0", "-", code))
                    exp = max(exp, code)
            if not S:
                exp = 0
            mvec = " ".join("%d:%d:%d" % (1 if kind in ("refuse", "timeout", "hangconn") else 0, code if kind == "ok" else 0, 0 if kind == "ok" else code) for kind, code in v)
            mlines.append("exit %d 0 %s" % (1 if S else 0, mvec)); mobs.append(None)
            ru = eng.run(["-R", "sim"] + (["-S"] if S else []) + ["-t", "1", "-u", "1", "-f", str(r.range(1, len(v))), "-w", "h[0-%d]" % (len(v) - 1), "cmd"], hosts,
                         seed=r.next() % (1 << 31), ptick=0, env={"SCHED_MAXSTEP": "30000"}, timeout=10)
            stats["sched_runs"] += 1
            if ru.exit is None or ru.deadlock:
                viol("schedule", {"vector": v, "S": S, "schedule": ru.choices}, "exit %d" % exp, ru.summary(), "pdsh did not exit normally: " + ru.errtxt[-200:])
            elif ru.exit != exp:
                viol("input", {"vector": v, "S": S}, "exit %d" % exp, "exit %d" % ru.exit,
                     "outcomes %r %s -S: exit status %d, the property says %d" % (v, "with" if S else "without", ru.exit, exp))
            else:
                mobs[-1] = ru.exit
            if len(samples) < 2 and S and len(v) == 3:
                samples.append({"outcomes": v, "exit": ru.exit})
    # ---- B2. -k (fail-fast): any failure makes the exit status non-zero; no failure, exit 0 ----
    kbase = [("ok", 0), ("ok", 0), ("ok", 1), ("ok", 127), ("drc", 2), ("drc", 137), ("refuse", 0), ("refuse", 1), ("timeout", 0), ("hangconn", 0)]
    for _ in range(60 if quick else 1500):
        k = r.range(1, 4)
        v = [r.choice(kbase) for _ in range(k)]
        hosts, anyfail = [], False
        for j, (kind, code) in enumerate(v):
            if kind == "ok":
                hosts.append(("h%d" % j, "o", "A" + (b"out%d\n" % j).hex() + "/M%d" % code, "-", 0))
                anyfail |= code != 0
            elif kind == "drc":          # status reported only out of band (transport teardown)
                hosts.append(("h%d" % j, "o", "A" + b"x\n".hex() + "/M0", "-", code)); anyfail = True
            elif kind == "refuse":
                hosts.append(("h%d" % j, "r", "-", "-", code)); anyfail = True
            elif kind == "timeout":
                hosts.append(("h%d" % j, "o", "A" + b"partial\n".hex() + "/H", "-", code)); anyfail = True
            else:
                hosts.append(("h%d" % j, "h", "-", "-", code)); anyfail = True
        mvec = " ".join("%d:%d:%d" % (1 if kind in ("refuse", "timeout", "hangconn") else 0, code if kind == "ok" else 0, 0 if kind == "ok" else code) for kind, code in v)
        mlines.append("exit 0 1 %s" % mvec); mobs.append(None)
        ru = eng.run(["-R", "sim", "-k", "-t", "1", "-u", "1", "-f", str(r.range(1, len(v))), "-w", "h[0-%d]" % (len(v) - 1), "cmd"], hosts,
                     seed=r.next() % (1 << 31), ptick=0, env={"SCHED_MAXSTEP": "30000"}, timeout=10)
        stats["sched_runs"] += 1
        if ru.exit is None or ru.deadlock:
            viol("schedule", {"vector": v, "k": True, "schedule": ru.choices}, "exit", ru.summary(), "pdsh -k did not exit: " + ru.errtxt[-200:])
        elif anyfail and ru.exit == 0:
            viol("input", {"vector": v, "k": True}, "non-zero exit", "exit 0", "outcomes %r with -k: a command failed but the exit status is 0" % (v,))
        elif not anyfail and ru.exit != 0:
            viol("input", {"vector": v, "k": True}, "exit 0", "exit %d" % ru.exit, "outcomes %r with -k: nothing failed but the exit status is %d" % (v, ru.exit))
        else:
            mobs[-1] = ru.exit
    # correspondence: the observed statuses = Dsh/Exit.v run_exit on the same vectors
    mres = ctx.run_lines([ctx.build_runner("dsh", "dsh_model")], mlines, crash_tag="MODEL-CRASH")
    for ml, ob, mr in zip(mlines, mobs, mres):
        if ob is not None and mr != "exit=%d" % ob:
            viol("no-failing-input-found", ml, mr, "exit=%d" % ob, "observed exit status and Dsh/Exit.v (run_exit) disagree on %s" % ml,
                 corr="sched: exit status of the whole program = Exit.run_exit on the outcome vector")
    stats["exit_model_comparisons"] = sum(1 for ob in mobs if ob is not None)
    # ---- C. out-of-band status through the exec transport: real children ----
    real = realeng.Real(ctx)
    execs = [("exit 0", 0), ("exit 1", 1), ("exit 42", 42), ("exit 255", 255), ("kill -9 $$", None), ("kill -TERM $$", None), ("kill -SEGV $$", None),
             ("printf foo; exit 3", 3)]
    # -k with a status that arrives only out of band (child wait status)
    for cmd, want_fail in (("exit 0", False), ("exit 3", True), ("kill -9 $$", True)):
        rc, o, e = real.run(["-R", "exec", "-k", "-w", "h[1-2]", "sh", "-c", cmd])
        stats["exec_runs"] += 1
        if want_fail != (rc != 0):
            viol("input", {"exec": cmd, "k": True}, "non-zero" if want_fail else "0", "exit %d" % rc,
                 "pdsh -R exec -k sh -c %r exited %d (stderr %r)" % (cmd, rc, e[-120:]))
    for cmd, code in execs:
        for S in (True, False):
            rc, o, e = real.run(["-R", "exec"] + (["-S"] if S else []) + ["-w", "h[1-2]", "sh", "-c", cmd])
            stats["exec_runs"] += 1
            ok = (rc == 0) if not S else (rc == code if code is not None else rc != 0)
            if not ok:
                viol("input", {"exec": cmd, "S": S}, "0 without -S; %s with -S" % (code if code is not None else "non-zero"), "exit %d" % rc,
                     "pdsh -R exec %s sh -c %r exited %d (stderr %r)" % ("-S" if S else "", cmd, rc, e[-120:]))
    # a target written user@host (no transport named) is a target like any other: its command's status counts
    for flags, want in ((["-S"], 3), (["-k"], None), ([], 0)):
        rc, o, e = real.run(["-R", "exec"] + flags + ["-w", "h1,root@h2", "sh", "-c", "case %h in h2) exit 3;; esac"])
        stats["exec_runs"] += 1
        if not (rc == want if want is not None else rc not in (0, -999)):
            viol("input", {"exec": "case %h in h2) exit 3;; esac", "flags": flags, "targets": "h1,root@h2"}, "%s" % (want if want is not None else "non-zero"), "exit %d" % rc,
                 "pdsh -R exec %s -w h1,root@h2: the command on h2 exits 3, pdsh exited %d (stderr %r)" % (" ".join(flags), rc, e[-160:]))
    # the same when pdsh is started by a parent that ignores SIGCHLD (the disposition is inherited across exec)
    import signal as _signal, subprocess as _sp
    for cmd, code in (("exit 3", 3), ("kill -9 $$", None), ("exit 0", 0)):
        try:
            p = _sp.run([os.path.join(real.dir, "bin", "pdsh"), "-S", "-R", "exec", "-w", "h[1-2]", "sh", "-c", cmd], env={"PATH": "/usr/bin:/bin", "HOME": "/root", "LANG": "C"},
                        stdout=_sp.PIPE, stderr=_sp.PIPE, timeout=30, preexec_fn=lambda: _signal.signal(_signal.SIGCHLD, _signal.SIG_IGN))
            rc, e = p.returncode, p.stderr
        except _sp.TimeoutExpired:
            rc, e = -999, b""
        stats["exec_runs"] += 1
        if not (rc == code if code is not None else rc not in (0, -999)):
            viol("input", {"exec": cmd, "S": True, "SIGCHLD": "ignored when pdsh starts"}, "%s" % (code if code is not None else "non-zero"), "exit %d" % rc,
                 "pdsh -S -R exec sh -c %r, started with SIGCHLD ignored, exited %d (stderr %r)" % (cmd, rc, e[-160:]))
    # a command that closes its three streams early, outlives the command timeout and one watchdog period, then fails: its
    # status still counts (the time-out applies to a command that is still being read, not to one that is being reaped)
    for cmd, code in (("exec 0<&- 1>&- 2>&-; sleep 4; exit 3", 3),) + (() if quick else (("exec 0<&- 1>&- 2>&-; sleep 5; kill -9 $$", None),)):
        rc, o, e = real.run(["-R", "exec", "-S", "-u", "1", "-w", "h1", "sh", "-c", cmd], timeout=40)
        stats["exec_runs"] += 1
        if not (rc == code if code is not None else rc not in (0, -999)):
            viol("input", {"exec": cmd, "S": True, "command_timeout": 1}, "%s" % (code if code is not None else "non-zero"), "exit %d" % rc,
                 "pdsh -R exec -S -u 1 sh -c %r exited %d (stderr %r)" % (cmd, rc, e[-160:]))
    # the command of one target cannot be started (fork fails): that host could not be reached, the run goes on
    shim = os.path.join(ctx.scratch, "forkfail.so")
    brc, bout = vlib.sh(["gcc", "-shared", "-fPIC", "-O1", os.path.join(vlib.VERIF, "harness", "forkfail.c"), "-ldl", "-o", shim])
    if brc == 0:
        for nth in (1, 2, 3):
            for flags, want in (([], "0"), (["-S"], "254"), (["-k"], "nonzero")):
                rc, o, e = real.run(["-R", "exec", "-f", "1"] + flags + ["-w", "h[1-3]", "sh", "-c", "exit 0"], env={"LD_PRELOAD": shim, "FORKFAIL_N": str(nth)}, timeout=30)
                stats["exec_runs"] += 1
                ok = (rc == 0) if want == "0" else (rc == 254) if want == "254" else (rc not in (0, -999))
                if not ok:
                    viol("input", {"exec": "exit 0", "flags": flags, "fork_failing": nth}, want, "exit %d" % rc,
                         "pdsh -R exec %s on three hosts where fork() number %d fails exited %d (stderr %r)" % (" ".join(flags), nth, rc, e[-160:]))
    else:
        ctx.notes.append("fork-failure part skipped: shim did not build")
    # the rsh protocol's one-byte status: a daemon that takes the request and goes away without it could not be reached;
    # in-band status over a real socket transport, with -S and with -k alone
    try:
        import C07
        real.build_module(os.path.join(vlib.REPO, "src/modules/xrcmd.c"), "xrcmd")
        socks = C07._rsh_server([("127.7.8.1", "shell0"), ("127.7.8.2", "nostatus"), ("127.7.8.3", "shell3")])
    except OSError as ex:
        socks = None
        ctx.notes.append("rsh loopback part skipped: %s" % ex)
    if socks is not None:
        try:
            for hosts, flags, want in (("127.7.8.[1-2]", ["-S"], "254"), ("127.7.8.[1-2]", ["-k"], "nonzero"), ("127.7.8.1", ["-S"], "0"), ("127.7.8.1", ["-k"], "0"),
                                       ("127.7.8.[1,3]", ["-S"], "3"), ("127.7.8.[1,3]", ["-k"], "nonzero"), ("127.7.8.[1,3]", [], "0"),
                                       ("127.7.8.[1-3]", ["-S"], "254")):
                rc, o, e = real.run(["-R", "rsh", "-t", "3"] + flags + ["-w", hosts, "true"], timeout=30)
                stats["exec_runs"] += 1
                ok = (rc not in (0, -999)) if want == "nonzero" else rc == int(want)
                if not ok:
                    viol("input", {"rsh": hosts, "flags": flags}, want, "exit %d" % rc,
                         "pdsh -R rsh %s -w %s (127.7.8.1: exit 0; .2: no status byte; .3: exit 3, in-band) exited %d (stderr %r)" % (" ".join(flags), hosts, rc, e[-200:]))
        finally:
            for l in socks:
                try:
                    l.close()
                except OSError:
                    pass
    # refused arguments -> 1
    # (the last two are refused by a module's own argument check - the exec transport has no connect time-out -, not by opt.c)
    for args in (["-w", "h1", "-R", "nosuchmodule", "true"], ["-w", "h[1-", "true"], ["-R", "exec", "-t", "5", "-w", "h1", "true"],
                 ["-R", "exec", "-t", "5", "-S", "-w", "h[1-2]", "sh", "-c", "exit 0"]):
        rc, o, e = real.run(args)
        stats["exec_runs"] += 1
        if rc != 1:
            viol("input", {"args": args}, "exit 1", "exit %d" % rc, "refused arguments must exit 1: %r" % e[-120:])
    have_input = any(v["kind"] != "no-failing-input-found" for v in ctx.violations)
    vlib.report_proof_break(ctx, have_input)
    total = sum(stats.values())
    cov = vlib.proof_coverage(ctx, {
        "evaluations": total, "distinct_nontrivial": len(set(cases)) + len(vectors),
        "rule": "A: marker lines (code at column 0 / after unterminated text / split across read chunks) through the real _extract_rc and the whole output path; B: per-host outcome vectors (in-band codes 0..255, connect failure, out-of-band destroy status) in every order, whole program under the controlled scheduler with and without -S; C: real children through the exec transport (exit N, death by signal); distinct = distinct line / vector",
        "samples": samples, "input_distribution": stats, "disagreements": nviol[0]})
    return ctx.finish(cov, ["in-band status exists only if the remote shell survives to print the marker (protocol limitation)",
                            "atoi modelled exactly for codes that fit an int"])


def corpus_files(part):
    d = os.path.join(vlib.VERIF, "corpus", PROP)
    if not os.path.isdir(d):
        return []
    return [os.path.join(d, f) for f in sorted(os.listdir(d)) if f.startswith(part) and f.endswith(".json")]


def replay(ctx, path):
    rec = json.load(open(path))
    print(json.dumps(rec, indent=1)[:2000])
    return 0
