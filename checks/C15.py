"""C15 - any text given as a host expression is handled safely and within limits."""
import os, json
import vlib, hlgen, hleng
from vlib import hexs

PROP = "C15"
ALPHA = [b"[", b"]", b",", b"-", b" ", b"\t", b"+", b"a", b"b", b"n", b"0", b"1", b"2", b"5", b"9", b"x", b".", b"\xe9", b"\x01", b"^", b"/", b":", b"@", b"%"]
BIGNUMS = [b"16383", b"16384", b"16385", b"4294967295", b"4294967296", b"9223372036854775807", b"9223372036854775808",
           b"18446744073709551614", b"18446744073709551615", b"18446744073709551616", b"99999999999999999999",
           b"100000000000000000000", b"340282366920938463463374607431768211456", b"33554431", b"33554432", b"33554433"]


def gen_labelled(r):
    """inputs whose outcome the property states outright: (bytes, expected prefix or None, label)"""
    pfx = hlgen.gen_text(r, ("alpha", "alnum", "empty"))
    k = r.weighted([("unbal_open", 3), ("unbal_close", 3), ("reversed", 3), ("nonnum", 3), ("toomany", 5), ("toomany_huge", 4),
                    ("limit_ok", 3), ("both_sat", 2), ("neg", 1), ("empty_range", 2), ("bigsuffix", 3), ("exact_big", 3)])
    tail = hlgen.gen_text(r, ("empty", "alpha", "dash")) if r.chance(1, 2) else b""
    if k == "exact_big":
        # a short range of large numbers (around 2^25, 2^31, 2^32, 2^63): exactly those hosts, nothing cut to a narrower word
        lo = r.choice([2 ** 25, 2 ** 31, 2 ** 32, 2 ** 63, 2 ** 64 - 8]) - r.range(0, 3)
        n = r.range(2, 5)
        p2 = pfx if pfx else b"h"
        names = [p2 + b"%d" % (lo + j) for j in range(n)]
        return p2 + b"[%d-%d]" % (lo, lo + n - 1), "N=%d OK %s" % (n, ",".join(hexs(x) for x in names)), k
    if k == "bigsuffix":
        # plain names (no brackets) ending in numbers around 2^25, 2^32, 2^63, 2^64: each word is one host whatever its number;
        # neighbours (n, n+1) and repeats must neither merge into a range that wraps nor expand
        p2 = pfx if pfx and not pfx[-1:].isdigit() else pfx + b"h"
        v = int(r.choice(BIGNUMS))
        vals = r.choice([[v], [v - 1, v], [v, v + 1], [v - 1, v, v + 1], [v, v], [v, 0], [0, v]])
        return b",".join(p2 + b"%d" % max(x, 0) for x in vals), "N=%d " % len(vals), k
    if k == "unbal_open":
        return pfx + b"[" + hlgen.render_ranges(hlgen.gen_ranges(r)) + tail, "ERR EINVAL", k
    if k == "unbal_close":
        return pfx + hlgen.render_ranges(hlgen.gen_ranges(r)) + b"]" + tail, "ERR EINVAL", k
    if k == "reversed":
        lo = r.range(1, 100000)
        hi = r.range(0, lo - 1)
        return pfx + b"[%d-%d]" % (lo, hi) + tail, "ERR EINVAL", k
    if k == "nonnum":
        bad = r.choice([b"a", b"1-b", b"x-2", b"", b"-", b"1--2", b"-3", b"1-2-3x", b"1.5", b"0x10-0x20", b"1-2x"])
        return pfx + b"[" + bad + b"]" + tail, "ERR EINVAL", k
    if k == "toomany":
        lo = r.choice([0, 1, 7, 100, 99999])
        hi = lo + r.choice([16384, 16385, 20000, 100000, 10 ** 9])
        return pfx + b"[%d-%d]" % (lo, hi) + tail, "ERR ERANGE", k
    if k == "toomany_huge":
        lo = r.choice([b"0", b"1", b"5", b"1000", b"18446744073709500000"])
        hi = r.choice(BIGNUMS[4:13])
        if int(hi) - int(lo) < 16384:
            hi = b"99999999999999999999999"
        return pfx + b"[" + lo + b"-" + hi + b"]" + tail, "ERR ERANGE", k
    if k == "both_sat":
        # both bounds beyond 2^64: a range larger than the limit however large the numbers typed
        lo = 10 ** r.range(20, 30)
        hi = lo + r.choice([16384, 10 ** 6, 10 ** 19])
        return pfx + b"[%d-%d]" % (lo, hi) + tail, "ERR", k
    if k == "limit_ok":
        lo = r.choice([0, 1, 5, 1000])
        return pfx + b"[%d-%d]" % (lo, lo + 16383), "N=16384", k
    if k == "neg":
        return pfx + b"[1- -5]" + tail, "ERR", k
    return pfx + b"[]" + tail, "ERR EINVAL", k


def gen_random(r):
    n = r.weighted([(r.range(1, 12), 6), (r.range(13, 60), 3), (r.range(61, 300), 1)])
    out = b""
    for _ in range(n):
        c = r.weighted([("alpha", 10), ("big", 1), ("range", 2)])
        if c == "alpha":
            out += r.choice(ALPHA)
        elif c == "big":
            out += r.choice(BIGNUMS)
        else:
            out += b"[" + hlgen.render_ranges(hlgen.gen_ranges(r, maxn=3)) + b"]"
    return out


def gen_long(r):
    """words around the 1023-byte token copy and the 4095-byte name buffer"""
    L = r.choice([1021, 1022, 1023, 1024, 1025, 2047, 4093, 4094, 4095, 4096, 4097, 5000])
    body = bytes(r.choice(b"abcdefgh0123") for _ in range(L))
    k = r.below(4)
    if k == 0:
        return body
    if k == 1:
        return b"x," + body + b",y" + bytes(r.choice(b"123") for _ in range(3))
    if k == 2:
        return body[:L - 6] + b"[1-2]" + b"z"
    return b"p[1-2]" + body


def est_hosts(body):
    """how many hosts a word stands for, roughly: the product over its bracket groups of the sizes of their ranges (numbers read
    as strtoul does: leading digits)"""
    import re

    def lead(b):
        m = re.match(rb"\s*(\d+)", b)
        return int(m.group(1)) if m else None
    total = 1
    for m in re.finditer(rb"\[([^\]]*)\]", body):
        k = 0
        for item in m.group(1).split(b","):
            lo_t, _, hi_t = item.partition(b"-")
            lo = lead(lo_t)
            hi = lead(hi_t) if hi_t else lo
            k += min(hi - lo + 1, 16384) if lo is not None and hi is not None and hi >= lo else 1
        total *= max(k, 1)
    return total


def run(ctx):
    ctx.gen_params()
    ctx.prove()
    eng = hleng.HL(ctx)
    quick = ctx.tier == "quick"
    r = ctx.rng("strings")
    cases, meta = [], []
    cdir = os.path.join(vlib.VERIF, "corpus", PROP)
    if os.path.isdir(cdir):
        for fn in sorted(os.listdir(cdir)):
            if fn.endswith(".json") and not fn.startswith("word_"):
                c = json.load(open(os.path.join(cdir, fn)))
                cases.append(c["case"]); meta.append((c.get("expect"), "corpus:" + fn))
    ncorpus = len(cases)
    nlab, nrand, nlong = (1500, 2500, 120) if quick else (30000, 60000, 2000)
    for _ in range(nlab):
        s, exp, lab = gen_labelled(r)
        cases.append("parse " + hexs(s)); meta.append((exp, lab))
    for k in range(ncorpus, len(cases)):
        if meta[k][1] == "bigsuffix" and k % 3 == 0:
            # the same words through pdsh's second pass over the target list (shift, re-create, push)
            cases.append("targets " + cases[k].split(" ")[1]); meta.append((None, "bigsuffix-targets"))
    for _ in range(nrand):
        cases.append("parse " + hexs(gen_random(r))); meta.append((None, "random"))
    for _ in range(nlong):
        cases.append("parse " + hexs(gen_long(r))); meta.append((None, "long"))
    ctx.log("running %d cases" % len(cases))
    impl = eng.run_impl(cases)
    model = eng.run_model(cases)
    dist, kinds = {}, {}
    bad = 0
    samples = []
    for c, (exp, lab), i, m in zip(cases, meta, impl, model):
        dist[lab] = dist.get(lab, 0) + 1
        kind = i.split(" ")[0] + (" " + i.split(" ")[1] if i.startswith("ERR") else "")
        kinds[kind] = kinds.get(kind, 0) + 1
        s = vlib.unhex(c.split()[1])
        problem = None
        if i.startswith("CRASH") or i.startswith("HANG"):
            problem = ("input", "parser crashed / hung / touched memory out of bounds: " + i)
        elif exp is not None and not i.startswith(exp):
            problem = ("input", "expected %s for a %s input" % (exp, lab))
        elif lab == "bigsuffix-targets":
            if not i.startswith("OK") or vlib.unhexlist(i.split(" ")[1]) != s.split(b","):
                problem = ("input", "plain names with large numbers are not the hosts that come out of the target list")
        elif i.startswith("N="):
            n = int(i.split(" ")[0][2:])
            names = vlib.unhexlist(i.split(" ")[2])
            # documented limit: no single range expands to more than 16384 hosts -> total bounded by pieces
            pieces = s.count(b",") + s.count(b" ") + s.count(b"\t") + 1
            if n != len(names) or n > 16384 * pieces:
                problem = ("input", "count %d vs %d names, bound %d" % (n, len(names), 16384 * pieces))
        if problem is None and i != m:
            problem = ("corr", "implementation and model disagree")
        if problem:
            bad += 1
            if problem[0] == "input":
                ctx.violation("input", case=c, expected=exp or m, observed=i[:300], engine="hl", detail="%s; input %r" % (problem[1], s[:200]))
            else:
                ctx.violation("no-failing-input-found", case=c, expected=m[:300], observed=i[:300], engine="hl",
                              correspondence="hl: parse(impl) = parse(model)", detail="%s; input %r" % (problem[1], s[:200]))
            if bad >= 8:
                break
        if len(samples) < 4 and lab in ("toomany_huge", "random", "long", "nonnum") and lab not in [x["kind"] for x in samples]:
            samples.append({"kind": lab, "input": s[:80].decode("latin-1"), "impl": i[:80]})
    # ---- the documented limit on the number of ranges between one pair of brackets (10240): one less and exactly that many are
    #      accepted with every host, one more is refused; implementation only (S states the outcome; the model is slow here)
    MAXR = 10240
    lim = []
    for k in (MAXR - 1, MAXR, MAXR + 1):
        lim.append((k, b"n[" + b",".join(b"%d" % (2 * i + 1) for i in range(k)) + b"]"))
    lo = eng.run_impl(["parse " + hexs(e) for _, e in lim])
    for (k, e), o in zip(lim, lo):
        dist["ranges_limit"] = dist.get("ranges_limit", 0) + 1
        okay = o.startswith("N=%d " % k) if k <= MAXR else o.startswith("ERR")
        if not okay:
            bad += 1
            ctx.violation("input", case="parse " + hexs(e)[:2000], expected=("N=%d and every host" % k) if k <= MAXR else "ERR (more than the documented 10240 ranges in one bracket)",
                          observed=o[:200], engine="hl", detail="a bracket with %d single ranges (documented limit %d): %s" % (k, MAXR, o[:80]))
    # ---- the same texts where pdsh takes a host expression: -w / -x words, with the prefixes a word may carry ----
    import realeng
    real = realeng.Real(ctx, san=False, tag="real15", null_exec=True)
    nreal, rbad = 0, 0
    bodies = [b"a[1-3", b"a1-3]", b"a[3-1]", b"a[1-x]", b"a[]", b"a[1-99999]", b"a[0-18446744073709551615]", b"[", b"]", b"a[1-2]b[3-", b"a[[1-2]]",
              b"a[1,,2]", b"a[1-2-3]", b"a[-1]", b",", b"a[1-3]", b"", b" ", b"a b", b"a[1-2]-[0-1]", b"x" * 1100,
              b"a18446744073709551615", b"a18446744073709551614,a18446744073709551615", b"a18446744073709551615,a0", b"a33554432,a33554433", b"a4294967295,a4294967296",
              b"a9223372036854775807,a9223372036854775808", b"a18446744073709551616"]
    prefixes = [b"", b"bob@", b"exec:", b"exec:bob@", b"nosuch:", b"-", b"@", b":", b"bob@@", b"a:b:c@"]
    cdir15 = os.path.join(vlib.VERIF, "corpus", PROP)
    extra = []
    if os.path.isdir(cdir15):
        for fn in sorted(os.listdir(cdir15)):
            if fn.startswith("word_") and fn.endswith(".json"):
                extra.append(vlib.unhex(json.load(open(os.path.join(cdir15, fn)))["word"]))
    words = extra + [pf + b for pf in prefixes for b in bodies]
    if not quick:
        words += [r.choice(prefixes) + gen_random(r)[:200] for _ in range(1500)]
    # text of a refused range is data, also where the diagnostic is printed: conversions in it are shown, not interpreted
    pct = [b"1-%s%s%s%s%s%s%s%s%s%s", b"%d-2", b"%m", b"1-99999%s", b"1-9%n9999", b"%x-%x", b"%p", b"%5$s", b"%*d", b"1-%%", b"%S-1", b"%.999999d"]
    for R in pct:
        for pf in (b"a", b"bob@n", b"exec:q"):
            wd = pf + b"[" + R + b"]"
            rc, o, e = real.run(["-Q", "-w", wd], timeout=10, stdin=b"")
            nreal += 1
            want = b"`" + R + b"'"
            if isinstance(e, str):
                e = e.encode("latin-1")
            if rc == -999 or rc < 0 or rc >= 128 or want not in e:
                rbad += 1; bad += 1
                ctx.violation("input", case={"args": ["-Q", "-w", wd.decode("latin-1")]},
                              expected="refused cleanly with a diagnostic quoting the range text " + want.decode(), observed="status %d %r" % (rc, e[-200:]), engine="args",
                              detail="the text of a refused range was not reported as typed (or pdsh crashed): %r" % wd)
                break
        if rbad >= 2:
            break
    for wd in words:
        if b"\0" in wd:
            continue
        for opt in (["-w", wd], ["-w", b"ok1", "-x", wd]):
            rc, o, e = real.run(["-Q"] + opt, timeout=10, stdin=b"")
            nreal += 1
            msg = None
            if rc == -999:
                # a word that stands for a very large (but legal: <= 16384 hosts a range) number of hosts: with a transport or
                # user prefix pdsh registers every host one by one, each time searching what it has registered so far - minutes
                # for 10^5 hosts.  That is the cost of the registration, not of parsing; such words are not judged here.
                body = wd
                for pf in sorted(prefixes, key=len, reverse=True):
                    if pf and wd.startswith(pf):
                        body = wd[len(pf):]
                        break
                nh = est_hosts(body)
                if nh > 20000 and real.run(["-Q", "-w", body], timeout=30, stdin=b"")[0] != -999:
                    dist["large_expansion_not_timed"] = dist.get("large_expansion_not_timed", 0) + 1
                    continue
                msg = "pdsh does not terminate on the word"
            elif rc < 0 or rc >= 128:
                msg = "pdsh crashed (status %d) instead of failing cleanly" % rc
            if msg:
                rbad += 1; bad += 1
                ctx.violation("input", case={"args": ["-Q"] + [x.decode("latin-1") if isinstance(x, bytes) else x for x in opt]},
                              expected="a host list or a clean failure (exit 0/1 with a diagnostic)", observed="status %d %r" % (rc, e[-160:]), engine="args",
                              detail="%s: %r" % (msg, wd[:120]))
                if rbad >= 3:
                    break
        if rbad >= 3:
            break
    have_input = any(v["kind"] != "no-failing-input-found" for v in ctx.violations)
    vlib.report_proof_break(ctx, have_input)
    cov = vlib.proof_coverage(ctx, {
        "real_binary_words": nreal,
        "evaluations": len(cases), "distinct_nontrivial": len(set(c for c, (e, l) in zip(cases, meta) if l != "corpus")),
        "rule": "labelled malformed inputs with an outcome the property states (unbalanced, reversed, non-numeric, too many incl. numbers beyond 2^64), grammar-biased random byte strings, words around the 1023/4095-byte buffers; all run under ASan/UBSan; distinct = distinct input string",
        "samples": samples, "input_distribution": dist, "outcome_kinds": kinds, "corpus_cases": ncorpus, "disagreements": bad})
    return ctx.finish(cov, ["libc strtoul/snprintf modelled", "ASan/UBSan as the detector of out-of-bounds accesses in the implementation",
                            "prompt termination is observed through a per-case time limit on the implementation; the model is total by construction"])


def replay(ctx, path):
    rec = json.load(open(path))
    ctx.gen_params()
    eng = hleng.HL(ctx)
    c = rec["case"]
    print("input    :", repr(vlib.unhex(c.split()[1])[:300]))
    print("expected :", rec.get("expected"))
    print("impl now :", eng.run_impl([c])[0][:300])
    print("model now:", eng.run_model([c])[0][:300])
    return 0
