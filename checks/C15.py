"""C15 - any text given as a host expression is handled safely and within limits."""
import os, json
import vlib, hlgen, hleng
from vlib import hexs

PROP = "C15"
ALPHA = [b"[", b"]", b",", b"-", b" ", b"\t", b"+", b"a", b"b", b"n", b"0", b"1", b"2", b"5", b"9", b"x", b".", b"\xe9", b"\x01", b"^", b"/", b":", b"@"]
BIGNUMS = [b"16383", b"16384", b"16385", b"4294967295", b"4294967296", b"9223372036854775807", b"9223372036854775808",
           b"18446744073709551614", b"18446744073709551615", b"18446744073709551616", b"99999999999999999999",
           b"100000000000000000000", b"340282366920938463463374607431768211456", b"33554431", b"33554432", b"33554433"]


def gen_labelled(r):
    """inputs whose outcome the property states outright: (bytes, expected prefix or None, label)"""
    pfx = hlgen.gen_text(r, ("alpha", "alnum", "empty"))
    k = r.weighted([("unbal_open", 3), ("unbal_close", 3), ("reversed", 3), ("nonnum", 3), ("toomany", 5), ("toomany_huge", 4),
                    ("limit_ok", 3), ("both_sat", 2), ("neg", 1), ("empty_range", 2)])
    tail = hlgen.gen_text(r, ("empty", "alpha", "dash")) if r.chance(1, 2) else b""
    if k == "unbal_open":
        return pfx + b"[" + hlgen.render_ranges(hlgen.gen_ranges(r)) + tail, "ERR EINVAL", k
    if k == "unbal_close":
        return pfx + hlgen.render_ranges(hlgen.gen_ranges(r)) + b"]" + tail, "ERR EINVAL", k
    if k == "reversed":
        lo = r.range(1, 100000)
        hi = r.range(0, lo - 1)
        return pfx + b"[%d-%d]" % (lo, hi) + tail, "ERR EINVAL", k
    if k == "nonnum":
        bad = r.choice([b"a", b"1-b", b"x-2", b"", b"-", b"1--2", b"-3", b"1-2-3x", b"1.5", b"0x10-0x20", b"1-2x"])
        return pfx + b"[" + bad + b"]" + tail, "ERR EINVAL", k
    if k == "toomany":
        lo = r.choice([0, 1, 7, 100, 99999])
        hi = lo + r.choice([16384, 16385, 20000, 100000, 10 ** 9])
        return pfx + b"[%d-%d]" % (lo, hi) + tail, "ERR ERANGE", k
    if k == "toomany_huge":
        lo = r.choice([b"0", b"1", b"5", b"1000", b"18446744073709500000"])
        hi = r.choice(BIGNUMS[4:13])
        if int(hi) - int(lo) < 16384:
            hi = b"99999999999999999999999"
        return pfx + b"[" + lo + b"-" + hi + b"]" + tail, "ERR ERANGE", k
    if k == "both_sat":
        # both bounds beyond 2^64: a range larger than the limit however large the numbers typed
        lo = 10 ** r.range(20, 30)
        hi = lo + r.choice([16384, 10 ** 6, 10 ** 19])
        return pfx + b"[%d-%d]" % (lo, hi) + tail, "ERR", k
    if k == "limit_ok":
        lo = r.choice([0, 1, 5, 1000])
        return pfx + b"[%d-%d]" % (lo, lo + 16383), "N=16384", k
    if k == "neg":
        return pfx + b"[1- -5]" + tail, "ERR", k
    return pfx + b"[]" + tail, "ERR EINVAL", k


def gen_random(r):
    n = r.weighted([(r.range(1, 12), 6), (r.range(13, 60), 3), (r.range(61, 300), 1)])
    out = b""
    for _ in range(n):
        c = r.weighted([("alpha", 10), ("big", 1), ("range", 2)])
        if c == "alpha":
            out += r.choice(ALPHA)
        elif c == "big":
            out += r.choice(BIGNUMS)
        else:
            out += b"[" + hlgen.render_ranges(hlgen.gen_ranges(r, maxn=3)) + b"]"
    return out


def gen_long(r):
    """words around the 1023-byte token copy and the 4095-byte name buffer"""
    L = r.choice([1021, 1022, 1023, 1024, 1025, 2047, 4093, 4094, 4095, 4096, 4097, 5000])
    body = bytes(r.choice(b"abcdefgh0123") for _ in range(L))
    k = r.below(4)
    if k == 0:
        return body
    if k == 1:
        return b"x," + body + b",y" + bytes(r.choice(b"123") for _ in range(3))
    if k == 2:
        return body[:L - 6] + b"[1-2]" + b"z"
    return b"p[1-2]" + body


def run(ctx):
    ctx.gen_params()
    ctx.prove()
    eng = hleng.HL(ctx)
    quick = ctx.tier == "quick"
    r = ctx.rng("strings")
    cases, meta = [], []
    cdir = os.path.join(vlib.VERIF, "corpus", PROP)
    if os.path.isdir(cdir):
        for fn in sorted(os.listdir(cdir)):
            if fn.endswith(".json"):
                c = json.load(open(os.path.join(cdir, fn)))
                cases.append(c["case"]); meta.append((c.get("expect"), "corpus:" + fn))
    ncorpus = len(cases)
    nlab, nrand, nlong = (1500, 2500, 120) if quick else (30000, 60000, 2000)
    for _ in range(nlab):
        s, exp, lab = gen_labelled(r)
        cases.append("parse " + hexs(s)); meta.append((exp, lab))
    for _ in range(nrand):
        cases.append("parse " + hexs(gen_random(r))); meta.append((None, "random"))
    for _ in range(nlong):
        cases.append("parse " + hexs(gen_long(r))); meta.append((None, "long"))
    ctx.log("running %d cases" % len(cases))
    impl = eng.run_impl(cases)
    model = eng.run_model(cases)
    dist, kinds = {}, {}
    bad = 0
    samples = []
    for c, (exp, lab), i, m in zip(cases, meta, impl, model):
        dist[lab] = dist.get(lab, 0) + 1
        kind = i.split(" ")[0] + (" " + i.split(" ")[1] if i.startswith("ERR") else "")
        kinds[kind] = kinds.get(kind, 0) + 1
        s = vlib.unhex(c.split()[1])
        problem = None
        if i.startswith("CRASH") or i.startswith("HANG"):
            problem = ("input", "parser crashed / hung / touched memory out of bounds: " + i)
        elif exp is not None and not i.startswith(exp):
            problem = ("input", "expected %s for a %s input" % (exp, lab))
        elif i.startswith("N="):
            n = int(i.split(" ")[0][2:])
            names = vlib.unhexlist(i.split(" ")[2])
            # documented limit: no single range expands to more than 16384 hosts -> total bounded by pieces
            pieces = s.count(b",") + s.count(b" ") + s.count(b"\t") + 1
            if n != len(names) or n > 16384 * pieces:
                problem = ("input", "count %d vs %d names, bound %d" % (n, len(names), 16384 * pieces))
        if problem is None and i != m:
            problem = ("corr", "implementation and model disagree")
        if problem:
            bad += 1
            if problem[0] == "input":
                ctx.violation("input", case=c, expected=exp or m, observed=i[:300], engine="hl", detail="%s; input %r" % (problem[1], s[:200]))
            else:
                ctx.violation("no-failing-input-found", case=c, expected=m[:300], observed=i[:300], engine="hl",
                              correspondence="hl: parse(impl) = parse(model)", detail="%s; input %r" % (problem[1], s[:200]))
            if bad >= 8:
                break
        if len(samples) < 4 and lab in ("toomany_huge", "random", "long", "nonnum") and lab not in [x["kind"] for x in samples]:
            samples.append({"kind": lab, "input": s[:80].decode("latin-1"), "impl": i[:80]})
    have_input = any(v["kind"] != "no-failing-input-found" for v in ctx.violations)
    vlib.report_proof_break(ctx, have_input)
    cov = vlib.proof_coverage(ctx, {
        "evaluations": len(cases), "distinct_nontrivial": len(set(c for c, (e, l) in zip(cases, meta) if l != "corpus")),
        "rule": "labelled malformed inputs with an outcome the property states (unbalanced, reversed, non-numeric, too many incl. numbers beyond 2^64), grammar-biased random byte strings, words around the 1023/4095-byte buffers; all run under ASan/UBSan; distinct = distinct input string",
        "samples": samples, "input_distribution": dist, "outcome_kinds": kinds, "corpus_cases": ncorpus, "disagreements": bad})
    return ctx.finish(cov, ["libc strtoul/snprintf modelled", "ASan/UBSan as the detector of out-of-bounds accesses in the implementation",
                            "prompt termination is observed through a per-case time limit on the implementation; the model is total by construction"])


def replay(ctx, path):
    rec = json.load(open(path))
    ctx.gen_params()
    eng = hleng.HL(ctx)
    c = rec["case"]
    print("input    :", repr(vlib.unhex(c.split()[1])[:300]))
    print("expected :", rec.get("expected"))
    print("impl now :", eng.run_impl([c])[0][:300])
    print("model now:", eng.run_model([c])[0][:300])
    return 0
