"""C11 - pdcp/rpdcp reproduce the source tree exactly on every target.

Implementation side: the real pdcp / rpdcp (whole pdsh rebuilt from the tree under test, ASan+UBSan) copying
generated trees to three "hosts" through the suite's local pipe transport (tests/test-modules/pcptest.c built
into a scratch module directory: the remote command runs in ./<host>/).
Model side: the extracted client (pcp_client.c) and receiver (pcp_server.c) models talking to each other
(Pcp.PcpClient.run_copy) on a snapshot of the same directory.
Judged by S directly in Python: a recursive comparison of names, structure, bytes and (with -p) permission
bits and modification times between every source and its copy, nothing else changed, and - when something
is in the way on one host - the obstacle reported and every other file still where it belongs."""
import os, json, shutil, concurrent.futures
import vlib, pcpeng
from vlib import hexs

PROP = "C11"
HOSTS = [b"h0", b"h1", b"h2"]
SIZES = [0, 1, 8191, 8192, 8193, 3 * 8192 + 5]
NAMES = [b"a", b"b", b"file one", b"sp ace ", b"$(x)", b"`b`", b";rm -rf", b"-n", b"*", b"q?", b"tab\tx", b"back\\slash", b"'q'", b"\"dq\"",
         b"\xc3\xa9t\xc3\xa9", b"a!b@c#d$", b".hidden", b"..x", b"x..", b"n" * 255, b"E", b"T1 2 3 4", b"C0644 1 x", b"\x01\x02", b"~", b"#c", b"a&b|c",
         b"%h", b"{}", b"[x]", b"\xff\xfe"]
TOPNAMES = [b"tree", b"t2", b"data.bin", b"x_1", b"Makefile", b"a-b", b"dir.d"]
FMODES = [0o644, 0o600, 0o755, 0o444, 0o400, 0o640, 0, 0o7777, 0o4755, 0o2755, 0o1644, 0o666, 0o777, 0o751]
DMODES = [0o755, 0o700, 0o750, 0o555, 0o2775, 0o1777, 0o3777, 0o4711, 0o777, 0o711, 0o7777]


def gen_data(r, budget):
    n = r.weighted([(r.choice(SIZES), 3), (r.range(0, 64), 6), (r.range(100, 5000), 2)])
    n = min(n, max(0, budget[0]))
    budget[0] -= n
    seed = r.below(251)
    return bytes((i * 31 + seed + (i >> 8)) & 255 for i in range(n))


def gen_tree(r, depth, budget, t0):
    """(tree, next mtime)"""
    if depth >= 4 or (depth > 0 and r.chance(11, 20)) or (depth == 0 and r.chance(1, 6)):
        return ("F", r.choice(FMODES) if r.chance(2, 3) else r.below(4096), t0 + r.below(100000), gen_data(r, budget))
    kids = {}
    for _ in range(r.weighted([(0, 1), (1, 2), (2, 3), (3, 2), (4, 1)])):
        nm = r.choice(NAMES)
        if nm not in kids:
            kids[nm] = gen_tree(r, depth + 1, budget, t0)
    return ("D", r.choice(DMODES) if r.chance(2, 3) else (r.below(4096) | 0o700), t0 + r.below(100000), kids)


def older_copy(r, t):
    """what an earlier, different copy of t could look like: same shape, other contents / modes / times"""
    if t[0] == "F":
        d = t[3]
        k = r.below(4)
        nd = d + b"tail-to-be-cut" * r.range(1, 3) if k == 0 else (d[: len(d) // 2] if k == 1 else (b"" if k == 2 else bytes(reversed(d))))
        return ("F", r.choice([0o600, 0o644, 0o640, 0o400]), 900000000 + r.below(1000), nd)
    kids = {}
    for n, ch in t[3].items():
        if r.chance(3, 4):
            kids[n] = older_copy(r, ch)
    if r.chance(1, 3):
        kids[b"left-over"] = ("F", 0o644, 900000000, b"kept")
    return ("D", r.choice([0o755, 0o700, 0o750]), 900000000 + r.below(1000), kids)


def with_obstacle(r, t):
    """a copy target in which one entry of t has the wrong kind; returns (tree, number of obstacles)"""
    if t[0] == "F":
        return ("D", 0o755, 900000000, {b"in the way": ("F", 0o644, 900000000, b"x")}), 1
    kids, n = {}, 0
    names = list(t[3].keys())
    victim = r.choice(names) if names else None
    for nm in names:
        ch = t[3][nm]
        if nm == victim:
            if ch[0] == "D":
                kids[nm] = ("F", 0o644, 900000000, b"a regular file where a directory must go")
                n += 1
            elif r.chance(1, 2):
                kids[nm] = ("D", 0o755, 900000000, {})
                n += 1
    return ("D", 0o755, 900000000, kids), n


class Case:
    pass


def gen_case(r, idx, kind):
    c = Case()
    c.idx, c.kind = idx, kind
    c.reverse = kind == "rpdcp"
    c.pres = r.chance(1, 2)
    c.umask = r.choice([0o022, 0o022, 0o077, 0o027, 0])
    budget = [r.choice([2000, 30000, 120000])]
    nsrc = r.weighted([(1, 5), (2, 2), (3, 1)])
    c.srcs = {}
    # modification times: mostly around 2001..2017, sometimes beyond 2^31 seconds (2038), near 2^32, or close to the epoch
    t0 = r.weighted([(1000000000 + r.below(500000000), 6), (2147483648 + r.below(1000000000), 2), (4294967296 - 50000 + r.below(40000), 1), (r.below(1000), 1)])
    for _ in range(nsrc):
        nm = r.choice(TOPNAMES)
        if nm not in c.srcs:
            if kind == "single-file":
                c.srcs[nm] = ("F", r.choice(FMODES), t0, gen_data(r, budget))
            else:
                t = gen_tree(r, 0 if r.chance(4, 5) else 4, budget, t0)
                c.srcs[nm] = t
    c.recursive = any(t[0] == "D" for t in c.srcs.values()) or r.chance(1, 3)
    c.srcdir = r.choice([b"", b"", b"srcs"])                 # sources given as NAME or as srcs/NAME
    c.dest = r.choice([b".", b".", b"dst", b"dst/deeper"])
    c.pre = {}                                               # what each host holds under dest beforehand
    for h in HOSTS:
        c.pre[h] = {}
    if kind == "overwrite":
        for nm, t in c.srcs.items():
            c.pre[b"h1"][nm] = older_copy(r, t)
            if r.chance(1, 2):
                c.pre[b"h2"][nm] = older_copy(r, t)
    if kind == "obstacle":
        c.nobst = 0
        for nm, t in c.srcs.items():
            o, n = with_obstacle(r, t)
            if n:
                c.pre[b"h2"][nm] = o
                c.nobst += n
    if kind == "single-file":
        c.srcs = dict(list(c.srcs.items())[:1])
        c.recursive = r.chance(1, 4)
        c.dest = r.choice([b"newname", b"existing", b"dst/newname"])
        c.pre[b"h1"][b"__existing__"] = ("F", 0o600, 900000000, b"old contents, longer than some new ones" * 3)
    return c


def put(tree, path, node):
    """tree with node at path (list of names) - directories on the way are created 0755"""
    k, m, mt, kids = tree
    kids = dict(kids)
    if len(path) == 1:
        kids[path[0]] = node
    else:
        sub = kids.get(path[0], ("D", 0o755, 900000000, {}))
        kids[path[0]] = put(sub, path[1:], node)
    return (k, m, mt, kids)


def layout(c):
    """the directory pdcp runs in, as a tree"""
    root = ("D", 0o755, 900000000, {})
    if c.reverse:
        for h in HOSTS:
            root = put(root, [h], ("D", 0o755, 900000000, {}))
            for nm, t in c.srcs.items():
                root = put(root, [h] + ([c.srcdir] if c.srcdir else []) + [nm], perhost(t, h))
        root = put(root, [b"out"], ("D", 0o755, 900000000, {}))
        return root
    for nm, t in c.srcs.items():
        root = put(root, ([c.srcdir] if c.srcdir else []) + [nm], t)
    for h in HOSTS:
        hd = ("D", 0o755, 900000000, {b"dst": ("D", 0o755, 900000000, {b"deeper": ("D", 0o750, 900000000, {})}),
                                      b"bystander": ("F", 0o640, 900000000, b"must not change")})
        destp = [] if c.dest == b"." else c.dest.split(b"/")
        for nm, t in c.pre[h].items():
            if nm == b"__existing__":
                hd = put(hd, [b"existing"], t)
            else:
                hd = put(hd, destp + [nm], t)
        root = put(root, [h], hd)
    return root


def perhost(t, h):
    """rpdcp: every host has its own contents under the same names"""
    if t[0] == "F":
        return ("F", t[1], t[2], t[3] + h)
    return ("D", t[1], t[2], {n: perhost(ch, h) for n, ch in t[3].items()})


def lookup(tree, path):
    for p in path:
        if tree is None or tree[0] != "D":
            return None
        tree = tree[3].get(p)
    return tree


# ---------------- S ----------------
def faithful(src, cp, pres, where, out, dirbits=0o7777):
    """is cp a faithful copy of src?  appends descriptions of what is not"""
    if cp is None:
        out.append("%s: missing" % where)
        return
    if src[0] != cp[0]:
        out.append("%s: is a %s, source is a %s" % (where, cp[0], src[0]))
        return
    if pres:
        if (src[1] & 0o7777) != (cp[1] & 0o7777):
            out.append("%s: mode %04o, source has %04o (-p)" % (where, cp[1], src[1]))
        if src[2] != cp[2]:
            out.append("%s: mtime %d, source has %d (-p)" % (where, cp[2], src[2]))
    if src[0] == "F":
        if src[3] != cp[3]:
            out.append("%s: contents differ (%d bytes, source %d bytes%s)" % (where, len(cp[3]), len(src[3]),
                                                                             "; source is a prefix of the copy" if cp[3].startswith(src[3]) else ""))
    else:
        for n, ch in src[3].items():
            faithful(ch, cp[3].get(n), pres, where + "/" + n.decode("latin-1"), out)


def expected_merge(pre, src, blocked):
    """S for the names: what must be under a copy target that held `pre` - kinds only; obstacles stay"""
    if pre is not None and pre[0] != src[0]:
        blocked.append(1)
        return pre                                   # something of the other kind is in the way: reported, left alone
    if src[0] == "F":
        return ("F", None, None, src[3])
    kids = dict(pre[3]) if pre is not None else {}
    for n, ch in src[3].items():
        kids[n] = expected_merge(kids.get(n), ch, blocked)
    return ("D", None, None, kids)


def shape(t):
    """names, kinds and bytes only"""
    if t is None:
        return None
    if t[0] == "F":
        return ("F", t[3])
    return ("D", {n: shape(ch) for n, ch in t[3].items()})


def judge_pdcp(c, before, after, rc, err):
    """S on the outcome of one pdcp run; list of failures"""
    out = []
    cr = pcpeng.crashed(rc, err)
    if cr:
        return ["pdcp crashed / sanitizer report: " + cr]
    destp = [] if c.dest == b"." else c.dest.split(b"/")
    for h in HOSTS:
        hb, ha = lookup(before, [h]), lookup(after, [h])
        db, da = lookup(hb, destp), lookup(ha, destp)
        tag = h.decode()
        if c.kind == "single-file":
            (nm, src), = c.srcs.items()
            tb = lookup(hb, destp)
            if tb is not None and tb[0] == "D":
                faithful(src, lookup(ha, destp + [nm]), c.pres, "%s/%s/%s" % (tag, c.dest.decode(), nm.decode()), out)
            else:
                faithful(src, lookup(ha, destp), c.pres, "%s/%s" % (tag, c.dest.decode()), out)
            exp = hb
            if tb is not None and tb[0] == "D":
                exp = put(hb, destp + [nm], src)
            else:
                exp = put(hb, destp, src)
            if shape(exp) != shape(ha):
                out.append("%s: something other than the copy changed" % tag)
            continue
        exp_dir = db
        nblocked = []
        for nm, src in c.srcs.items():
            pre = db[3].get(nm)
            m = expected_merge(pre, src, nblocked)
            kids = dict(exp_dir[3])
            kids[nm] = m
            exp_dir = ("D", None, None, kids)
            if not nblocked:
                faithful(src, da[3].get(nm) if da else None, c.pres, "%s/%s/%s" % (tag, c.dest.decode(), nm.decode()), out)
        exp_host = put(hb, destp, exp_dir) if destp else ("D", None, None, exp_dir[3])
        if shape(exp_host) != shape(ha):
            d = first_shape_diff(shape(exp_host), shape(ha), tag)
            out.append("%s: names/kinds/bytes are not what the copy must leave (%s)%s" % (tag, d, "; an obstacle was in the way on this host" if nblocked else ""))
        if nblocked and tag.encode() not in err:
            out.append("%s: an obstacle was in the way but nothing was reported for this host" % tag)
    sb = {k: v for k, v in before[3].items() if k not in HOSTS}
    sa = {k: v for k, v in after[3].items() if k not in HOSTS}
    if shape(("D", 0, 0, sb)) != shape(("D", 0, 0, sa)):
        out.append("the sources were modified")
    return out


def first_shape_diff(a, b, where):
    if a == b:
        return None
    if a is None or b is None or a[0] != b[0]:
        return "%s: expected %s, found %s" % (where, "nothing" if a is None else a[0], "nothing" if b is None else b[0])
    if a[0] == "F":
        return "%s: %d bytes expected, %d found%s" % (where, len(a[1]), len(b[1]), "; expected is a prefix" if b[1].startswith(a[1]) else "")
    for n in sorted(set(a[1]) | set(b[1])):
        d = first_shape_diff(a[1].get(n), b[1].get(n), where + "/" + n.decode("latin-1"))
        if d:
            return d
    return None


def judge_rpdcp(c, before, after, rc, err):
    out = []
    cr = pcpeng.crashed(rc, err)
    if cr:
        return ["rpdcp crashed / sanitizer report: " + cr]
    o = lookup(after, [b"out"])
    want = {}
    for h in HOSTS:
        for nm in c.srcs:
            src = lookup(before, [h] + ([c.srcdir] if c.srcdir else []) + [nm])
            cpn = nm + b"." + h
            want[cpn] = src
            faithful(src, o[3].get(cpn), c.pres, "out/" + cpn.decode(), out)
    if shape(("D", 0, 0, want)) != shape(o):
        out.append("out/: %s" % first_shape_diff(shape(("D", 0, 0, want)), shape(o), "out"))
    for h in HOSTS:
        if shape(lookup(before, [h])) != shape(lookup(after, [h])):
            out.append("the sources on %s were modified" % h.decode())
    return out


# ---------------- running ----------------
def run_real(real, base, c):
    c.root = os.path.join(base, "c%05d" % c.idx)
    pcpeng.materialize(layout(c), c.root)
    c.before = pcpeng.snapshot(c.root)
    srcargs = [((c.srcdir + b"/") if c.srcdir else b"") + nm for nm in c.srcs]
    args = ["-Rpcptest", "-w", ",".join(h.decode() for h in HOSTS)] + (["-r"] if c.recursive else []) + (["-p"] if c.pres else [])
    if c.reverse:
        args += srcargs + [b"out"]
    else:
        args += srcargs + [c.dest]
    c.args = args
    c.rc, c.out, c.err = real.run(args, prog="rpdcp" if c.reverse else "pdcp", cwd=c.root, umask=c.umask, timeout=120)
    c.after = pcpeng.snapshot(c.root)
    shutil.rmtree(c.root, ignore_errors=True)
    return c


def model_lines(c, blk, flags):
    """one model run per host"""
    toks = " ".join(pcpeng.tokens(c.before, with_mtime=True))
    names = ",".join("/".join(hexs(x) for x in (([c.srcdir] if c.srcdir else []) + [nm])) for nm in c.srcs)
    out = []
    for h in HOSTS:
        if c.reverse:
            out.append("copy 1 %d %d %d 1 %d %d %s %s %s . %s %s" % (flags["dirmode"], flags["skip"], c.pres, c.umask, blk, hexs(h), names, hexs(h), hexs(b"out"), toks))
        else:
            out.append("copy 1 %d %d %d 0 %d %d . %s _ %s %s %s" % (flags["dirmode"], flags["skip"], c.pres, c.umask, blk, names, hexs(h), hexs(c.dest), toks))
    return out


def compare(c, answers):
    """model vs implementation on the receiving directories; None or description"""
    for h, ans in zip(HOSTS, answers):
        if ans is None:
            return "model gave no answer for %s" % h.decode()
        if ans["ret"] != "END":
            return "model outcome %s" % ans["ret"]
        if c.reverse:
            # every model run holds the copy of its own host only
            for nm in c.srcs:
                cpn = nm + b"." + h
                a, b = lookup(ans["tree"], [b"out", cpn]), lookup(c.after, [b"out", cpn])
                d = tree_diff(a, b, "out/" + cpn.decode(), modes=c.pres)
                if d:
                    return d
        else:
            d = tree_diff(lookup(ans["tree"], [h]), lookup(c.after, [h]), h.decode(), modes=True)
            if d:
                return d
    return None


def tree_diff(a, b, where, modes=True):
    """a = model tree (mtime None = any), b = implementation"""
    if a is None or b is None:
        return None if a is b else "%s: model %s, implementation %s" % (where, "nothing" if a is None else a[0], "nothing" if b is None else b[0])
    if a[0] != b[0]:
        return "%s: model %s, implementation %s" % (where, a[0], b[0])
    if modes and a[1] != b[1]:
        return "%s: mode model %04o implementation %04o" % (where, a[1], b[1])
    if a[2] is not None and 0 <= a[2] < 2 ** 31 and a[2] != b[2]:
        return "%s: mtime model %d implementation %d" % (where, a[2], b[2])
    if a[0] == "F":
        return None if a[3] == b[3] else "%s: contents differ (model %d bytes, implementation %d)" % (where, len(a[3]), len(b[3]))
    for n in sorted(set(a[3]) | set(b[3])):
        d = tree_diff(a[3].get(n), b[3].get(n), where + "/" + n.decode("latin-1"), modes)
        if d:
            return d
    return None


def rec_of(c):
    def enc(t):
        return [t[0], t[1], t[2], t[3].hex()] if t[0] == "F" else [t[0], t[1], t[2], {n.hex(): enc(ch) for n, ch in t[3].items()}]
    return {"kind": c.kind, "idx": c.idx, "reverse": c.reverse, "preserve": c.pres, "recursive": c.recursive, "umask": c.umask, "dest": c.dest.decode(),
            "srcdir": c.srcdir.decode(), "srcs": {n.hex(): enc(t) for n, t in c.srcs.items()}, "pre": {h.decode(): {n.hex(): enc(t) for n, t in d.items()} for h, d in c.pre.items()}}


def case_of(rec):
    def dec(e):
        return (e[0], e[1], e[2], bytes.fromhex(e[3])) if e[0] == "F" else (e[0], e[1], e[2], {bytes.fromhex(n): dec(ch) for n, ch in e[3].items()})
    c = Case()
    c.kind, c.idx, c.reverse, c.pres, c.recursive, c.umask = rec["kind"], rec.get("idx", 0), rec["reverse"], rec["preserve"], rec["recursive"], rec["umask"]
    c.dest, c.srcdir = rec["dest"].encode(), rec["srcdir"].encode()
    c.srcs = {bytes.fromhex(n): dec(t) for n, t in rec["srcs"].items()}
    c.pre = {h.encode(): {bytes.fromhex(n): dec(t) for n, t in d.items()} for h, d in rec["pre"].items()}
    c.nobst = 0
    return c


def probe_flags(ctx, real):
    """which of the two repairs does the code under test carry?  (both are demanded by S below; the model is run like the code so that
    the correspondence stays about everything else)"""
    base = os.path.join(ctx.scratch, "c11probe")
    r = vlib.Rng(1, "probe")
    c = Case()
    c.idx, c.kind, c.reverse, c.pres, c.umask, c.recursive, c.srcdir, c.dest = 0, "obstacle", False, True, 0o022, True, b"", b"."
    c.srcs = {b"tree": ("D", 0o2755, 1000000000, {b"sub": ("D", 0o755, 1000000000, {b"b": ("F", 0o644, 1000000000, b"B")}), b"z": ("F", 0o644, 1000000000, b"Z")})}
    c.pre = {h: {} for h in HOSTS}
    c.pre[b"h2"][b"tree"] = ("D", 0o755, 900000000, {b"sub": ("F", 0o644, 900000000, b"in the way")})
    run_real(real, base, c)
    m = lookup(c.after, [b"h0", b"tree"])
    return {"dirmode": 1 if (m and m[1] == 0o2755) else 0,
            "skip": 1 if (lookup(c.after, [b"h2", b"tree", b"z"]) is not None and lookup(c.after, [b"h2", b"tree", b"b"]) is None) else 0}


def load_corpus():
    out = []
    cdir = os.path.join(vlib.VERIF, "corpus", PROP)
    if os.path.isdir(cdir):
        for fn in sorted(os.listdir(cdir)):
            if fn.endswith(".json"):
                out.append(case_of(json.load(open(os.path.join(cdir, fn)))))
    return out


def execute(ctx, real, model, cases, blk, flags):
    base = os.path.join(ctx.scratch, "c11")
    os.makedirs(base, exist_ok=True)
    with concurrent.futures.ThreadPoolExecutor(max_workers=min(8, vlib.NPROC)) as ex:
        list(ex.map(lambda c: run_real(real, base, c), cases))
    lines = []
    for c in cases:
        lines += model_lines(c, blk, flags)
    res = ctx.run_lines([model], lines, timeout_per_case=300, env={"OCAMLRUNPARAM": "l=8G"}, crash_tag="MODEL-CRASH")
    ans = [pcpeng.parse_answer(x) if x and x.startswith("OK ") else None for x in res]
    return [ans[3 * i:3 * i + 3] for i in range(len(cases))], [res[3 * i:3 * i + 3] for i in range(len(cases))]


def describe(c):
    return "%s %s   (umask %03o; sources %s)" % ("rpdcp" if c.reverse else "pdcp", " ".join(a.decode("latin-1") if isinstance(a, bytes) else a for a in c.args), c.umask,
                                                   ", ".join("%s:%s" % (n.decode(), t[0]) for n, t in c.srcs.items()))


def fault_part(ctx, real, quick):
    """faults on the writing side, judged by S only (the model's file system has no quotas and one connection):
    (a) rpdcp whose local copies are blocked for TWO hosts at once; (b) pdcp where a file exceeds the receivers' file
    size limit in the middle of the copy, with more files following.  Returns (runs, problems)."""
    problems, nruns = [], 0
    base = os.path.join(ctx.scratch, "c11f")
    os.makedirs(base, exist_ok=True)
    # (a)
    for rep in range(2 if quick else 8):
        root = os.path.join(base, "a%d" % rep)
        tree = ("D", 0o755, 900000000, {b"out": ("D", 0o755, 900000000, {b"f." + HOSTS[0]: ("D", 0o755, 900000000, {}), b"f." + HOSTS[1]: ("D", 0o755, 900000000, {})})})
        for h in HOSTS:
            tree = put(tree, [h], ("D", 0o755, 900000000, {b"f": ("F", 0o644, 1000000000, b"contents of f on " + h),
                                                              b"g": ("F", 0o600, 1000000001, b"g" * (3 + rep) + h)}))
        pcpeng.materialize(tree, root)
        rc, o, e = real.run(["-Rpcptest", "-w", ",".join(h.decode() for h in HOSTS), b"f", b"g", b"out"], prog="rpdcp", cwd=root, timeout=60)
        nruns += 1
        after = pcpeng.snapshot(root)
        case = {"kind": "rpdcp, local copies of f from the first two hosts blocked by directories", "hosts": [h.decode() for h in HOSTS]}
        cr = pcpeng.crashed(rc, e)
        if cr:
            problems.append((case, "reports for h1 and h2, other copies made", cr, "rpdcp crashed or did not end when two hosts' copies are blocked: " + cr)); continue
        outd = lookup(after, [b"out"])
        for h in HOSTS:
            g = outd[3].get(b"g." + h)
            if g is None or g[0] != "F" or g[3] != b"g" * (3 + rep) + h:
                problems.append((case, "out/g.%s faithful" % h.decode(), str(g)[:100], "a blocked copy for other files/hosts corrupted or prevented out/g.%s" % h.decode())); break
        f3 = outd[3].get(b"f." + HOSTS[-1])
        if not problems and (f3 is None or f3[0] != "F" or f3[3] != b"contents of f on " + HOSTS[-1]):
            problems.append((case, "out/f.%s faithful" % HOSTS[-1].decode(), str(f3)[:100], "the copy from the unblocked host is missing or wrong"))
        for h in HOSTS[:2]:
            if h + b":" not in e and h + b" " not in e:
                problems.append((case, "a report under %s" % h.decode(), e.decode("latin-1")[-300:],
                                 "the blocked copy of f from %s is not reported for that host" % h.decode())); break
        shutil.rmtree(root, ignore_errors=True)
    # (b)
    for rep in range(2 if quick else 8):
        root = os.path.join(base, "b%d" % rep)
        tree = ("D", 0o755, 900000000, {b"big": ("F", 0o644, 1000000000, bytes((i * 7 + rep) % 251 for i in range(40000 + 8192 * rep))),
                                        b"s1": ("F", 0o644, 1000000001, b"small one\n"), b"s2": ("F", 0o600, 1000000002, b"small two\n" * 3),
                                        b"s3": ("F", 0o640, 1000000003, b"")})
        for h in HOSTS:
            tree = put(tree, [h], ("D", 0o755, 900000000, {}))
        pcpeng.materialize(tree, root)
        rc, o, e = real.run(["-Rpcptest", "-w", ",".join(h.decode() for h in HOSTS), b"big", b"s1", b"s2", b"s3", b"."], prog="pdcp", cwd=root, timeout=60,
                            fsize=12 * 1024)
        nruns += 1
        after = pcpeng.snapshot(root)
        case = {"kind": "pdcp big s1 s2 s3 under a 12 KiB file size limit on the receivers", "hosts": [h.decode() for h in HOSTS]}
        cr = pcpeng.crashed(rc, e)
        if cr:
            problems.append((case, "big reported, s1 s2 s3 copied", cr, "pdcp crashed or did not end when a file hits the file size limit: " + cr)); continue
        for h in HOSTS:
            hd = lookup(after, [h])
            for nm in (b"s1", b"s2", b"s3"):
                src = tree[3][nm]
                cp = hd[3].get(nm)
                if cp is None or cp[0] != "F" or cp[3] != src[3]:
                    problems.append((case, "%s/%s faithful" % (h.decode(), nm.decode()), str(cp)[:100],
                                     "a file that could not be written (big, over the size limit) corrupted or prevented the copy of %s on %s" % (nm.decode(), h.decode())))
                    break
            if problems:
                break
            if h not in e:
                problems.append((case, "big reported for %s" % h.decode(), e.decode("latin-1")[-300:], "the file that could not be written is not reported for host %s" % h.decode())); break
        shutil.rmtree(root, ignore_errors=True)
    # (c) trees hundreds of levels deep copied back by rpdcp: the receiver runs in the per-host worker thread and recurses per level
    for depth in ((300, 1100) if quick else (150, 300, 700, 1100, 1500)):
        root = os.path.join(base, "deep%d" % depth)
        os.makedirs(os.path.join(root, "out"))
        for h in HOSTS[:2]:
            d = os.path.join(root, h.decode(), "t")
            os.makedirs(d + "/d" * depth)
            with open(d + "/d" * depth + "/leaf", "w") as fh:
                fh.write("leaf of " + h.decode())
            with open(d + "/d" * (depth // 2) + "/mid", "w") as fh:
                fh.write("mid of " + h.decode())
        rc, o, e = real.run(["-Rpcptest", "-w", ",".join(h.decode() for h in HOSTS[:2]), "-r", b"t", b"out"], prog="rpdcp", cwd=root, timeout=120)
        nruns += 1
        case = {"kind": "rpdcp -r of a tree %d levels deep from two hosts" % depth, "hosts": [h.decode() for h in HOSTS[:2]]}
        cr = pcpeng.crashed(rc, e)
        if cr:
            problems.append((case, "out/t.<host> = the tree", cr, "rpdcp crashed or did not end on a tree %d levels deep: %s" % (depth, cr)))
        else:
            for h in HOSTS[:2]:
                d = os.path.join(root, "out", "t." + h.decode())
                try:
                    ok = open(d + "/d" * depth + "/leaf").read() == "leaf of " + h.decode() and open(d + "/d" * (depth // 2) + "/mid").read() == "mid of " + h.decode()
                except OSError:
                    ok = False
                if not ok:
                    problems.append((case, "out/t.%s faithful down to level %d" % (h.decode(), depth), "leaf or mid file missing or wrong",
                                     "the copy of a tree %d levels deep from %s is incomplete" % (depth, h.decode()))); break
        shutil.rmtree(root, ignore_errors=True)
    # (d) a target whose remote side is slow to start (longer than the default connect time-out plus a watchdog round;
    #     the pipe transport refuses -t): the
    #     connection is up, so the connect time-out no longer applies; the copy must arrive whole
    for rep in range(1 if quick else 3):
        root = os.path.join(base, "slow%d" % rep)
        tree = ("D", 0o755, 900000000, {b"src": ("D", 0o750, 900000000, {b"big": ("F", 0o604, 1000000000, bytes((11 * i + rep) % 253 for i in range(50000))),
                                                                          b"sub": ("D", 0o755, 900000001, {b"empty": ("F", 0o644, 1000000002, b"")})}),
                                        b"single": ("F", 0o644, 1000000003, b"s" * 8192)})
        for h in HOSTS:
            tree = put(tree, [h], ("D", 0o755, 900000000, {b"dst": ("D", 0o755, 900000000, {})}))
        pcpeng.materialize(tree, root)
        wrap = os.path.join(root, "slowpdcp")
        with open(wrap, "w") as fh:
            fh.write("#!/bin/sh\ncase \"$PWD\" in */%s) sleep 14;; esac\nexec %s \"$@\"\n" % (HOSTS[1].decode(), real.path("pdcp")))
        os.chmod(wrap, 0o755)
        rc, o, e = real.run(["-Rpcptest", "-e", wrap, "-w", ",".join(h.decode() for h in HOSTS), "-r", "-p", b"src", b"single", b"dst"], prog="pdcp", cwd=root, timeout=60)
        nruns += 1
        case = {"kind": "pdcp -r -p src single dst; the remote side of %s needs 14 s to start (connect time-out 10 s)" % HOSTS[1].decode(), "hosts": [h.decode() for h in HOSTS]}
        cr = pcpeng.crashed(rc, e)
        if cr:
            problems.append((case, "exact copies on every target", cr, "pdcp crashed or did not end when one target is slow to start: " + cr)); continue
        after = pcpeng.snapshot(root)
        for h in HOSTS:
            got = lookup(after, [h, b"dst"])
            want_src, want_single = tree[3][b"src"], tree[3][b"single"]
            d1 = pcpeng.diff_trees(want_src, got[3].get(b"src", ("D", 0, None, {})))
            s1 = got[3].get(b"single")
            if d1 or s1 is None or s1[3] != want_single[3]:
                problems.append((case, "%s/dst holds exact copies" % h.decode(), "differs at %s; stderr %r" % (d1[:2], e[-200:]),
                                 "target %s does not hold an exact copy (one target was slow to start: 14 s, connect time-out 10 s)" % h.decode())); break
        shutil.rmtree(root, ignore_errors=True)
    # (e) two entries refused by the receivers under a path longer than 2 KiB (the error lines are that long), more files after them
    for rep in range(1 if quick else 3):
        root = os.path.join(base, "longerr%d" % rep)
        names = [bytes([97 + k]) * (240 + rep) for k in range(9)]            # 9 x 240 bytes
        def nest(leaf, names=names):
            t = leaf
            for nm in reversed(names):
                t = ("D", 0o755, 900000000, {nm: t})
            return t
        srcleaf = ("D", 0o755, 900000000, {b"f1": ("F", 0o644, 1000000000, b"one"), b"f2": ("F", 0o644, 1000000001, b"two" * 100), b"g": ("F", 0o600, 1000000002, b"gee\n" * 50)})
        tree = ("D", 0o755, 900000000, {b"src": nest(srcleaf), b"last": ("F", 0o644, 1000000003, b"last file\n")})
        # on every target f1 and f2 already exist as directories: the receiver refuses both
        blocked = ("D", 0o755, 900000000, {b"f1": ("D", 0o755, 900000000, {}), b"f2": ("D", 0o755, 900000000, {})})
        for h in HOSTS:
            tree = put(tree, [h], ("D", 0o755, 900000000, {b"dst": ("D", 0o755, 900000000, {b"src": nest(blocked)})}))
        pcpeng.materialize(tree, root)
        rc, o, e = real.run(["-Rpcptest", "-w", ",".join(h.decode() for h in HOSTS), "-r", b"src", b"last", b"dst"], prog="pdcp", cwd=root, timeout=60)
        nruns += 1
        case = {"kind": "pdcp -r src last dst; src/<2160-byte path>/f1 and f2 are directories on the targets", "hosts": [h.decode() for h in HOSTS]}
        cr = pcpeng.crashed(rc, e)
        if cr:
            problems.append((case, "f1, f2 reported; g and last copied", cr, "pdcp crashed or did not end when two long-named entries are refused: " + cr)); continue
        after = pcpeng.snapshot(root)
        for h in HOSTS:
            gcopy = lookup(after, [h, b"dst", b"src"] + names + [b"g"])
            lcopy = lookup(after, [h, b"dst", b"last"])
            if gcopy is None or gcopy[0] != "F" or gcopy[3] != b"gee\n" * 50 or lcopy is None or lcopy[0] != "F" or lcopy[3] != b"last file\n":
                problems.append((case, "%s: g and last copied" % h.decode(), "g: %s last: %s; stderr tail %r" % (str(gcopy)[:60], str(lcopy)[:60], e[-200:]),
                                 "files that follow two refused entries with long paths were not copied to %s" % h.decode())); break
        shutil.rmtree(root, ignore_errors=True)
    # (g) rpdcp WITHOUT -r from a peer that sends what it likes: four hundred nested directory records (the receiver recurses on
    #     every one it is fed), and a peer that stalls in the middle of a file for longer than the command time-out (-u 1: the
    #     watchdog then signals the receiving thread every two seconds).  rpdcp must survive both.
    for rep, (what, body, opts) in enumerate([
            ("400 nested directory records, no -r", "i=0; while [ $i -lt 400 ]; do printf 'D0755 0 d\\n'; i=$((i+1)); done; printf 'C0644 4 leaf\\ndeep\\0'; "
                                                    "i=0; while [ $i -lt 400 ]; do printf 'E\\n'; i=$((i+1)); done; sleep 1", []),
            ("a peer that stalls 5 s in the middle of a file, -u 1", "printf 'C0644 20000 f\\n'; head -c 9000 /dev/zero; sleep 5; head -c 11000 /dev/zero; printf '\\0'; sleep 1", ["-u", "1"])]):
        root = os.path.join(base, "hostile%d" % rep)
        tree = ("D", 0o755, 900000000, {b"out": ("D", 0o755, 900000000, {})})
        for h in HOSTS[:2]:
            tree = put(tree, [h], ("D", 0o755, 900000000, {b"f": ("F", 0o644, 1000000000, b"x")}))
        pcpeng.materialize(tree, root)
        wrap = os.path.join(root, "peer.sh")
        with open(wrap, "w") as fh:
            fh.write("#!/bin/sh\n# stands in for the remote pdcp: ignores its arguments, drains the acknowledgements, writes records\nexec 3<&0\ncat <&3 > /dev/null &\n" + body + "\nkill $! 2>/dev/null\n")
        os.chmod(wrap, 0o755)
        rc, o, e = real.run(["-Rpcptest", "-e", wrap] + opts + ["-w", ",".join(h.decode() for h in HOSTS[:2]), b"f", b"out"], prog="rpdcp", cwd=root, timeout=60)
        nruns += 1
        case = {"kind": "rpdcp from a peer that sends " + what, "hosts": [h.decode() for h in HOSTS[:2]]}
        cr = pcpeng.crashed(rc, e)
        if cr:
            problems.append((case, "rpdcp survives (error records or copies, no crash)", cr, "rpdcp crashed or did not end with a peer that sends %s: %s" % (what, cr)))
        shutil.rmtree(root, ignore_errors=True)
    # (f) the dispatcher is slow between testing "is there room" and going to sleep (pthread_cond_wait delayed by a shim):
    #     the completion of a copy must not be missed - with -f 1 the next target would never be started
    shim = os.path.join(ctx.scratch, "slowcondwait.so")
    brc, _ = vlib.sh(["gcc", "-shared", "-fPIC", "-O1", os.path.join(vlib.VERIF, "harness", "slowcondwait.c"), "-ldl", "-o", shim])
    if brc == 0:
        plain = pcpeng.PcpReal(ctx, san=False, tag="pcpplain")           # LD_PRELOAD and the sanitizer runtime do not mix
        for rep in range(1 if quick else 3):
            root = os.path.join(base, "cw%d" % rep)
            tree = ("D", 0o755, 900000000, {b"f": ("F", 0o644, 1000000000, b"payload %d\n" % rep * 200)})
            for h in HOSTS:
                tree = put(tree, [h], ("D", 0o755, 900000000, {b"dst": ("D", 0o755, 900000000, {})}))
            pcpeng.materialize(tree, root)
            rc, o, e = plain.run(["-Rpcptest", "-f", "1", "-w", ",".join(h.decode() for h in HOSTS), b"f", b"dst"], prog="pdcp", cwd=root, timeout=40,
                                 env={"LD_PRELOAD": shim, "SLOWCONDWAIT_MS": "700"})
            nruns += 1
            case = {"kind": "pdcp -f 1 f dst with pthread_cond_wait delayed by 0.7 s", "hosts": [h.decode() for h in HOSTS]}
            after = pcpeng.snapshot(root)
            missing = [h.decode() for h in HOSTS if (lookup(after, [h, b"dst", b"f"]) or (None,) * 4)[3] != tree[3][b"f"][3]]
            if rc == -999 or missing:
                problems.append((case, "f copied to every target, pdcp ends", "exit %s, not copied to %s" % (rc, missing),
                                 "pdcp -f 1 %s: targets %s never got their copy (the completion of an earlier copy was missed by the dispatcher)" % ("hangs" if rc == -999 else "ends", missing)))
            shutil.rmtree(root, ignore_errors=True)
    return nruns, problems


def run(ctx):
    ctx.gen_params()
    ctx.prove()
    real = pcpeng.PcpReal(ctx)
    model = ctx.build_runner("pcp", "pcp_model")
    blk = os.stat(ctx.scratch).st_blksize
    flags = probe_flags(ctx, real)
    quick = ctx.tier == "quick"
    r = ctx.rng("trees")
    cases = load_corpus()
    ncorpus = len(cases)
    plan = [("fresh", 120), ("overwrite", 80), ("obstacle", 60), ("single-file", 40), ("rpdcp", 70)]
    for kind, n in plan:
        for _ in range(n if quick else n * 6):
            cases.append(gen_case(r, 0, kind))
    for i, c in enumerate(cases):
        c.idx = i
    ctx.log("copying %d generated trees to %d targets each (%d from the corpus); code under test: new directories chmod'ed under -p: %s, refused directories skipped: %s"
            % (len(cases), len(HOSTS), ncorpus, bool(flags["dirmode"]), bool(flags["skip"])))
    answers, raw = execute(ctx, real, model, cases, blk, flags)
    dist, bad_s, bad_c, samples, nontrivial, nbytes, seen_cls = {}, 0, 0, [], 0, 0, {}
    for c, ans in zip(cases, answers):
        dist[c.kind] = dist.get(c.kind, 0) + 1
        nfiles = sum(len(pcpeng.flat(t)) for t in c.srcs.values())
        nbytes += sum(len(v[3] or b"") for t in c.srcs.values() for v in pcpeng.flat(t).values())
        if nfiles >= 3:
            nontrivial += 1
        fails = judge_rpdcp(c, c.before, c.after, c.rc, c.err) if c.reverse else judge_pdcp(c, c.before, c.after, c.rc, c.err)
        if fails:
            bad_s += 1
            cls = "mode" if "mode " in fails[0] else ("mtime" if "mtime" in fails[0] else ("obstacle" if c.kind == "obstacle" else "content"))
            seen_cls[cls] = seen_cls.get(cls, 0) + 1
            if seen_cls[cls] <= 2 and len(ctx.violations) < 6:
                ctx.violation("input", case=rec_of(c), expected="every target holds a faithful copy of every source (names, structure, bytes%s), nothing else changes, an obstacle is reported and harms nothing else"
                              % (", modes and mtimes" if c.pres else ""), observed="; ".join(fails[:4])[:900], engine="pcp", detail=describe(c) + " | stderr: " + c.err.decode("latin-1")[:300])
            continue
        cm = compare(c, ans)
        if cm:
            bad_c += 1
            if bad_c <= 3:
                ctx.violation("no-failing-input-found", case=rec_of(c), expected="model", observed=cm, engine="pcp",
                              correspondence="pcp: tree left by pdcp/rpdcp on each target = tree left by the extracted client+receiver models", detail=describe(c))
        if len(samples) < 4 and nfiles >= 4:
            samples.append({"command": describe(c)[:200], "entries": nfiles, "exit": c.rc, "stderr": c.err.decode("latin-1")[:120]})
    nfault, fprob = fault_part(ctx, real, quick)
    for case, exp, obs, text in fprob[:3]:
        bad_s += 1
        ctx.violation("input", case=case, expected=exp, observed=obs, engine="pcp", detail=text)
    have_input = any(v["kind"] != "no-failing-input-found" for v in ctx.violations)
    vlib.report_proof_break(ctx, have_input)
    cov = vlib.proof_coverage(ctx, {
        "write_fault_runs": nfault,
        "evaluations": len(cases) * len(HOSTS), "distinct_nontrivial": nontrivial,
        "rule": "generated trees (depth <= 4, fan-out <= 4, sizes 0, 1, 8191, 8192, 8193, 3*8192+5 and random, names with blanks, shell metacharacters, "
                "control and non-ASCII bytes, 255-byte names, record look-alikes, all 12 mode bits on files and directories, distinct mtimes) copied by the "
                "real pdcp (1-3 sources, given as NAME or srcs/NAME, to '.', 'dst', 'dst/deeper', a new or an existing file name) and by rpdcp (one copy per "
                "target named SRC.host) to three targets over the pcptest pipe transport, with/without -r -p, five umasks; targets empty, holding an older "
                "different copy (longer files, other modes, left-over entries), or holding an entry of the wrong kind in the way; every run judged by a "
                "recursive comparison and compared with the extracted models; evaluations = copies made (runs x targets); distinct_nontrivial = runs with "
                ">= 3 source entries",
        "samples": samples, "input_distribution": dist, "corpus_cases": ncorpus, "property_failures": bad_s, "property_failure_classes": seen_cls, "correspondence_disagreements": bad_c,
        "bytes_copied_per_target": nbytes, "st_blksize": blk, "code_under_test": flags})
    return ctx.finish(cov, ["copies run as root: no permission failures (an unreadable source cannot be produced); the obstacle cases stand for 'a file that cannot be written'",
                            "the three targets are directories of one machine reached through tests/test-modules/pcptest.c (sh -c 'cd host; pdcp -z ...'), not through a network transport",
                            "top-level source names and DEST are shell-safe words: pdsh passes them through the remote shell unquoted (not part of this property)",
                            "directory enumeration order, atime, ownership and the modes of copies made WITHOUT -p by rpdcp (umask is changed per thread) are left free",
                            "joined path names stay below MAXPATHLEN; no symbolic links, devices or sockets in the sources (pdcp refuses them)"])


def replay(ctx, path):
    rec = json.load(open(path))
    c = case_of(rec["case"])
    ctx.gen_params()
    real = pcpeng.PcpReal(ctx)
    model = ctx.build_runner("pcp", "pcp_model")
    blk = os.stat(ctx.scratch).st_blksize
    flags = probe_flags(ctx, real)
    answers, raw = execute(ctx, real, model, [c], blk, flags)
    print("replaying:", describe(c))
    print("exit", c.rc, "stderr:", c.err.decode("latin-1")[:400])
    fails = judge_rpdcp(c, c.before, c.after, c.rc, c.err) if c.reverse else judge_pdcp(c, c.before, c.after, c.rc, c.err)
    print("S:", "; ".join(fails) if fails else "holds")
    cm = compare(c, answers[0])
    print("correspondence:", cm or "agrees")
    if fails:
        print("VIOLATION property=%s replay=%s" % (PROP, path))
        return 1
    return 1 if cm else 0
