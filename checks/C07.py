"""C07 - a failing or slow host never harms the others; time-outs bound the run."""
import os, json, time
import vlib, schedeng

PROP = "C07"
T0 = 1000          # the scheduler's initial virtual time()
BEH = {"o": "ok", "r": "refuse", "h": "hang-in-connect", "H": "hang-mid-command"}


def scenario(r):
    n = r.weighted([(1, 1), (2, 3), (3, 5), (4, 4), (5, 3), (6, 2)])
    f = r.range(1, n + 1)
    tconn = r.choice([0, 1, 1, 2, 3, 5])         # 0 = no connect time-out: the command time-out still has to be enforced
    tcmd = r.choice([0, 1, 1, 2, 4])
    hosts, behs = [], ""
    for i in range(n):
        b = r.weighted([("o", 5), ("r", 2), ("h", 2 if tconn > 0 else 0), ("H", 2 if tcmd > 0 else 0)])
        out = err = "-"
        drc = 0
        if b in ("o", "H"):
            lines = [b"o%d-%d\n" % (i, k) for k in range(r.range(0, 3))]
            data = b"".join(lines)
            if b == "H":
                out = ("A" + data.hex() + "/H") if data else "H"
            else:
                kind = r.weighted([("plain", 4), ("nonzero", 2), ("killed", 1), ("early_out", 1), ("early_err", 1)])
                items = []
                if data:
                    cut = r.range(0, len(data))
                    items = ["A" + x.hex() for x in (data[:cut], data[cut:]) if x]
                out = "/".join(items) if items else "-"
                if kind == "nonzero":
                    drc = r.choice([1, 2, 127])
                elif kind == "killed":
                    drc = 128 + 9
                if kind == "early_out":
                    # stdout closes at once, stderr still delivers
                    err = "A" + (b"e%d\n" % i).hex()
                    out = "-"
                    data = b""
                elif kind == "early_err":
                    err = "-"
                elif r.chance(1, 3):
                    err = "A" + (b"e%d\n" % i).hex()
            hosts.append(("h%d" % i, "o", out, err, drc))
        else:
            hosts.append(("h%d" % i, b, "-", "-", 0))
        behs += b
    return n, f, tconn, tcmd, behs, hosts


def expected_out(h):
    """bytes host h is scripted to write on stdout before it ends or hangs"""
    name, c, out, err, drc = h
    def cat(items):
        if items in ("-", None):
            return b""
        return b"".join(bytes.fromhex(x[1:]) for x in items.split("/") if x.startswith("A"))
    return cat(out), cat(err)


def judge(run, n, f, tconn, tcmd, behs, hosts, maximal_progress):
    """S, judged on the observed behaviour of the real program"""
    if run.deadlock:
        return "deadlock: no thread can move and pdsh has not exited"
    if run.code == -999:
        return "run did not finish (wall-clock timeout)"
    if run.steplimit:
        return "pdsh does not terminate (step limit reached) although every hang is covered by a non-zero timeout"
    if run.exit is None:
        return "pdsh did not exit (code %s) %s" % (run.code, run.errtxt[-200:])
    if run.exit_by != "M0":
        return "pdsh was terminated by thread %s with status %s" % (run.exit_by, run.exit)
    if run.peak is not None and run.peak > f:
        return "peak number of connections in flight %d exceeds fanout %d" % (run.peak, f)
    # every target: exactly one command, torn down once
    for i in range(n):
        c, d, k = run.hoststats.get("h%d" % i, (0, 0, 0))
        if c != 1 or d != 1:
            return "target h%d (%s): command started %d times, torn down %d times" % (i, BEH[behs[i]], c, d)
    # which targets were sent the time-out signal (worker name -> target through CONNBEGIN)
    wid_host, timed_out = {}, set()
    for st, k, fl in run.events:
        if k == "CONNBEGIN":
            wid_host[fl[0]] = int(fl[1][1:])
        elif k == "PKILL" and fl[0] == "D0" and fl[2] in wid_host:
            timed_out.add(wid_host[fl[2]])
    # output of every host, per stream, label stripped
    got = {}
    for st, who, stream, data in run.outs:
        if stream == "err" and data.startswith(b"pdsh@"):      # err("%p: %S: ...") - pdsh's own report about a host
            data = data.partition(b": ")[2]
        lab, sep, body = data.partition(b": ")
        if sep and lab.startswith(b"h") and lab[1:].isdigit():
            got.setdefault((lab.decode(), stream), []).append(body)
    for i, h in enumerate(hosts):
        eo, ee = expected_out(h)
        go = b"".join(got.get(("h%d" % i, "out"), []))
        ge = b"".join(got.get(("h%d" % i, "err"), []))
        slow = (not maximal_progress) and i in timed_out     # time passed while it could have run: it IS a slow host
        if behs[i] == "o" and not slow:
            if go != eo:
                return "target h%d (ok): stdout relayed %r, the host wrote %r" % (i, go[:80], eo[:80])
            if ge != ee:
                return "target h%d (ok): stderr relayed %r, the host wrote %r" % (i, ge[:80], ee[:80])
        elif behs[i] == "o":
            # a slow host: it either still completed, or was abandoned and then must be reported
            if not eo.startswith(go):
                return "target h%d (slow): stdout relayed %r, the host wrote %r" % (i, go[:80], eo[:80])
            if go != eo and not ge:
                return "slow target h%d was abandoned without a report on standard error under its own name" % i
        else:
            if not eo.startswith(go) or (behs[i] == "H" and not slow and go != eo):
                return "target h%d (%s): stdout relayed %r, the host wrote %r" % (i, BEH[behs[i]], go[:80], eo[:80])
            if not ge:
                return "failing target h%d (%s) is not reported on standard error under its own name" % (i, BEH[behs[i]])
    last = max([st for st, k, f_ in run.events if k in ("DESTROY", "FPUTS")] + [0])
    if run.exit_step < last:
        return "pdsh exited before the last command finished / its output was delivered"
    # deadlines (virtual seconds), judged when time advances only while every thread is blocked
    if maximal_progress:
        clock = T0
        wid_host, start, conn, killed = {}, {}, {}, {}
        for st, k, fl in run.events:
            if k == "TICK":
                clock = int(fl[0])
            elif k == "START" and fl[0].startswith("W"):
                start[fl[0]] = clock
            elif k == "CONNBEGIN":
                wid_host[fl[0]] = int(fl[1][1:])
            elif k == "CONNECT" and fl[2] == "ok":
                conn[fl[0]] = clock
            elif k == "PKILL" and fl[0] == "D0":
                killed.setdefault(fl[2], clock)
        for w, hi in wid_host.items():
            b = behs[hi]
            if b == "h":
                if w not in killed:
                    return "target h%d hangs in connect and was never abandoned (connect timeout %d)" % (hi, tconn)
                if killed[w] > start[w] + tconn + 2:
                    return "target h%d hanging in connect since t=%d was abandoned at t=%d, later than timeout %d + watchdog period 2" % (hi, start[w], killed[w], tconn)
                if killed[w] <= start[w] + tconn:
                    return "target h%d was abandoned at t=%d, before its connect timeout (%d s from t=%d) expired" % (hi, killed[w], tconn, start[w])
            if b == "H":
                if w not in killed:
                    return "target h%d hangs mid-command and was never abandoned (command timeout %d)" % (hi, tcmd)
                if killed[w] > conn[w] + tcmd + 2:
                    return "target h%d hanging since t=%d was abandoned at t=%d, later than timeout %d + watchdog period 2" % (hi, conn[w], killed[w], tcmd)
                if killed[w] <= conn[w] + tcmd:
                    return "target h%d was abandoned at t=%d, before its command timeout (%d s from t=%d) expired" % (hi, killed[w], tcmd, conn[w])
            if b in ("o", "r") and w in killed:
                return "healthy target h%d was sent the time-out signal" % hi
    return None


# ---------------------------------------------------------------------------------------------
# real transports, real kernel, real time: exec children and an rsh peer on loopback
def _rsh_server(addrs):
    """scripted rsh daemons on <addr>:514 ; mode 'ok' acknowledges and prints a line, 'hang' accepts the
    request but never acknowledges (a host that hangs while connecting)"""
    import socket, threading

    def rdz(c):
        b = b""
        while True:
            x = c.recv(1)
            if not x or x == b"\0":
                return b
            b += x

    def back(addr, port):
        for lp in range(1023, 511, -1):
            s2 = socket.socket()
            s2.setsockopt(socket.SOL_SOCKET, socket.SO_REUSEADDR, 1)
            try:
                s2.bind(("127.0.0.1", lp)); s2.connect((addr, port)); return s2
            except OSError:
                s2.close()
        return None

    def serve(c, peer, mode, name):
        try:
            port = rdz(c)
            e = back(peer[0], int(port)) if port and int(port) > 0 else None
            if mode == "closeearly":
                # the host dies in the middle of the handshake: stderr channel opened, then the connection goes away
                time.sleep(0.05)
                c.close()
                time.sleep(0.5)
                if e:
                    e.close()
                return
            rdz(c); rdz(c); cmdline = rdz(c)
            if mode == "nostatus":
                # accepts the request, then goes away without the one-byte status: the host could not be reached
                if e:
                    e.close()
                c.close()
                return
            if mode.startswith("shell"):
                # a remote shell whose command exits with the given code: it prints pdsh's status line iff the command carries the suffix
                c.sendall(b"\0"); c.sendall(b"out of " + name.encode() + b"\n")
                if b"XXRETCODE:" in cmdline:
                    c.sendall(b"XXRETCODE:" + mode[5:].encode() + b"\n")
                if e:
                    e.close()
                c.close()
                return
            if mode == "hang":
                time.sleep(60)
                return
            c.sendall(b"\0"); c.sendall(b"hello from " + name.encode() + b"\n")
            if mode == "reset":
                # the host dies in the middle of the command: the connection is reset, not closed
                import struct
                time.sleep(0.3)
                c.setsockopt(socket.SOL_SOCKET, socket.SO_LINGER, struct.pack("ii", 1, 0))
                c.close()
                time.sleep(0.5)
                if e:
                    e.close()
                return
            if e:
                e.close()
            c.close()
        except Exception:
            pass

    socks = []
    for addr, mode in addrs:
        l = socket.socket()
        l.setsockopt(socket.SOL_SOCKET, socket.SO_REUSEADDR, 1)
        l.bind((addr, 514)); l.listen(16)
        socks.append(l)

        def loop(l=l, mode=mode, addr=addr):
            while True:
                try:
                    c, peer = l.accept()
                except OSError:
                    return
                threading.Thread(target=serve, args=(c, peer, mode, addr), daemon=True).start()
        threading.Thread(target=loop, daemon=True).start()
    return socks


def real_part(ctx, quick):
    """returns (runs, problems): problems are (case, expected, observed, text)"""
    import realeng
    real = realeng.Real(ctx, tag="real07")
    real.build_module(os.path.join(vlib.REPO, "src/modules/xrcmd.c"), "xrcmd")
    problems, nruns = [], 0
    # R1: exec children; one hung host among many healthy ones, concurrent starts
    for rep in range(3 if quick else 12):
        nh = 41
        hung = {7} if rep % 2 == 0 else {3, 29}
        xfds = 300 if rep % 3 else 0          # two runs in three: every descriptor pdsh opens has a number above 300
        # healthy hosts: a shell that waits for a child of its own before it answers (needs SIGCHLD deliverable in the command)
        script = "case %%h in %s) sleep 30;; *) sleep 0.2 & wait; echo out-%%h;; esac" % "|".join("h%d" % k for k in sorted(hung))
        t0 = time.time()
        rc, o, e = real.run(["-R", "exec", "-f", "32", "-u", "2", "-w", "h[0-%d]" % (nh - 1), "sh", "-c", script], timeout=25, extra_fds=xfds)
        dt = time.time() - t0
        nruns += 1
        case = {"transport": "exec", "hosts": nh, "hung": sorted(hung), "command_timeout": 2, "descriptors_open_at_start": 3 + xfds}
        if rc == -999:
            problems.append((case, "pdsh ends within command timeout + watchdog period", "still running after 25 s", "pdsh did not terminate although the hung hosts are covered by -u 2")); continue
        outl = set(o.decode("latin-1").split("\n"))
        errt = e.decode("latin-1")
        for k in range(nh):
            if k in hung:
                if ("h%d: command timeout" % k) not in errt:
                    problems.append((case, "h%d reported as timed out" % k, errt[-300:], "hung host h%d is not reported on standard error under its own name" % k)); break
            else:
                if ("h%d: out-h%d" % (k, k)) not in outl:
                    problems.append((case, "h%d: out-h%d" % (k, k), (o[-200:] + e[-300:]).decode("latin-1"), "healthy host h%d did not get its output relayed (another host hanging harmed it)" % k)); break
                if ("h%d: command timeout" % k) in errt:
                    problems.append((case, "no report for healthy h%d" % k, errt[-300:], "healthy host h%d was reported as timed out" % k)); break
        if dt > 2 + 2 + 6:
            # wall-clock on a shared machine: believe it only if it repeats
            t1 = time.time()
            real.run(["-R", "exec", "-f", "32", "-u", "2", "-w", "h[0-%d]" % (nh - 1), "sh", "-c", script], timeout=40)
            dt2 = time.time() - t1
            if dt2 > 2 + 2 + 6:
                problems.append((case, "<= 10 s", "%.1f s and %.1f s" % (dt, dt2), "the run took %.1f s (again %.1f s) although the command timeout is 2 s and the watchdog period 2 s" % (dt, dt2)))
    # R1b: hosts that hang after having written particular amounts (a chunk ending exactly at the end of the 64-byte ring, ...)
    pats = ["printf '%039d\\n' 0; sleep 0.3; printf '%025d' 0", "printf '%063d\\n' 0", "printf '%064d' 0; sleep 0.2; printf x",
            "printf '%031d\\n' 0; sleep 0.2; printf '%033d' 0", "printf '%0999d\\n' 0; sleep 0.2; printf y"]
    for rep in range(1 if quick else 4):
        script = "case %h in " + " ".join("h%d) %s; sleep 30;;" % (k, p) for k, p in enumerate(pats)) + " *) echo out-%h;; esac"
        t0 = time.time()
        rc, o, e = real.run(["-R", "exec", "-f", "16", "-u", "2", "-w", "h[0-%d]" % (len(pats) + 2), "sh", "-c", script], timeout=30)
        dt = time.time() - t0
        nruns += 1
        case = {"transport": "exec", "hosts": len(pats) + 3, "hung_after_bytes": [65, 64, 65, 65, 1001], "command_timeout": 2}
        errt = e.decode("latin-1")
        if rc == -999:
            problems.append((case, "pdsh ends within command timeout + watchdog period", "still running after 30 s",
                             "pdsh did not terminate although every hung host is covered by -u 2 (hosts hang after having written 64..1001 bytes)")); continue
        for k in range(len(pats)):
            if ("h%d: command timeout" % k) not in errt:
                problems.append((case, "h%d reported as timed out" % k, errt[-300:], "hung host h%d (hangs after some output) is not reported on standard error" % k)); break
        for k in range(len(pats), len(pats) + 3):
            if ("h%d: out-h%d" % (k, k)) not in o.decode("latin-1"):
                problems.append((case, "h%d: out-h%d" % (k, k), errt[-200:], "healthy host h%d did not get its output relayed" % k)); break
    # R1c: eighty slow hosts in flight at once under a soft descriptor limit of 128 (hard limit high: pdsh raises its own limit):
    #      every host keeps two descriptors while it runs; none may be refused for want of descriptors
    for rep in range(1 if quick else 3):
        import resource, subprocess
        def pre():
            hard = resource.getrlimit(resource.RLIMIT_NOFILE)[1]
            resource.setrlimit(resource.RLIMIT_NOFILE, (128, hard))
        try:
            p = subprocess.run([os.path.join(real.dir, "bin", "pdsh"), "-R", "exec", "-f", "80", "-u", "20", "-w", "h[1-80]", "sh", "-c", "sleep 1; echo out-%h"],
                               env={"PATH": "/usr/bin:/bin", "HOME": "/root", "LANG": "C"}, stdout=subprocess.PIPE, stderr=subprocess.PIPE, timeout=60, preexec_fn=pre)
            rc, o, e = p.returncode, p.stdout, p.stderr
        except subprocess.TimeoutExpired:
            rc, o, e = -999, b"", b""
        nruns += 1
        case = {"transport": "exec", "hosts": 80, "fanout": 80, "soft_descriptor_limit": 128}
        lines = set(o.decode("latin-1").split("\n"))
        lost = [k for k in range(1, 81) if ("h%d: out-h%d" % (k, k)) not in lines]
        if rc == -999 or lost:
            problems.append((case, "output of all 80 hosts", "%d hosts without output (e.g. h%s); stderr %r" % (len(lost), lost[:1], e[-200:]),
                             "%d of 80 healthy hosts did not get their command run (80 slow hosts in flight, soft descriptor limit 128)" % len(lost)))
    # R2: rsh over loopback: one daemon never acknowledges (hang while connecting), connect timeout 1
    try:
        socks = _rsh_server([("127.7.3.1", "ok"), ("127.7.3.2", "hang"), ("127.7.3.3", "ok"), ("127.7.3.4", "reset"), ("127.7.3.5", "closeearly")])
    except OSError as ex:
        ctx.notes.append("rsh loopback part skipped: %s" % ex)
        return nruns, problems
    try:
        for rep in range(1 if quick else 4):
            t0 = time.time()
            rc, o, e = real.run(["-R", "rsh", "-t", "1", "-w", "127.7.3.[1-3]", "true"], timeout=25)
            dt = time.time() - t0
            nruns += 1
            case = {"transport": "rsh", "hosts": ["127.7.3.1 ok", "127.7.3.2 never acknowledges", "127.7.3.3 ok"], "connect_timeout": 1}
            ot, et = o.decode("latin-1"), e.decode("latin-1")
            if rc == -999:
                problems.append((case, "pdsh ends within connect timeout + watchdog period", "still running after 25 s", "a host that hangs while connecting (rsh handshake never acknowledged) is never abandoned: pdsh did not terminate")); continue
            for a in ("127.7.3.1", "127.7.3.3"):
                if ("%s: hello from %s" % (a, a)) not in ot:
                    problems.append((case, "output of %s" % a, (ot + et)[-300:], "healthy host %s did not get its output relayed" % a)); break
            if "127.7.3.2: " not in et:
                problems.append((case, "127.7.3.2 reported", et[-300:], "the host hanging in connect is not reported on standard error under its own name"))
            if dt > 1 + 2 + 6:
                t1 = time.time()
                real.run(["-R", "rsh", "-t", "1", "-w", "127.7.3.[1-3]", "true"], timeout=40)
                dt2 = time.time() - t1
                if dt2 > 1 + 2 + 6:
                    problems.append((case, "<= 9 s", "%.1f s and %.1f s" % (dt, dt2), "the run took %.1f s (again %.1f s) although the connect timeout is 1 s and the watchdog period 2 s" % (dt, dt2)))
        # a host that dies mid-command (connection reset after its first line): reported under its own name, the others unharmed
        for rep in range(2 if quick else 6):
            rc, o, e = real.run(["-R", "rsh", "-t", "3", "-w", "127.7.3.[1,4,3]", "true"], timeout=25)
            nruns += 1
            case = {"transport": "rsh", "hosts": ["127.7.3.1 ok", "127.7.3.4 resets the connection after one line", "127.7.3.3 ok"]}
            ot, et = o.decode("latin-1"), e.decode("latin-1")
            if rc == -999:
                problems.append((case, "pdsh ends", "still running after 25 s", "pdsh did not terminate when a host reset its connection")); continue
            for a in ("127.7.3.1", "127.7.3.3"):
                if ("%s: hello from %s" % (a, a)) not in ot:
                    problems.append((case, "output of %s" % a, (ot + et)[-300:], "healthy host %s did not get its output relayed" % a)); break
            if "127.7.3.4: " not in et:
                problems.append((case, "127.7.3.4 reported", et[-300:], "a host that died mid-command (connection reset) is not reported on standard error under its own name")); break
        # a host that dies during the handshake, contacted first and alone (-f 1): pdsh must survive it, report it and go on
        shim = os.path.join(ctx.scratch, "slowwrite.so")
        brc, _ = vlib.sh(["gcc", "-shared", "-fPIC", "-O1", os.path.join(vlib.VERIF, "harness", "slowwrite.c"), "-ldl", "-o", shim])
        for rep in range(2 if quick else 6):
            # second run: the pieces of pdsh's handshake are 150 ms apart, so the peer goes away between two of them
            env = {"LD_PRELOAD": shim, "SLOWWRITE_MS": "150"} if (rep % 2 == 1 and brc == 0) else {}
            rc, o, e = real.run(["-R", "rsh", "-f", "1", "-t", "3", "-w", "127.7.3.[5,1,3]", "true"], timeout=25, env=env)
            nruns += 1
            case = {"transport": "rsh", "fanout": 1, "hosts": ["127.7.3.5 closes the connection during the handshake", "127.7.3.1 ok", "127.7.3.3 ok"]}
            ot, et = o.decode("latin-1"), e.decode("latin-1")
            if rc == -999:
                problems.append((case, "pdsh ends", "still running after 25 s", "pdsh did not terminate when a host died during the handshake")); continue
            if rc < 0:
                problems.append((case, "pdsh survives, reports 127.7.3.5, runs the others", "pdsh killed by signal %d" % -rc,
                                 "a host dying during the rsh handshake killed the whole run (signal %d): no other host got its command" % -rc)); break
            for a in ("127.7.3.1", "127.7.3.3"):
                if ("%s: hello from %s" % (a, a)) not in ot:
                    problems.append((case, "output of %s" % a, (ot + et)[-300:], "healthy host %s did not get its output relayed" % a)); break
            if "127.7.3.5: " not in et:
                problems.append((case, "127.7.3.5 reported", et[-300:], "a host that died during the handshake is not reported on standard error under its own name")); break
    finally:
        for l in socks:
            try:
                l.close()
            except OSError:
                pass
    return nruns, problems


def run(ctx):
    ctx.gen_params()
    ctx.prove()
    eng = schedeng.Sched(ctx)
    model = ctx.build_runner("sys", "sys_model")
    quick = ctx.tier == "quick"
    r = ctx.rng("faults")
    runs = []
    cdir = os.path.join(vlib.VERIF, "corpus", PROP)
    corpus = []
    if os.path.isdir(cdir):
        for fn in sorted(os.listdir(cdir)):
            if fn.endswith(".json"):
                corpus.append(json.load(open(os.path.join(cdir, fn))))
    for c in corpus:
        hosts = [tuple(h) for h in c["hosts"]]
        ru = eng.run(c["args"], hosts, seed=c.get("seed", 1), spur=c.get("spur", 0), replay=c.get("schedule"), ptick=c.get("ptick", 0))
        runs.append((ru, c["n"], c["f"], c["tconn"], c["tcmd"], c["behs"], hosts, c.get("ptick", 0) == 0))
    nrun = 2500 if quick else 40000
    early_bad = 0
    for k in range(nrun):
        n, f, tconn, tcmd, behs, hosts = scenario(r)
        ptick = r.choice([0, 0, 0, 8])
        spur = r.weighted([(0, 4), (1, 2), (2, 1)])
        args = ["-R", "sim", "-f", str(f), "-t", str(tconn), "-u", str(tcmd), "-w", "h[0-%d]" % (n - 1), "cmd"]
        ru = eng.run(args, hosts, seed=r.next() % (1 << 31), spur=spur, ptick=ptick, pspur=r.choice([10, 40]), env={"SCHED_MAXSTEP": "30000"}, timeout=10)
        runs.append((ru, n, f, tconn, tcmd, behs, hosts, ptick == 0))
        if judge(ru, n, f, tconn, tcmd, behs, hosts, ptick == 0):
            early_bad += 1
            if early_bad >= 5:      # enough failing schedules: stop exploring, report them
                break
    # small scope, exhaustively: every schedule with a bounded number of deviations from the scheduler's base policy
    pbstat = {}
    for (behs, f, tconn, tcmd, depth) in ([("oh", 2, 1, 0, 1), ("Ho", 1, 1, 1, 1), ("ro", 1, 1, 0, 1)] if quick else
                                          [("oh", 2, 1, 0, 2), ("Ho", 1, 1, 1, 2), ("ro", 1, 1, 0, 2), ("hHo", 2, 1, 1, 1), ("ohr", 3, 2, 0, 1)]):
        n = len(behs)
        hosts = []
        for i, b in enumerate(behs):
            if b == "o":
                hosts.append(("h%d" % i, "o", "A" + (b"o%d-0\n" % i).hex(), "-", 0))
            elif b == "H":
                hosts.append(("h%d" % i, "o", "A" + (b"o%d-0\n" % i).hex() + "/H", "-", 0))
            else:
                hosts.append(("h%d" % i, b, "-", "-", 0))
        args = ["-R", "sim", "-f", str(f), "-t", str(tconn), "-u", str(tcmd), "-w", "h[0-%d]" % (n - 1), "cmd"]
        if early_bad >= 5:
            break       # failing schedules in hand already: report them rather than explore further
        pr = schedeng.explore_pb(eng, args, hosts, depth, spur=1, max_runs=2500 if quick else 150000, env={"SCHED_MAXSTEP": "30000"}, timeout=10)
        pbstat["%s f=%d depth=%d" % (behs, f, depth)] = len(pr)
        for ru in pr:
            # a deviation may be a clock tick while threads can move: deadlines are judged on the random maximal-progress runs only
            runs.append((ru, n, f, tconn, tcmd, behs, hosts, False))
    # documented complement: command timeout 0 waits for a host that hangs mid-command
    waits = 0
    for k in range(3 if quick else 20):
        hosts = [("h0", "o", "A" + b"x\n".hex(), "-", 0), ("h1", "o", "H", "-", 0)]
        ru = eng.run(["-R", "sim", "-f", "2", "-t", "1", "-u", "0", "-w", "h[0-1]", "cmd"], hosts, seed=r.next() % (1 << 31), ptick=0,
                     env={"SCHED_MAXSTEP": "3000"})
        if ru.steplimit and ru.hoststats.get("h0", None) is None:
            waits += 1
    cases = []
    for ru, n, f, tconn, tcmd, behs, hosts, mp in runs:
        cases.append("%s %d %d %d %d 0 %s %d %s" % ("sysmp" if mp else "sys", n, f, tconn, tcmd, behs, T0, " ".join(ru.sys_events())))
    ctx.log("%d fault scenarios run through the whole program under the controlled scheduler; validating traces against Dsh/Sys.v" % len(runs))
    acc = ctx.run_lines([model], cases, env={"OCAMLRUNPARAM": "l=4G"}, crash_tag="MODEL-CRASH")
    bad, nacc, samples = 0, 0, []
    nsched = nrej = 0
    dist = {"ok": 0, "refuse": 0, "hang-in-connect": 0, "hang-mid-command": 0, "maximal_progress_runs": 0, "kills": 0}
    for (ru, n, f, tconn, tcmd, behs, hosts, mp), res, case in zip(runs, acc, cases):
        for b in behs:
            dist[BEH[b]] += 1
        dist["maximal_progress_runs"] += 1 if mp else 0
        dist["kills"] += sum(1 for st, k, fl in ru.events if k == "PKILL")
        e = judge(ru, n, f, tconn, tcmd, behs, hosts, mp)
        rec = {"n": n, "f": f, "tconn": tconn, "tcmd": tcmd, "behs": behs, "args": ru.args, "hosts": ru.hosts, "seed": ru.seed, "spur": ru.spur,
               "ptick": 0 if mp else 8, "schedule": [c for c in ru.choices if c != "sig"]}
        if e:
            bad += 1
            nsched += 1
            if nsched <= 5:
              ctx.violation("schedule", case=rec, expected="property holds for every fault assignment and schedule", observed=ru.summary(), engine="sched",
                          detail=e + "; trace tail: " + " | ".join(ru.lines[-14:]))
        elif not res.startswith("ACCEPT"):
            bad += 1
            nrej += 1
            if nrej <= 3:
              ctx.violation("no-failing-input-found", case=rec, expected="trace accepted by Dsh/Sys.v", observed=res, engine="sched",
                          correspondence="sched: event trace of the real program is a run of the timed transition system", detail=res + " ; events: " + case[:1500])
        else:
            nacc += 1
        if len(samples) < 3 and ("h" in behs or "H" in behs) and n >= 3:
            samples.append({"n": n, "fanout": f, "connect_timeout": tconn, "command_timeout": tcmd, "behaviours": [BEH[b] for b in behs],
                            "events": " ".join(ru.sys_events())[:500], "exit": ru.exit})
        if nsched >= 5:
            break
    nreal, rprob = real_part(ctx, quick)
    for case, exp, obs, text in rprob[:3]:
        bad += 1
        ctx.violation("input", case=case, expected=exp, observed=obs, engine="exec/rsh", detail=text)
    have_input = any(v["kind"] != "no-failing-input-found" for v in ctx.violations)
    vlib.report_proof_break(ctx, have_input)
    cov = vlib.proof_coverage(ctx, {
        "real_transport_runs": nreal, "exhaustive_bounded_deviation_schedules": pbstat,
        "evaluations": len(runs), "distinct_nontrivial": len(set(c for c in cases if len(c) > 80)),
        "traces_validated_against_impl": nacc,
        "rule": "runs of the whole pdsh program under the controlled scheduler with a virtual clock and a scripted transport: 1..6 targets, each assigned one of {ok (plain / non-zero status / killed / stdout or stderr closing early), refuse, hang in connect, hang mid-command}, connect timeout 1..5, command timeout 0..4, fanout 1..N+1, seeded random schedules, 0-2 spurious wake-ups; three quarters of the runs let time pass only when every thread is blocked (deadlines are judged there), the rest tick at random points; every trace must be a run of the Coq timed transition system and is judged for isolation, reporting, deadlines and termination; distinct = distinct event trace",
        "samples": samples, "input_distribution": dist, "corpus_cases": len(corpus), "disagreements": bad,
        "command_timeout_0_waits_observed": waits})
    return ctx.finish(cov, ["interleavings at the granularity of the wrapped calls; time is the integer time() of the code, advanced by the scheduler",
                            "a time-out signal takes effect when the worker is inside connect()/poll() (between two polls it is re-sent by the next watchdog round)",
                            "the transport is the scripted module; a remote process that ignores SIGTERM is outside the fault alphabet"])


def replay(ctx, path):
    rec = json.load(open(path))
    c = rec["case"]
    ctx.gen_params()
    eng = schedeng.Sched(ctx)
    ru = eng.run(c["args"], [tuple(h) for h in c["hosts"]], seed=c["seed"], spur=c["spur"], replay=c["schedule"], ptick=c.get("ptick", 0))
    print("\n".join(ru.lines[-60:]))
    print(ru.summary())
    return 0
