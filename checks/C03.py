"""C03 - every target gets exactly one command; pdsh ends when all are done."""
import C04

PROP = "C03"


def run(ctx):
    return C04.run(ctx, prop=PROP, judge=C04.judge_c03,
                   title="each target started exactly once and torn down once, nothing else started, no deadlock, exit only after the last completion and output")


def replay(ctx, path):
    return C04.replay(ctx, path)
