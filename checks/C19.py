"""C19 - dshbak regroups output losslessly; its host headers mean what pdsh means.

Implementation side: the real scripts/dshbak (Perl) of the tree under test, run with no option,
with -c and with -d DIR on generated labelled streams; every header it prints is read back by the
real C host-list parser (hl harness, both bracket passes as pdsh -w does; a sample through the
rebuilt pdsh binary with -Q).  Model side: the extracted Coq model of the script (coq/Dshbak).
Judge: S restated here in Python, independent of both."""
import os, re, json
import vlib, bakeng, realeng
from vlib import hexs, unhex, hexlist, unhexlist
from bakeng import DIV, numkey

PROP = "C19"
F_UNTERM = "C19-unterminated-last-line"
F_BARE = "C19-bare-name-in-range"
LETTERS = b"abcdefghijklmnopqrstuvwxyzABCXYZ"
SPACE = b" \t\n\x0b\x0c\r"

# ------------------------------------------------------------------------------------------
# S, restated: what the report must contain for a stream written as labelled lines


def s_bodies(items, unterminated):
    """items: ('lab', lead, tag, mid, sp, body) | ('junk', text).  tag -> concatenated lines, in input
    order; every line with its newline (dshbak supplies the one a final unterminated line lacks)"""
    exp = {}
    for it in items:
        if it[0] == "lab":
            exp.setdefault(it[2], []).append(it[5] + b"\n")
    return {t: b"".join(ls) for t, ls in exp.items()}, {t: ls for t, ls in exp.items()}


def s_groups(lines_by_tag):
    """-c: tags grouped by identical output (as line lists); list of (sorted tags, body)"""
    g = {}
    for t, ls in lines_by_tag.items():
        g.setdefault(tuple(ls), []).append(t)
    return [(sorted(ts), b"".join(ls)) for ls, ts in g.items()]


def plain_name(n):
    return len(n) > 0 and not any(c in b" \t,[]" for c in n) and len(n) < 1000


def split_like_compress(n):
    """(head, suffix, prefix, number) of a name: suffix = digit-free tail, number = digits before it"""
    m = re.fullmatch(rb"(.*?)([0-9]*)([^0-9]*)", n, re.S)
    return m.group(1) + m.group(2), m.group(3), m.group(1), m.group(2)


def in_domain(hosts):
    """D19 of C19_header_expansion"""
    if len(hosts) != len(set(hosts)) or len(hosts) > 10000:
        return False
    for h in hosts:
        if not plain_name(h):
            return False
        _, _, _, num = split_like_compress(h)
        if num and int(num) >= 10 ** 15:
            return False
        if numkey(h) >= 10 ** 15:
            return False
    return True


def sig_bare(hosts):
    """signature of finding C19-bare-name-in-range: a name without digits T together with <digits>T"""
    hs = set(hosts)
    for h in hosts:
        head, sfx, p, num = split_like_compress(h)
        if p == b"" and num != b"" and sfx in hs and not re.search(rb"[0-9]", sfx):
            return True
    return False


# ------------------------------------------------------------------------------------------
# generators

BOUND = [0, 1, 2, 7, 8, 9, 10, 11, 19, 20, 98, 99, 100, 101, 109, 110, 998, 999, 1000, 1001, 9998, 9999, 10000,
         99999, 100000, 33554431, 33554432, 10 ** 9 - 1, 10 ** 14 - 3, 10 ** 15 - 3]


def gen_prefix(r):
    k = r.weighted([("alpha", 6), ("inner", 2), ("empty", 2), ("dash", 1), ("dot", 1), ("lead", 1), ("hi", 1)])
    a = bytes(r.choice(LETTERS) for _ in range(r.range(1, 4)))
    if k == "alpha":
        return r.choice([b"foo", b"n", b"node", a, a])
    if k == "inner":
        return a + bytes(r.choice(b"0123456789") for _ in range(r.range(1, 2))) + r.choice([b"x", b"-", b"r", b"."])
    if k == "empty":
        return b""
    if k == "dash":
        return a + b"-"
    if k == "dot":
        return a + b"." + a[:1]
    if k == "lead":
        return bytes(r.choice(b"0123456789") for _ in range(r.range(1, 2))) + a
    return a + bytes([r.choice([0xe9, 0x85, 0xa0, 0x7f, 0x01])])


def gen_suffix(r):
    return r.weighted([(b"", 8), (b"-ib", 2), (b"s", 1), (b".x", 1), (b"-", 1), (b"i", 1)])


def gen_family(r, big=False):
    """names with one prefix and one suffix: clusters of consecutive numbers around the boundaries of
    the zero-pad logic, with paddings natural / fixed width / mixed, and padding twins"""
    p, t = gen_prefix(r), gen_suffix(r)
    names = []
    ncl = r.weighted([(1, 5), (2, 4), (3, 2)])
    for _ in range(ncl):
        base = r.choice(BOUND) if r.chance(3, 4) else r.range(0, 130)
        if base >= 10 ** 15 - 10 and not r.chance(1, 3):
            base = r.range(0, 12)
        run = r.weighted([(1, 3), (2, 3), (3, 3), (r.range(4, 8), 2), (r.range(9, 40) if big else 5, 1)])
        lo = max(0, base - r.range(0, run))
        pad = r.weighted([("nat", 5), ("fixed", 4), ("mixed", 2), ("both", 2)])
        w = len(str(lo)) + r.weighted([(0, 2), (1, 4), (2, 2), (5, 1)])
        for n in range(lo, lo + run):
            if pad == "nat":
                ws = [0]
            elif pad == "fixed":
                ws = [w]
            elif pad == "mixed":
                ws = [r.choice([0, w, len(str(n)) + 1])]
            else:
                ws = [0, w]
            for x in ws:
                names.append(p + (b"%0*d" % (x, n)) + t)
    if r.chance(1, 5) and (p + t):
        names.append(p + t)                   # the same name without a number
    if r.chance(1, 8):
        names.append(p + b"0" + t)
    if r.chance(1, 12):
        names.append(p + b"00" + t)
    return names


def gen_hosts(r, big=False):
    names = []
    for _ in range(r.weighted([(1, 5), (2, 4), (3, 2)])):
        names += gen_family(r, big)
    if r.chance(1, 10):
        names.append(b"0")
    if r.chance(1, 12):
        # a digit-free name together with <digits><name> (signature of finding C19-bare-name-in-range)
        t = r.choice([b"a", b"-ib", b"node"])
        names += [t, r.choice([b"1", b"0", b"2", b"07"]) + t]
    out = []
    for n in names:
        if n and n not in out and b":" not in n:
            out.append(n)
    r.shuffle(out)
    cap = 150 if big else 14
    return out[:cap] if out else [b"h1"]


LINES = [b"", b"ok", b" leading blank", b"a: b", b":", b"x:y", b"k:v w", b"-" * 16, b"\ttab", b"load: 0.1, 0.2", b"trail  ",
         b"\r", bytes([0xe9, 0x85, 0xa0, 0x20, 0xff]), b"foo1: nested label", b"  ", b"[1-3]", b"z", b"ok ", b"0", b"y:"]


def gen_bodies(r, k):
    """k distinct line lists; aimed at cmp_list: same length / different content, one a prefix of another,
    same lines in another order"""
    out = []
    base = [r.choice(LINES) for _ in range(r.range(1, 4))]
    out.append(base)
    tries = 0
    while len(out) < k and tries < 50:
        tries += 1
        m = r.weighted([("fresh", 3), ("samelen", 4), ("prefix", 3), ("perm", 2), ("ext", 2)])
        b = list(r.choice(out))
        if m == "fresh":
            b = [r.choice(LINES) for _ in range(r.range(1, 4))]
        elif m == "samelen":
            i = r.below(len(b))
            b[i] = r.choice(LINES)
        elif m == "prefix" and len(b) > 1:
            b = b[:-1]
        elif m == "perm" and len(b) > 1:
            b = b[1:] + b[:1]
        else:
            b = b + [r.choice(LINES)]
        if b not in out:
            out.append(b)
    return out


def render_item(it):
    if it[0] == "junk":
        return it[1] + b"\n"
    _, lead, tag, mid, sp, body = it
    return lead + tag + mid + b":" + sp + body + b"\n"


def gen_stream(r, hosts=None, nbodies=None, plain=False):
    """an interleaving of labelled lines (as pdsh writes them, plus the blanks the script tolerates), junk
    lines without label, bodies shared between hosts; sometimes the last line unterminated"""
    if hosts is None:
        hosts = gen_hosts(r)
    k = nbodies or r.weighted([(1, 3), (2, 4), (3, 3), (min(len(hosts), 5), 1)])
    bodies = gen_bodies(r, k)
    per = []
    for h in hosts:
        b = r.choice(bodies)
        per.append([h, list(b)])
    items = []
    live = [p for p in per if p[1]]
    while live:
        j = r.below(len(live))
        h, rest = live[j]
        body = rest.pop(0)
        lead = b"" if plain or not r.chance(1, 12) else r.choice([b" ", b"\t ", b"  "])
        mid = b"" if plain or not r.chance(1, 12) else r.choice([b" ", b"\t"])
        sp = b" "
        if not plain and not body.startswith(b" ") and r.chance(1, 6):
            sp = b""
        items.append(("lab", lead, h, mid, sp, body))
        if not rest:
            live.pop(j)
        if not plain and r.chance(1, 15):
            items.append(("junk", r.choice([b"", b"   ", b"no label here", b"pdsh@host something failed".replace(b"@", b"_"), b"\t"])))
    stream = b"".join(render_item(i) for i in items)
    unterm = False
    if r.chance(1, 5):
        stream = stream[:-1]
        unterm = True
    return items, stream, unterm


def gen_raw_stream(r):
    """arbitrary text: aimed at the label/body split itself (colons inside and in front of labels, blanks
    of every kind, bytes 0x85/0xa0, no colon, several colons)"""
    alpha = [b"a", b"b1", b":", b" ", b"\t", b"\x0b", b"\x0c", b"\r", b"\xa0", b"\x85", b"::", b": ", b" :", b"x", b"07", b",", b"[", b"-"]
    lines = []
    for _ in range(r.range(1, 8)):
        n = r.range(0, 7)
        lines.append(b"".join(r.choice(alpha) for _ in range(n)))
    s = b"\n".join(lines) + (b"" if r.chance(1, 4) else b"\n")
    return s


def py_regex_bodies(stream):
    """third opinion on a raw stream: Python's regex engine on the script's pattern"""
    exp = {}
    pos = 0
    lines = stream.split(b"\n")
    lines = [l + b"\n" for l in lines[:-1]] + ([lines[-1] + b"\n"] if lines[-1] else [])
    for l in lines:
        m = re.match(rb"^\s*(\S+?)\s*: ?(.*\n)$", l)
        if m and m.group(1):
            exp.setdefault(m.group(1), []).append(m.group(2))
    return {t: b"".join(v) for t, v in exp.items()}, exp


# ------------------------------------------------------------------------------------------
# judging the script's output by S

def walk_blocks(out):
    """yield (header, position after the second divider); None when the text there is not a header"""
    pos = 0
    if not out.startswith(DIV, pos):
        return None
    pos += len(DIV)
    nl = out.find(b"\n", pos)
    if nl < 0:
        return None
    hdr = out[pos:nl]
    pos = nl + 1
    if not out.startswith(DIV, pos):
        return None
    return hdr, pos + len(DIV)


def judge_normal(out, bodies):
    """every label once, under its own name, with exactly its lines.  Returns (problem | None, order)"""
    pos, seen = 0, []
    while pos < len(out):
        w = walk_blocks(out[pos:])
        if w is None:
            return "text at offset %d is neither a header nor part of the preceding host's lines" % pos, seen
        hdr, off = w
        pos += off
        if hdr not in bodies:
            return "header %r is not a label of the input" % hdr, seen
        if hdr in seen:
            return "label %r reported twice" % hdr, seen
        b = bodies[hdr]
        if not out.startswith(b, pos):
            return "lines reported for %r differ from its lines in the input" % hdr, seen
        pos += len(b)
        seen.append(hdr)
    miss = [t for t in bodies if t not in seen]
    if miss:
        return "label(s) %r missing from the report" % miss[:3], seen
    return None, seen


def parse_coalesced(out, groups):
    """split the -c report into blocks, each body being the body of one not yet used group; DFS because a
    body may be the beginning of another one.  Returns list of (header, group index) or None"""
    import sys
    sys.setrecursionlimit(10000)

    def rec(pos, used):
        if pos == len(out):
            return [] if len(used) == len(groups) else None
        w = walk_blocks(out[pos:])
        if w is None:
            return None
        hdr, off = w
        p2 = pos + off
        for gi, (_, body) in enumerate(groups):
            if gi not in used and out.startswith(body, p2):
                rest = rec(p2 + len(body), used | {gi})
                if rest is not None:
                    return [(hdr, gi)] + rest
        return None
    return rec(0, frozenset())


def match_header(hdr, groups):
    """is hdr the comma-join of the model's per-suffix word groups in some order?"""
    texts = [b",".join(ws) for _, ws in groups if ws]

    def rec(pos, used):
        if len(used) == len(texts):
            return pos == len(hdr) + 1
        for i, t in enumerate(texts):
            if i not in used and hdr.startswith(t, pos) and (pos + len(t) == len(hdr) or hdr[pos + len(t):pos + len(t) + 1] == b","):
                if rec(pos + len(t) + 1, used | {i}):
                    return True
        return False
    return rec(0, frozenset())


def parse_model_groups(s):
    if s == ".":
        return []
    out = []
    for g in s.split("|"):
        sfx, ws = g.split("=")
        out.append((unhex(sfx), unhexlist(ws)))
    return out


# ------------------------------------------------------------------------------------------

class Run:
    def __init__(self, ctx):
        self.ctx = ctx
        self.bad = 0
        self.fam = {}
        self.stats = {"streams": 0, "raw_streams": 0, "header_sets": 0, "runs_normal": 0, "runs_c": 0, "runs_d": 0, "headers_expanded": 0,
                      "headers_with_range": 0, "headers_in_domain": 0, "blocks_merged": 0, "unterminated_last": 0, "pdsh_Q": 0,
                      "unmodelled": 0, "hosts_max": 0}
        self.samples = []
        self.evals = 0
        self.distinct = set()

    def report(self, kind, case, expected, observed, detail, known=None, corr=None):
        ctx = self.ctx
        if known and ctx.is_known(known):
            ctx.known_finding(known, detail[:200])
            return
        self.bad += 1
        fam = known or kind
        self.fam[fam] = self.fam.get(fam, 0) + 1
        if self.fam[fam] > 4:
            return
        if kind == "input":
            ctx.violation("input", case=case, expected=expected, observed=observed, engine="dshbak", detail=detail)
        else:
            ctx.violation("no-failing-input-found", case=case, expected=expected, observed=observed, engine="dshbak",
                          correspondence=corr, detail=detail)


def case_of(mode, stream, extra=None):
    c = {"mode": mode, "stream": hexs(stream)}
    if extra:
        c.update(extra)
    return c


def check_cases(R, eng, cases):
    """cases: list of dict(stream, bodies (tag->bytes) , lines (tag->list), judge, unterm, modes, hosts_domain)"""
    ctx = R.ctx
    jobs = []
    for ci, c in enumerate(cases):
        for m in c["modes"]:
            jobs.append((ci, m))
    res = eng.run_script_many([(m, cases[ci]["stream"]) for ci, m in jobs])
    # ---- pass 1: judge by S; collect model cases and headers to expand ----
    mcases, mmeta = [], []
    hdr_jobs = []          # (header, sorted hosts, case, in_domain)
    for (ci, m), o in zip(jobs, res):
        c = cases[ci]
        stream = c["stream"]
        R.evals += 1
        R.distinct.add((m, stream))
        tags = list(c["bodies"].keys())
        known = None
        if c["unterm"] and c.get("last_labelled"):
            known = F_UNTERM
        cj = case_of(m, stream)
        if o["rc"] != 0 or o["err"]:
            R.report("input", cj, "exit 0, nothing on stderr", "rc=%s stderr=%r" % (o["rc"], o["err"][:200]),
                     "dshbak %s failed on a well-formed stream (%s)" % (m, c["desc"]), known=known)
            continue
        if m == "normal":
            R.stats["runs_normal"] += 1
            prob, order = judge_normal(o["out"], c["bodies"])
            if prob:
                R.report("input", cj, "one block per label with exactly its lines in input order (%s)" % c["judge"],
                         o["out"][:400].decode("latin-1"), prob + " [" + c["desc"] + "]", known=known)
                continue
            mcases.append("normal %s %s" % (hexs(stream), hexlist(order)))
            mmeta.append((ci, m, o, order))
        elif m in ("files", "files-f"):
            R.stats["runs_d"] += 1
            fl = o["files"]
            prob = None
            if o["out"]:
                prob = "-d wrote to stdout"
            elif set(fl.keys()) != set(tags):
                prob = "files %r, labels %r" % (sorted(fl.keys())[:6], sorted(tags)[:6])
            else:
                for t in tags:
                    if fl[t] != c["bodies"][t]:
                        prob = "file %r does not hold exactly the lines of %r in input order" % (t, t)
                        break
            if prob:
                R.report("input", cj, "one file per label holding its lines (%s)" % c["judge"], str(sorted((k, v) for k, v in fl.items()))[:400],
                         prob + " [" + c["desc"] + "]", known=known)
                continue
            mcases.append("files %s ." % hexs(stream))
            mmeta.append((ci, m, o, None))
        else:
            R.stats["runs_c"] += 1
            groups = s_groups(c["lines"])
            parsed = parse_coalesced(o["out"], groups)
            if parsed is None:
                R.report("input", cj, "one block per distinct output, each output printed once (%d distinct)" % len(groups),
                         o["out"][:600].decode("latin-1"),
                         "the -c report is not a sequence of blocks, one per distinct output [" + c["desc"] + "]", known=known)
                continue
            oracle = []
            for hdr, gi in parsed:
                hs = groups[gi][0]
                if len(hs) > 1:
                    R.stats["blocks_merged"] += 1
                oracle += sorted(hs, key=numkey)
                dom = in_domain(hs)
                hdr_jobs.append((hdr, hs, cj, dom, c["desc"], ci, known))
            mcases.append("coalesce %s %s" % (hexs(stream), hexlist(oracle)))
            mmeta.append((ci, m, o, (parsed, groups)))
    # ---- headers through the C parser ----
    exp = eng.expand([j[0] for j in hdr_jobs])
    good_headers = []
    sfail = set()
    for (hdr, hs, cj, dom, desc, ci, known), names in zip(hdr_jobs, exp):
        R.stats["headers_expanded"] += 1
        R.stats["hosts_max"] = max(R.stats["hosts_max"], len(hs))
        if b"[" in hdr:
            R.stats["headers_with_range"] += 1
        if not dom:
            continue
        R.stats["headers_in_domain"] += 1
        if names is None or sorted(names) != sorted(hs):
            R.report("input", dict(cj, header=hexs(hdr), hosts=hexlist(hs)), "header expands to exactly %r" % [h.decode("latin-1") for h in hs[:12]],
                     "header %r -> %s" % (hdr.decode("latin-1"), "rejected by the host-list parser" if names is None else [n.decode("latin-1") for n in names[:14]]),
                     "header %r, read as a pdsh host expression, does not expand to the hosts whose output it heads [%s]" % (hdr.decode("latin-1"), desc),
                     known=known or (F_BARE if sig_bare(hs) else None))
            sfail.add(ci)
        else:
            good_headers.append((hdr, hs))
            if len(R.samples) < 4 and b"[" in hdr and len(hs) > 2:
                R.samples.append({"hosts": [h.decode("latin-1") for h in hs[:10]], "header": hdr.decode("latin-1"), "expands_to_hosts": True})
    # ---- model ----
    mo = eng.run_model(mcases)
    for mc, (ci, m, o, aux), mr in zip(mcases, mmeta, mo):
        c = cases[ci]
        cj = case_of(m, c["stream"])
        if mr == "UNMODELLED":
            R.stats["unmodelled"] += 1
            continue
        if m == "coalesce" and ci in sfail:
            continue          # the property itself failed on this case (reported above)
        skip = (c["unterm"] and c.get("last_labelled") and ctx.is_known(F_UNTERM))
        if mr is None or not mr.startswith("OK"):
            R.report("corr", cj, "model result", str(mr)[:200], "model failed on the case", corr="dshbak: model runs")
            continue
        if m == "normal":
            if unhex(mr[3:]) != o["out"]:
                R.report("corr", cj, unhex(mr[3:])[:400].decode("latin-1"), o["out"][:400].decode("latin-1"),
                         "report of the script differs from the model's (given the script's own order of equal-numbered labels) [" + c["desc"] + "]",
                         corr="dshbak: stdout(script) = render_blocks (blocks_normal oL s)")
        elif m in ("files", "files-f"):
            mf = {}
            if mr[3:] != ".":
                for kv in mr[3:].split(","):
                    k, v = kv.split("=")
                    mf[unhex(k)] = unhex(v)
            if mf != o["files"]:
                R.report("corr", cj, str(sorted(mf.items()))[:400], str(sorted(o["files"].items()))[:400],
                         "files of the script differ from the model's [" + c["desc"] + "]", corr="dshbak: -d files(script) = files oL s")
        else:
            parsed, groups = aux
            blocks = [] if mr[3:] == "." else mr[3:].split(";")
            prob = None
            if len(blocks) != len(parsed):
                prob = "model has %d blocks, script %d" % (len(blocks), len(parsed))
            else:
                for b, (hdr, gi) in zip(blocks, parsed):
                    tg, gr, body = b.split("/")
                    mg = parse_model_groups(gr)
                    if sorted(unhexlist(tg)) != sorted(groups[gi][0]) or unhex(body) != groups[gi][1]:
                        prob = "block order or membership differs: model block %r, script block %r" % (unhexlist(tg)[:6], groups[gi][0][:6])
                        break
                    if not match_header(hdr, mg):
                        prob = "header text differs: script %r, model groups %r" % (hdr, mg)
                        break
            if prob and not skip:
                R.report("corr", cj, mr[:400], o["out"][:400].decode("latin-1"), prob + " [" + c["desc"] + "]",
                         corr="dshbak: -c report(script) = blocks_coalesce oL oS s for the observed hash orders")
    return good_headers


def make_case(r, kind):
    if kind == "raw":
        s = gen_raw_stream(r)
        bodies, lines = py_regex_bodies(s if s.endswith(b"\n") or not s else s + b"\n")
        # for a raw stream the last line, if unterminated, counts with the newline supplied
        unterm = bool(s) and not s.endswith(b"\n")
        last_lab = False
        if unterm:
            last = s.split(b"\n")[-1] + b"\n"
            last_lab = re.match(rb"^\s*(\S+?)\s*: ?(.*\n)$", last) is not None
        safe = all(b"/" not in t and b"\0" not in t and t not in (b".", b"..") and len(t) < 200 for t in bodies)
        modes = ["normal", "coalesce"] + (["files"] if safe else [])
        return {"stream": s, "bodies": bodies, "lines": lines, "judge": "python-re on the script's pattern", "unterm": unterm,
                "last_labelled": last_lab, "modes": modes, "desc": "raw text stream"}
    big = kind == "big"
    if kind == "long":
        # one long run of unpadded numbers across two changes of digit count (8..100, 95..1003): the header is a single range
        # whose hosts pdsh's second pass over the target list prints one at a time
        p = gen_prefix(r) or b"n"
        lo, hi = r.choice([(8, 100), (1, 100), (95, 1003), (9, 101), (98, 1000), (7, 12)])
        hosts = [p + b"%d" % n for n in range(lo, hi + 1)]
        r.shuffle(hosts)
        items, s, unterm = gen_stream(r, hosts, nbodies=1, plain=True)
        modes = ["coalesce"]
        desc = "one output for the %d hosts %d..%d" % (len(hosts), lo, hi)
    elif kind in ("hdr", "big"):
        hosts = gen_hosts(r, big)
        items, s, unterm = gen_stream(r, hosts, nbodies=1, plain=True)
        modes = ["coalesce"]
        desc = "one output for %d hosts" % len(hosts)
    else:
        items, s, unterm = gen_stream(r)
        modes = ["normal", "coalesce", r.choice(["files", "files-f"])]
        desc = "interleaved stream"
    bodies, lines = s_bodies(items, unterm)
    if any(b"/" in t or b"\0" in t for t in bodies):
        modes = [m for m in modes if not m.startswith("files")]
    last_lab = bool(items) and items[-1][0] == "lab"
    return {"stream": s, "bodies": bodies, "lines": lines, "judge": "S restated: lines of each label in input order", "unterm": unterm,
            "last_labelled": last_lab, "modes": modes, "desc": desc + (", last line unterminated" if unterm else "")}


UNIVERSE = [b"n", b"n0", b"n00", b"n1", b"n01", b"n8", b"n9", b"n09", b"n009", b"n10", b"n010", b"n11", b"n011", b"n99", b"n099",
            b"n100", b"n0100", b"n101"]


def exhaustive_cases(maxk):
    """every subset of up to maxk names of a small universe around the 9/10 and 99/100 boundaries with all paddings"""
    import itertools
    out = []
    for k in range(1, maxk + 1):
        for sub in itertools.combinations(UNIVERSE, k):
            hosts = list(sub)
            s = b"".join(h + b": x\n" for h in hosts)
            items = [("lab", b"", h, b"", b" ", b"x") for h in hosts]
            bodies, lines = s_bodies(items, False)
            out.append({"stream": s, "bodies": bodies, "lines": lines, "judge": "S restated", "unterm": False, "last_labelled": True,
                        "modes": ["coalesce"], "desc": "exhaustive subset of the boundary universe"})
    return out


def corpus_cases():
    out = []
    cdir = os.path.join(vlib.VERIF, "corpus", PROP)
    if os.path.isdir(cdir) and not os.environ.get("VERIF_NO_CORPUS"):
        for fn in sorted(os.listdir(cdir)):
            if fn.endswith(".json"):
                rec = json.load(open(os.path.join(cdir, fn)))
                out.append(case_from_record(rec, "corpus " + fn))
    return out


def case_from_record(rec, desc):
    """a recorded case: the stream is re-read with labels 'tag: body' as pdsh writes them"""
    s = unhex(rec["stream"])
    t = s if (s.endswith(b"\n") or not s) else s + b"\n"
    items = []
    for l in t.split(b"\n")[:-1]:
        m = re.match(rb"^\s*(\S+?)\s*: ?(.*)$", l, re.S)
        if m:
            items.append(("lab", b"", m.group(1), b"", b" ", m.group(2)))
    bodies, lines = s_bodies(items, False)
    unterm = bool(s) and not s.endswith(b"\n")
    modes = rec.get("modes") or [rec.get("mode") or "coalesce"]
    return {"stream": s, "bodies": bodies, "lines": lines, "judge": "S restated (recorded case)", "unterm": unterm,
            "last_labelled": unterm and bool(items), "modes": modes, "desc": desc}


def run(ctx):
    ctx.gen_params()
    ctx.prove()
    eng = bakeng.Bak(ctx)
    quick = ctx.tier == "quick"
    R = Run(ctx)
    r = ctx.rng("streams")
    n_stream, n_raw, n_hdr, n_big = (260, 200, 1400, 40) if quick else (6000, 5000, 40000, 1200)
    cases = corpus_cases()
    ncorpus = len(cases)
    plan = [("stream", n_stream), ("raw", n_raw), ("hdr", n_hdr), ("big", n_big), ("long", 6 if quick else 60)]
    for kind, n in plan:
        for _ in range(n):
            c = make_case(r, kind)
            cases.append(c)
            R.stats["streams" if kind == "stream" else "raw_streams" if kind == "raw" else "header_sets"] += 1
            if c["unterm"] and c["last_labelled"]:
                R.stats["unterminated_last"] += 1
    exh = exhaustive_cases(3 if quick else 5)
    cases += exh
    R.stats["exhaustive_subsets"] = len(exh)
    ctx.log("%d cases (%d from corpus, %d exhaustive subsets)" % (len(cases), ncorpus, len(exh)))
    good = []
    CH = 1500
    for i in range(0, len(cases), CH):
        good += check_cases(R, eng, cases[i:i + CH])
        if R.bad > 40:
            break
    ctx.log("script runs: %d, headers read back: %d" % (R.evals, R.stats["headers_expanded"]))
    # ---- the statement of C19_header_expansion evaluated on the model (C parser's model on the model's header) ----
    hs_sample = [hs for _, hs in good if len(hs) <= 40][: (300 if quick else 4000)]
    mo = eng.run_model(["expand %s ." % hexlist(sorted(hs)) for hs in hs_sample])
    for hs, mr in zip(hs_sample, mo):
        names = unhexlist(mr[3:]) if mr and mr.startswith("OK") else None
        if names is None or sorted(names) != sorted(hs):
            R.report("corr", {"mode": "expand", "hosts": hexlist(hs)}, "hosts", str(mr)[:300],
                     "model: targets (compress hosts) is not the host set (theorem C19_header_expansion evaluated)",
                     corr="dshbak: Coq composition compress;targets")
    # ---- a sample of headers through the rebuilt pdsh binary ----
    safe = [(h, hs) for h, hs in good if re.fullmatch(rb"[A-Za-z0-9._\[\],-]+", h) and not h.startswith(b"-") and b",-" not in h and len(hs) <= 60]
    nq = 40 if quick else 400
    if safe:
        real = realeng.Real(ctx, tag="real19")
        step = max(1, len(safe) // nq)
        for h, hs in safe[::step][:nq]:
            rc, so, se = real.run(["-Q", "-w", h.decode("latin-1")])
            names = bakeng.parse_q(so) if rc == 0 else None
            R.stats["pdsh_Q"] += 1
            if names is None or sorted(names) != sorted(hs):
                R.report("input", {"mode": "pdsh-Q", "header": hexs(h), "hosts": hexlist(hs)}, "pdsh -Q -w HEADER lists exactly the hosts",
                         "rc=%s %r %r" % (rc, (names or [])[:12], se[:200]), "pdsh -Q -w %r does not list the hosts whose output the header heads" % h)
    have_input = any(v["kind"] != "no-failing-input-found" for v in ctx.violations)
    vlib.report_proof_break(ctx, have_input)
    cov = vlib.proof_coverage(ctx, {
        "evaluations": R.evals, "distinct_nontrivial": len(R.distinct),
        "rule": "one evaluation = one run of the real scripts/dshbak (no option / -c / -d DIR or -f -d DIR) on a generated stream; distinct = distinct (mode, stream). "
                "Streams: interleavings of labelled lines from generated host sets (zero-pad twins, 9/10, 099/100, 0999/1000 boundaries, name 0, numeric-only names, "
                "suffix after the number, digits inside prefixes, a name with and without number), bodies with empty lines, colons, leading blanks, divider look-alikes, "
                "outputs shared between hosts (same length / prefix / permuted variants), junk lines, last line with and without newline; raw text streams for the label/body split. "
                "Every report is judged by S restated in Python; every -c header is read back by the C host-list parser (both bracket passes) and must expand to exactly its group; "
                "the extracted model is compared on the same cases with the script's observed hash orders as oracle. "
                "Exhaustive part: every subset of up to 3 (quick) / 5 (thorough) names of an 18-name universe n, n0, n00, n1, n01, n8, n9, n09, n009, n10, n010, ... n0100, n101.",
        "samples": R.samples, "input_distribution": R.stats, "corpus_cases": ncorpus, "disagreements": R.bad})
    return ctx.finish(cov, [
        "Perl's regex engine, hashes, sort and number conversion are modelled by a hand transcription (coq/Dshbak/Dshbak.v) tied to the script only by this correspondence run",
        "hash iteration order is an oracle input of the model; theorems hold for every order",
        "numeric parts of names below 10^15 (beyond: model answers Unmodelled)",
        "C19_header_expansion composes the model of the script with the model of the C parser (C01); the C side is tied by C01's own correspondence run and by reading every header back with the real parser here"])


def replay(ctx, path):
    rec = json.load(open(path))
    ctx.gen_params()
    eng = bakeng.Bak(ctx)
    c = rec["case"]
    print("expected :", rec.get("expected"))
    if c.get("mode") in ("expand", "pdsh-Q"):
        hosts = unhexlist(c["hosts"])
        stream = b"".join(h + b": x\n" for h in hosts)
        mode = "coalesce"
    else:
        stream, mode = unhex(c["stream"]), c["mode"]
    o = eng.run_script(mode, stream)
    print("stream   :", stream[:400])
    print("script   : rc=%s" % o["rc"], (o["out"] or b"")[:600], o["files"] if o["files"] is not None else "")
    if mode == "coalesce":
        pos, hdrs = 0, []
        for m in re.finditer(rb"(?:^|\n)-{16}\n([^\n]*)\n-{16}\n", o["out"]):
            hdrs.append(m.group(1))
        for h, names in zip(hdrs, eng.expand(hdrs)):
            print("header   : %r -> %s" % (h, names))
    op = {"normal": "normal", "coalesce": "coalesce", "files": "files", "files-f": "files"}[mode]
    print("model    :", eng.run_model(["%s %s ." % (op, hexs(stream))])[0][:600])
    return 0
