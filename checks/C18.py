"""C18 - settings obey command line > environment > default; bad values are refused."""
import os, json, re
import vlib, realeng
from vlib import hexs, unhex

PROP = "C18"
NUMS = [b"", b"0", b"1", b"2", b"7", b"32", b"-1", b"-3", b"+5", b" 7", b"7 ", b"7x", b"x", b"1e3", b"0x10", b"2147483647", b"2147483648",
        b"4294967295", b"4294967296", b"4294967297", b"99999999999", b"18446744073709551615", b"18446744073709551616", b"99999999999999999999999", b"007", b"1.5"]
GOOD = [b"1", b"2", b"5", b"17", b"64", b"300"]
USERS = [b"root", b"alice", b"u" * 16, b"u" * 255, b"u" * 256, b"u" * 257, b"u" * 400]
RCMDS = [b"exec", b"exec", b"exec", b"nosuch", b"rsh", b"ex", b"e", b"", b"execx", b"EXEC"]   # only "exec" is loaded; prefixes of it are unknown names
ENVN = ["FANOUT", "PDSH_CONNECT_TIMEOUT", "PDSH_COMMAND_TIMEOUT", "PDSH_RCMD_TYPE", "PDSH_MISC_MODULES", "PDSH_REMOTE_PDCP_PATH"]


def s_spec(pcp, env, opts, login, selfpath):
    """S: per setting, command line (last occurrence) > environment > default; then validity.
    Returns ('RUN', dict) or ('REFUSED',)"""
    def last(letter):
        v = None
        for l, x in opts:
            if l == letter:
                v = x
        return v

    def strict(b):
        # a decimal integer 0..INT_MAX, optional sign/leading blanks as strtoul takes them
        m = re.fullmatch(rb"[ \t\n\v\f\r]*([+-]?)([0-9]+)", b)
        if not m:
            return None
        v = int(m.group(2))
        if m.group(1) == b"-":
            return 0 if v == 0 else None
        return v if v <= 2147483647 else None

    def lenient(b):
        m = re.match(rb"[ \t\n\v\f\r]*([+-]?)([0-9]*)", b)
        v = int(m.group(2) or b"0")
        return -v if m.group(1) == b"-" else v
    out = {}
    # numeric environment values are parsed even if overridden later: a malformed one is refused
    envvals = {}
    for k in ("FANOUT", "PDSH_CONNECT_TIMEOUT", "PDSH_COMMAND_TIMEOUT"):
        if env.get(k) is not None:
            envvals[k] = strict(env[k])
            if envvals[k] is None:
                return ("REFUSED",)
    f = last("f")
    if f is not None:
        out["fanout"] = strict(f)
        if out["fanout"] is None:
            return ("REFUSED",)
    else:
        out["fanout"] = envvals.get("FANOUT", 32)
    for l in [x for lt, x in opts if lt == "f"]:
        if strict(l) is None:
            return ("REFUSED",)
    t = last("t")
    out["ct"] = lenient(t) if t is not None else envvals.get("PDSH_CONNECT_TIMEOUT", 10)
    u = last("u")
    out["ut"] = lenient(u) if u is not None else envvals.get("PDSH_COMMAND_TIMEOUT", 0)
    for lt, x in opts:
        if x is None:
            continue
        if lt == "l" and len(x) > 256:
            return ("REFUSED",)
        if lt == "e" and not pcp:
            return ("REFUSED",)
    out["ruser"] = last("l") if last("l") is not None else login
    R = last("R")
    out["rcmd"] = R if R is not None else (env.get("PDSH_RCMD_TYPE") if env.get("PDSH_RCMD_TYPE") is not None else b"exec")
    M = last("M")
    out["misc"] = M if M is not None else env.get("PDSH_MISC_MODULES")
    e = last("e")
    out["rpath"] = e if e is not None else (env.get("PDSH_REMOTE_PDCP_PATH") if (pcp and env.get("PDSH_REMOTE_PDCP_PATH") is not None) else selfpath)
    if out["rcmd"] != b"exec" or out["fanout"] < 1 or out["ct"] < 0 or out["ut"] < 0:
        return ("REFUSED",)
    return ("RUN", out)


def active_misc(text):
    """which of the conflicting test modules misc/A, misc/B is reported active by -L"""
    mod, act = None, None
    for line in text.split(b"\n"):
        k, _, v = line.partition(b":")
        if k.strip() == b"Module":
            mod = v.strip()
        elif k.strip() == b"Active" and mod in (b"misc/A", b"misc/B") and v.strip() == b"yes":
            act = mod[-1:]
    return act


def parse_q(o):
    d = {}
    for line in o.split(b"\n"):
        for key, name in ((b"Fanout", "fanout"), (b"Connect timeout (secs)", "ct"), (b"Command timeout (secs)", "ut"), (b"Remote username", "ruser"),
                          (b"Rcmd type", "rcmd"), (b"Remote program path", "rpath")):
            if line.startswith(key + b"\t") or line.startswith(key + b" "):
                d[name] = line[len(key):].strip()
    return d


def gen_case(r):
    pcp = r.chance(1, 4)
    env = {}
    for k in ENVN:
        if r.chance(1, 3):
            if k in ("FANOUT", "PDSH_CONNECT_TIMEOUT", "PDSH_COMMAND_TIMEOUT"):
                env[k] = r.choice(GOOD) if r.chance(2, 3) else r.choice(NUMS)
            elif k == "PDSH_RCMD_TYPE":
                env[k] = r.choice(RCMDS)
            elif k == "PDSH_MISC_MODULES":
                env[k] = r.choice([b"A", b"B", b"B,A"])
            else:
                env[k] = r.choice([b"/opt/pdcp", b"/x y/pdcp"])
    opts = []
    for _ in range(r.weighted([(0, 2), (1, 4), (2, 4), (3, 3), (4, 2)])):
        l = r.choice("ftulRMe" if pcp else "ftulRM" + ("e" if r.chance(1, 20) else "f"))
        if l == "f":
            v = r.choice(GOOD) if r.chance(1, 2) else r.choice(NUMS)
        elif l in "tu":
            v = r.choice(GOOD + [b"0", b"-1", b"-5", b"abc", b"5x", b"", b" 3"])
        elif l == "l":
            v = r.choice(USERS)
        elif l == "R":
            v = r.choice(RCMDS)
        elif l == "M":
            v = r.choice([b"A", b"B", b"B", b"A,B"])
        else:
            v = r.choice([b"/usr/bin/pdcp", b"rel/pdcp"])
        opts.append((l, v))
    if not pcp and r.chance(1, 4):
        # an option that only a (not yet loaded) module knows, anywhere on the command line: -a of the test modules A and B
        opts.insert(r.below(len(opts) + 1), ("a", None))
    return pcp, env, opts


def run(ctx):
    ctx.gen_params()
    ctx.prove()
    tm = os.path.join(vlib.REPO, "tests", "test-modules")
    # the suite's two conflicting misc modules A and B (same option): which one is active shows the module selection in effect
    real = realeng.Real(ctx, null_exec=True, extra_mods=[(os.path.join(tm, "a.c"), "a"), (os.path.join(tm, "b.c"), "b")])
    model = ctx.build_runner("args", "args_model")
    quick = ctx.tier == "quick"
    r = ctx.rng("settings")
    login = b"root"
    cases = []
    cdir = os.path.join(vlib.VERIF, "corpus", PROP)
    if os.path.isdir(cdir):
        for fn in sorted(os.listdir(cdir)):
            if fn.endswith(".json"):
                c = json.load(open(os.path.join(cdir, fn)))
                cases.append((c["pcp"], {k: v.encode("latin-1") for k, v in c["env"].items()}, [(l, None if v is None else v.encode("latin-1")) for l, v in c["opts"]]))
    ncorpus = len(cases)
    for _ in range(500 if quick else 12000):
        cases.append(gen_case(r))
    ctx.log("running %d command lines" % len(cases))
    mcases, observed = [], []
    dist = {"refused": 0, "run": 0, "hang": 0}
    for pcp, env, opts in cases:
        prog = "pdcp" if pcp else "pdsh"
        selfpath = os.path.join(real.dir, "bin", prog).encode()
        args = []
        for l, v in opts:
            args += ["-" + l] if v is None else ["-" + l, v]
        # the target word comes last, or first and names the (valid) transport itself: a transport already in use must not make
        # a later unknown name acceptable
        wfirst = (len(args) + len(env)) % 3 == 0
        args = (["-w", "exec:h1"] + args + ["-q"] if wfirst else args + ["-q", "-w", "h1"]) + (["/etc/hostname", "/tmp"] if pcp else [])
        e = {k: v for k, v in env.items()}
        rc, o, er = real.run(args, prog=prog, env=e, timeout=15)
        if rc == -999:
            obs = ("HANG",)
            dist["hang"] += 1
        elif rc == 0:
            obs = ("RUN", parse_q(o))
            dist["run"] += 1
        else:
            obs = ("REFUSED", rc, er[-200:])
            dist["refused"] += 1
        if obs[0] == "RUN" and not pcp:
            rc2, o2, er2 = real.run([a for a in args if a != "-q"] + ["-L"], prog=prog, env=e, timeout=15)
            obs[1]["active_misc"] = active_misc(o2 + er2)
        observed.append(obs)
        envf = [hexs(env[k]) if k in env and env[k] != b"" else ("_" if k not in env else "-") for k in ENVN]
        mcases.append("set %d %s 256 %s %s %s %s %s" % (1 if pcp else 0, hexs(login), hexs(b"exec"), hexs(b"exec"), hexs(selfpath), " ".join(envf),
                                                       " ".join("%s:%s" % (l, hexs(v)) for l, v in opts if v is not None)))
    mres = ctx.run_lines([model], mcases, env={"OCAMLRUNPARAM": "l=4G"}, crash_tag="MODEL-CRASH")
    bad, samples = 0, []
    for (pcp, env, opts), obs, mc, mr in zip(cases, observed, mcases, mres):
        prog = "pdcp" if pcp else "pdsh"
        selfpath = os.path.join(real.dir, "bin", prog).encode()
        spec = s_spec(pcp, env, opts, login, selfpath)
        desc = "%s env=%r opts=%r" % (prog, env, [(l, None if v is None else v[:30]) for l, v in opts])
        problem = None
        if obs[0] == "HANG":
            problem = ("input", "pdsh hangs instead of refusing or running")
        elif spec[0] == "REFUSED" and obs[0] != "REFUSED":
            problem = ("input", "a value that cannot work was accepted: " + repr(obs[1]))
        elif spec[0] == "RUN" and obs[0] == "REFUSED":
            problem = ("input", "valid settings were refused: " + repr(obs[2]))
        elif spec[0] == "RUN":
            s, o = spec[1], obs[1]
            exp = {"fanout": b"%d" % s["fanout"], "ct": b"%d" % s["ct"], "ut": b"%d" % s["ut"], "ruser": s["ruser"], "rcmd": s["rcmd"], "rpath": s["rpath"]}
            for k, v in exp.items():
                if o.get(k) != v:
                    problem = ("input", "setting %s is %r, precedence (command line > environment > default) gives %r" % (k, o.get(k), v))
                    break
            if problem is None and "active_misc" in o:
                # A and B conflict; the first module named by the selection in effect wins, A (priority/name order) when none is named
                sel = s["misc"].split(b",")[0] if s["misc"] else b"A"
                if o["active_misc"] != sel:
                    problem = ("input", "module selection in effect is %r (active misc module %r), precedence (-M > PDSH_MISC_MODULES > default) gives %r"
                               % (o["active_misc"], o["active_misc"], sel))
        # correspondence with the model
        mobs = "REFUSED" if obs[0] == "REFUSED" else ("RUN " + " ".join([obs[1].get("fanout", b"?").decode(), obs[1].get("ct", b"?").decode(), obs[1].get("ut", b"?").decode(),
                                                                           hexs(obs[1].get("ruser", b"")), hexs(obs[1].get("rcmd", b""))]) if obs[0] == "RUN" else "HANG")
        mcmp = mr if mr == "REFUSED" else " ".join(mr.split(" ")[:6])
        if problem is None and mobs != mcmp:
            problem = ("corr", "implementation and model disagree: impl %s model %s" % (mobs, mcmp))
        if problem:
            bad += 1
            rec = {"pcp": pcp, "env": {k: v.decode("latin-1") for k, v in env.items()}, "opts": [(l, None if v is None else v.decode("latin-1")) for l, v in opts]}
            if problem[0] == "input":
                ctx.violation("input", case=rec, expected=str(spec)[:300], observed=str(obs)[:300], engine="args", detail=problem[1] + "; " + desc[:300])
            else:
                ctx.violation("no-failing-input-found", case=rec, expected=mr[:300], observed=mobs[:300], engine="args",
                              correspondence="args: pdsh -q dump = model settings", detail=problem[1] + "; " + desc[:300])
            if bad >= 6:
                break
        if len(samples) < 3 and len(opts) >= 2 and env:
            samples.append({"prog": prog, "env": {k: v.decode("latin-1") for k, v in env.items()}, "opts": [(l, None if v is None else v.decode("latin-1")[:20]) for l, v in opts], "observed": obs[0]})
    # a valid fanout is the fanout, and pdsh neither refuses nor hangs, whatever the descriptor limit of the process is
    # (real children through the exec transport; the limit is the hard limit, so pdsh cannot raise it)
    real2 = realeng.Real(ctx, tag="real18x")
    nlow = 0
    for nofile, f, n in ((32, 4, 3), (36, 4, 6), (40, 8, 5), (64, 2, 4)) if bad < 6 else ():
        rc, o, er = real2.run(["-R", "exec", "-f", str(f), "-w", "h[1-%d]" % n, "echo", "%h"], timeout=25, nofile=nofile)
        nlow += 1
        got = sorted(l for l in o.decode("latin-1").split("\n") if l)
        want = sorted("h%d: h%d" % (k, k) for k in range(1, n + 1))
        if rc == -999 or (rc == 0 and got != want):
            bad += 1
            ctx.violation("input", case={"descriptor_limit": nofile, "opts": [("f", str(f))], "targets": n}, expected="the command runs on all %d targets" % n,
                          observed="hang (25 s)" if rc == -999 else "exit %d, output %r" % (rc, got[:6]), engine="exec",
                          detail="pdsh -R exec -f %d on %d targets under a descriptor limit of %d %s" % (f, n, nofile, "hangs" if rc == -999 else "does not run the command everywhere"))
    dist["low_descriptor_limit_runs"] = nlow
    # a setting that cannot work with the transport in effect (a connect time-out with the exec transport, which has none) is
    # refused before anything is run - from the command line and from the environment, in either order
    for args, env in ((["-R", "exec", "-t", "5"], {}), (["-t", "5", "-R", "exec"], {}), (["-R", "exec"], {"PDSH_CONNECT_TIMEOUT": "5"}), (["-t", "7"], {"PDSH_RCMD_TYPE": "exec"})) if bad < 6 else ():
        mark = os.path.join(ctx.scratch, "ran18")
        if os.path.exists(mark):
            os.unlink(mark)
        rc, o, er = real2.run(args + ["-w", "h1", "sh", "-c", "echo ran > " + mark], env=env, timeout=20)
        nlow += 1
        if rc != 1 or os.path.exists(mark):
            bad += 1
            ctx.violation("input", case={"pcp": False, "env": env, "opts": args}, expected="refused: exit 1, nothing run", observed="exit %s, command %s" % (rc, "was run" if os.path.exists(mark) else "not run"),
                          engine="exec", detail="pdsh %s (env %r): a connect time-out cannot work with the exec transport; exit %s, the command %s; stderr %r" % (
                              " ".join(args), env, rc, "was run" if os.path.exists(mark) else "was not run", er[-160:]))
    # the remote program path in effect is the one that is SENT: the command handed to the transport by pdcp and by rpdcp
    # starts with it (-e > PDSH_REMOTE_PDCP_PATH > pdcp's own path), whatever -q prints
    try:
        real.build_module(os.path.join(vlib.VERIF, "harness", "c09_recmod.c"), "reca", defs=['-DRECNAME="reca"'])
        have_rec = True
    except vlib.BuildError:
        have_rec = False
    nsent = 0
    log = os.path.join(ctx.scratch, "sent18.log")
    for prog in (("pdcp", "rpdcp") if have_rec and bad < 6 else ()):
        for eopt, eenv in ((None, None), (b"/opt/e/pdcp", None), (None, b"/opt/env/pdcp"), (b"/opt/e/pdcp", b"/opt/env/pdcp")):
            if os.path.exists(log):
                os.unlink(log)
            env = {"C09_LOG": log}
            if eenv is not None:
                env["PDSH_REMOTE_PDCP_PATH"] = eenv
            args = ["-R", "reca"] + (["-e", eopt] if eopt is not None else []) + ["-w", "h1", "/etc/hostname", ctx.scratch if prog == "rpdcp" else os.path.join(ctx.scratch, "rx")]
            rc, o, er = real.run(args, prog=prog, env=env, timeout=15)
            nsent += 1
            want = eopt if eopt is not None else eenv if eenv is not None else os.path.join(real.dir, "bin", prog).encode()
            sent = None
            if os.path.exists(log):
                for ln in open(log).read().split("\n"):
                    f = ln.split(" ")
                    if len(f) >= 7 and f[0] == "REC":
                        sent = unhex(f[5]) if f[5] != "-" else b""
            if rc == -999 or sent is None or sent.split(b" ")[0] != want:
                bad += 1
                ctx.violation("input", case={"pcp": True, "prog": prog, "env": {"PDSH_REMOTE_PDCP_PATH": (eenv or b"").decode()}, "opts": [("e", (eopt or b"").decode())]},
                              expected="the command sent to the target starts with %r" % want, observed="sent: %r" % (sent[:120] if sent is not None else None), engine="args",
                              detail="%s: the remote program path in effect (-e > PDSH_REMOTE_PDCP_PATH > own path) is %r but the command handed to the transport is %r"
                                     % (prog, want, sent[:80] if sent is not None else None))
    dist["commands_sent_observed"] = nsent
    have_input = any(v["kind"] != "no-failing-input-found" for v in ctx.violations)
    vlib.report_proof_break(ctx, have_input)
    cov = vlib.proof_coverage(ctx, {
        "evaluations": len(cases), "distinct_nontrivial": len(set(mcases)),
        "rule": "generated environment x command line combinations (each option absent / once / several times in any order; numeric strings empty, signed, blank-led, overflowing int / 2^32 / 2^64, trailing garbage; user names around LOGIN_NAME_MAX; known and unknown transports) run through the real binary with -q under a time limit; compared with the extracted model and with an independent precedence specification; distinct = distinct (env, argv)",
        "samples": samples, "input_distribution": dist, "corpus_cases": ncorpus, "disagreements": bad})
    return ctx.finish(cov, ["getopt(3) and getpwuid are the system's", "-t/-u go through atoi (lenient, as documented in DESIGN); the model carries that exactly",
                            "'never hangs' is observed through a 15 s limit per run"])


def replay(ctx, path):
    rec = json.load(open(path))
    print(json.dumps(rec, indent=1)[:1500])
    return 0
