"""C06 - output records are atomic and carry the label of the host that produced them."""
import C05, outeng

PROP = "C06"


def run(ctx):
    return C05.run(ctx, prop=PROP, judge=outeng.judge_c06,
                   what="one stdio call per record (line records; label + first <= 8191-byte chunk of an unterminated tail in one call) and the host's own label")


def replay(ctx, path):
    return C05.replay(ctx, path)
