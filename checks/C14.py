"""C14 - printing a host list is lossless when it fits and safe when it does not."""
import os, json
import vlib, hlgen, hleng
from vlib import hexs, unhex

PROP = "C14"
BIG = 1 << 17


def gen_expr(r):
    """expressions for lists with ranges, single hosts, widths, repeats; names of assorted lengths"""
    k = r.weighted([("tree", 6), ("sevens", 2), ("singles", 2)])
    if k == "tree":
        while True:
            t = hlgen.gen_tree(r)
            # D14: names free of brackets (true of every list pdsh builds: its second pass expands them)
            if any(w[0] == "br" and w[3][0] == "br2" for w in t):
                continue
            if hlgen.tree_weight(t) <= 150:
                return hlgen.render(t, hlgen.gen_seps(r, len(t)))
    if k == "sevens":
        # unrelated fixed-length names: the text fills buffers exactly at many sizes
        n = r.range(2, 40)
        L = r.range(1, 9)
        return b",".join(bytes(r.choice(b"abcdefghijklmnopqrstuvwxyz") for _ in range(L)) for _ in range(n))
    n = r.range(1, 12)
    return b",".join(hlgen.gen_text(r, ("alpha", "alnum", "dash", "digits")) for _ in range(n))


def split_groups(T):
    """the bracketed text cut at the commas outside brackets"""
    out, depth, cur = [], 0, b""
    for ch in T:
        c = bytes([ch])
        if c == b"[":
            depth += 1
        elif c == b"]":
            depth -= 1
        if c == b"," and depth == 0:
            out.append(cur); cur = b""
        else:
            cur += c
    out.append(cur)
    return out


GROUP_BUF = 1024      # MAXHOSTRANGELEN: the fixed buffer of the group-by-group calls


def long_group(r):
    """one bracket group whose text is about as long as the fixed buffer of the group-by-group calls"""
    pre = bytes(r.choice(b"abcdefgh") for _ in range(r.range(1, 3)))
    want = GROUP_BUF + r.range(-12, 12)
    parts, n, L = [], r.range(1, 40), len(pre) + 2
    while True:
        item = b"%d" % n if r.chance(2, 3) else b"%d-%d" % (n, n + r.range(1, 3))
        if L + len(item) + 1 > want:
            break
        parts.append(item)
        L += len(item) + 1
        n = int(item.split(b"-")[-1]) + r.range(2, 4)
    e = pre + b"[" + b",".join(parts) + b"]"
    k = r.weighted([(0, 3), (1, 2), (2, 1)])
    more = [bytes(r.choice(b"xyz") for _ in range(2)) + b"[1-3,7]", b"q9"][:k]
    lst = [e] + more
    if r.chance(1, 3):
        lst.reverse()
    return b",".join(lst)


def limit_part(ctx, eng, stats):
    """lists at the parser's own limit on ranges in one bracket (10240 unrelated numbers under one prefix) and with a lone host
    numbered 0 popped off the end: what is printed must still read back (implementation and S only)"""
    names = [b"n%d" % (2 * i + 1) for i in range(10240)]
    e = b",".join(names)
    o = eng.run_impl(["ranged %s %d" % (hexs(e), BIG)])[0].split(" ")
    stats["limit_lists"] = stats.get("limit_lists", 0) + 1
    if len(o) != 2 or o[0] == "-1" or o[1] == "UNTERMINATED":
        ctx.violation("input", case="ranged %s.. %d" % (hexs(e)[:200], BIG), expected="fits", observed=" ".join(o)[:200], engine="hl",
                      detail="10240 unrelated numbers under one prefix do not print into %d bytes" % BIG)
        return
    T = unhex(o[1])
    back = eng.run_impl(["targets1 " + hexs(T)])[0]
    if back != "OK " + ",".join(hexs(x) for x in names):
        ctx.violation("input", case="targets1 " + hexs(T)[:2000], expected="the 10240 hosts n1,n3,..", observed=back[:200], engine="hl",
                      detail="the compressed text of 10240 unrelated numbers under one prefix (%d bytes, it fits) does not parse back: %s" % (len(T), back[:60]))
    # pop: a list that ends in a lone host numbered 0 loses it; what remains prints and reads back
    for e, k in ((b"a1,foo0", 1), (b"b[0-2],c0", 1), (b"n[0-3]", 4), (b"x7,n0,n1", 2), (b"q0", 1)):
        o = eng.run_impl(["popprint %s %d" % (hexs(e), k)])[0]
        stats["pop_then_print"] = stats.get("pop_then_print", 0) + 1
        f = o.split(" ")
        prob = None
        if o.startswith(("CRASH", "HANG")) or len(f) != 6:
            prob = "pop then print faulted: " + o[:200]
        else:
            left = f[1]
            rg = unhex(f[3]) if f[3] != "-" else b""
            dr = unhex(f[5]) if f[5] != "-" else b""
            names_left = [unhex(x) for x in left.split(",")] if left != "." else []
            if dr != b",".join(names_left) or int(f[4]) != len(dr) or int(f[2]) != len(rg):
                prob = "expanded text %r / lengths do not match the hosts left %r" % (dr[:80], left[:80])
            elif names_left:
                back = eng.run_impl(["targets1 " + hexs(rg)])[0]
                if back != "OK " + left:
                    prob = "compressed text %r does not read back as the hosts left" % rg[:80]
        if prob:
            ctx.violation("input", case="popprint %s %d" % (hexs(e), k), expected="the hosts left after the pops, printed both ways", observed=o[:300], engine="hl",
                          detail=prob + "; list %r after %d pops" % (e, k))


def groups_part(ctx, eng, r, exprs, o1, stats):
    """the bracketed form handed out one group at a time (shift_range, pop_range, next_range of an iterator): every piece is
    the corresponding group of the whole text, or - longer than the fixed buffer - a NUL-terminated prefix of it; nothing is
    written outside the buffer (ASan); the list loses exactly what was handed out"""
    items = []
    for k, e in enumerate(exprs):
        rg = o1[3 * k + 1].split(" ")
        if o1[3 * k].startswith("OK") and len(rg) == 2 and rg[0] != "-1" and rg[1] != "UNTERMINATED":
            items.append((e, unhex(rg[1])))
    items = items[:120]
    longs = [long_group(r) for _ in range(40 if ctx.tier == "quick" else 600)]
    lo = eng.run_impl(["ranged %s %d" % (hexs(e), BIG) for e in longs])
    for e, o in zip(longs, lo):
        f = o.split(" ")
        if len(f) == 2 and f[0] != "-1":
            items.append((e, unhex(f[1])))
    cases = ["ranges %s %s" % (hexs(e), m) for e, T in items for m in "spn"]
    outs = eng.run_impl(cases)
    # the pure text of theorem C14_ranged_fit and its bracket groups (C14_ranged_text_groups), evaluated by the extracted model,
    # against what the implementation printed into a buffer that is large enough and handed out group by group
    mo = eng.run_model([x for e, T in items for x in ("rtext " + hexs(e), "gtexts " + hexs(e))])
    for j, (e, T) in enumerate(items):
        stats["ranged_text_model"] = stats.get("ranged_text_model", 0) + 1
        rt, gt = mo[2 * j], mo[2 * j + 1]
        if rt.startswith(("HANG", "MODEL-CRASH")):
            continue
        # "P": the list satisfies the hypothesis [printable] of the round-trip theorems (decided by the extracted printableb)
        if rt.startswith("P "):
            stats["lists_printable_per_model"] = stats.get("lists_printable_per_model", 0) + 1
        rt = rt[2:] if rt[:2] in ("P ", "N ") else rt
        want = "%d %s" % (len(T), hexs(T))
        G = split_groups(T)
        wantg = "OK" + "".join(" " + hexs(g) for g in G)
        if T and (rt != want or gt != wantg):
            ctx.violation("no-failing-input-found", case="ranged %s %d" % (hexs(e), BIG), expected=(rt + " / " + gt)[:400], observed=(want + " / " + wantg)[:400], engine="hl",
                          correspondence="hl: text printed by hostlist_ranged_string into a large buffer = ranged_text / gtexts of the model (Hostlist/HLRangedFit.v)",
                          detail="the implementation's bracketed text differs from the text function the fit theorem is about; list %r" % e[:120])
            break
    k = 0
    bad = 0
    for e, T in items:
        G = split_groups(T)
        for m in "spn":
            o = outs[k]; c = cases[k]; k += 1
            stats["groupwise"] = stats.get("groupwise", 0) + 1
            problem = None
            if o.startswith(("CRASH", "HANG")):
                problem = "handing out the groups faulted: " + o[:200]
            else:
                f = o.split(" ")
                got = [unhex(x) if x != "-" else b"" for x in f[1:-1]]
                exp = G if m != "p" else list(reversed(G))
                if len(got) != len(exp):
                    problem = "%d pieces for %d groups" % (len(got), len(exp))
                else:
                    for a, b in zip(got, exp):
                        if len(b) < GROUP_BUF:
                            if a != b:
                                problem = "piece %r is not the group %r" % (a[:60], b[:60]); break
                        else:
                            stats["group_over_buffer"] = stats.get("group_over_buffer", 0) + 1
                            if len(a) >= GROUP_BUF or not b.startswith(a):
                                problem = "group of %d bytes: piece of %d bytes is not a prefix that fits %d" % (len(b), len(a), GROUP_BUF); break
                if not problem and m != "n" and f[-1] != "left=0":
                    problem = "list not empty after all groups were taken: " + f[-1]
            if problem:
                bad += 1
                ctx.violation("input", case=c, expected="the groups of %r" % T[:200], observed=o[:300], engine="hl", detail=problem + "; list %r" % e[:120])
                if bad >= 4:
                    return


def run(ctx):
    ctx.gen_params()
    ctx.prove()
    eng = hleng.HL(ctx)
    quick = ctx.tier == "quick"
    r = ctx.rng("lists")
    nexpr = 250 if quick else 4000
    exprs = []
    cdir = os.path.join(vlib.VERIF, "corpus", PROP)
    if os.path.isdir(cdir):
        for fn in sorted(os.listdir(cdir)):
            if fn.endswith(".json"):
                exprs.append(unhex(json.load(open(os.path.join(cdir, fn)))["expr"]))
    ncorpus = len(exprs)
    while len(exprs) < nexpr + ncorpus:
        exprs.append(gen_expr(r))
    # phase 1: names and full texts
    p1 = []
    for e in exprs:
        p1 += ["targets1 " + hexs(e), "ranged %s %d" % (hexs(e), BIG), "deranged %s %d" % (hexs(e), BIG)]
    o1 = eng.run_impl(p1)
    cases, meta = [], []
    for k, e in enumerate(exprs):
        names, rg, dr = o1[3 * k], o1[3 * k + 1], o1[3 * k + 2]
        if not names.startswith("OK"):
            continue
        for kind, full in (("ranged", rg), ("deranged", dr)):
            parts = full.split(" ")
            if len(parts) != 2 or parts[0] == "-1" or parts[1] == "UNTERMINATED" or full.startswith(("CRASH", "HANG")):
                ctx.violation("input", case="%s %s %d" % (kind, hexs(e), BIG), expected="fits", observed=full[:200], engine="hl",
                              detail="printing into a %d byte buffer failed for %r" % (BIG, e[:100]))
                continue
            T = unhex(parts[1])
            if int(parts[0]) != len(T):
                ctx.violation("input", case="%s %s %d" % (kind, hexs(e), BIG), expected=str(len(T)), observed=full[:200], engine="hl",
                              detail="reported length differs from text length")
            # round trip of the full text
            cases.append("targets1 " + hexs(T)); meta.append(("rt", kind, e, T, names))
            L = len(T)
            if L <= 70 or not quick:
                ns = list(range(1, min(L, 3000) + 3))
            else:
                ns = sorted(set(list(range(1, 12)) + [r.range(12, L - 3) for _ in range(25)] + list(range(L - 3, L + 3))))
            for n in ns:
                cases.append("%s %s %d" % (kind, hexs(e), n)); meta.append(("sz", kind, e, T, n))
    ctx.log("%d lists, %d print/parse cases" % (len(exprs), len(cases)))
    impl = eng.run_impl(cases)
    model = eng.run_model(cases)
    bad = 0
    perlist = {}
    stats = {"fit": 0, "truncated": 0, "exact_fill": 0, "roundtrip": 0}
    samples = []
    for c, m, i, mo in zip(cases, meta, impl, model):
        problem = None
        if m[0] == "rt":
            stats["roundtrip"] += 1
            if i != m[4]:
                problem = ("input", "%s text %r does not parse back to the same host sequence" % (m[1], m[3][:120]), m[4])
        else:
            _, kind, e, T, n = m
            L = len(T)
            if i.startswith(("CRASH", "HANG")):
                problem = ("input", "%s_string wrote or read out of bounds with n=%d (text length %d): %s" % (kind, n, L, i), "no fault")
            else:
                ret, txt = i.split(" ")
                if n >= L + 1:
                    stats["fit"] += 1
                    if n == L + 1:
                        stats["exact_fill"] += 1
                    if ret != str(L) or txt != hexs(T):
                        problem = ("input", "text of length %d fits n=%d but was not returned whole" % (L, n), "%d %s" % (L, hexs(T)))
                else:
                    stats["truncated"] += 1
                    if ret != "-1" or txt == "UNTERMINATED" or not T.startswith(unhex(txt)) or len(unhex(txt)) > n - 1:
                        problem = ("input", "text of length %d does not fit n=%d: expected -1 and a NUL-terminated prefix" % (L, n), "-1 <prefix>")
                    elif kind == "ranged" and unhex(txt) != T[:n - 1]:
                        # theorem C14_ranged_truncation: the bracketed printer leaves exactly the first n-1 bytes of the text
                        problem = ("corr", "truncated bracketed text is not the first n-1 bytes of the whole text (theorem C14_ranged_truncation speaks of exactly those)", mo)
        if problem is None and i != mo:
            problem = ("corr", "implementation and model disagree", mo)
        if problem and perlist.get(m[2], 0) >= 2:
            problem = None       # two reports per list are enough; go on to the other lists
        if problem:
            bad += 1
            perlist[m[2]] = perlist.get(m[2], 0) + 1
            if problem[0] == "input":
                ctx.violation("input", case=c, expected=problem[2][:300], observed=i[:300], engine="hl", detail=problem[1] + "; list %r" % m[2][:120])
            else:
                ctx.violation("no-failing-input-found", case=c, expected=mo[:300], observed=i[:300], engine="hl",
                              correspondence="hl: %s_string(impl) = model" % m[1], detail=problem[1] + "; list %r" % m[2][:120])
            if bad >= 12:
                break
        if len(samples) < 3 and m[0] == "sz" and len(m[3]) > 20 and m[4] == len(m[3]):
            samples.append({"op": m[1], "list": m[2][:60].decode("latin-1"), "n": m[4], "impl": i[:80]})
    groups_part(ctx, eng, r, exprs, o1, stats)
    limit_part(ctx, eng, stats)
    have_input = any(v["kind"] != "no-failing-input-found" for v in ctx.violations)
    vlib.report_proof_break(ctx, have_input)
    cov = vlib.proof_coverage(ctx, {
        "evaluations": len(cases), "distinct_nontrivial": len(set(cases)),
        "rule": "host lists built from generated expressions (ranges, singles, mixed widths, repeats, equal-length unrelated names); for each list the compressed and the expanded printer are run for every buffer size 1..len+2 (sampled around the boundaries for long texts in quick mode) into an exact-size heap buffer under ASan; the full text is parsed back; distinct = distinct (printer, list, size)",
        "samples": samples, "input_distribution": dict(stats, lists=len(exprs)), "corpus_cases": ncorpus, "disagreements": bad})
    return ctx.finish(cov, ["libc snprintf modelled (HLPrint.snprintf_at)", "ASan red zones detect any byte written past the given size in the implementation"])


def replay(ctx, path):
    rec = json.load(open(path))
    ctx.gen_params()
    eng = hleng.HL(ctx)
    c = rec["case"]
    print("case     :", c[:300])
    print("expected :", rec.get("expected"))
    print("impl now :", eng.run_impl([c])[0][:300])
    print("model now:", eng.run_model([c])[0][:300])
    return 0
