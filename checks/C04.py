"""C04 - never more than `fanout` remote commands are in flight."""
import os, json, time
import vlib, schedeng

PROP = "C04"


def scenario(r, quick):
    n = r.weighted([(1, 1), (2, 3), (3, 5), (4, 4), (5, 3), (r.range(6, 9), 2)])
    f = r.range(1, n + 1)
    hosts = []
    faulty = r.chance(1, 3)       # a third of the scenarios have hosts that refuse, hang in connect or hang mid-command
    for i in range(n):
        out = "A" + (b"o%d\n" % i).hex() if r.chance(2, 3) else "-"
        b = r.weighted([("o", 5), ("r", 2), ("h", 1), ("H", 1)]) if faulty else "o"
        if b == "o":
            # sometimes the command also talks on stderr, several pieces that may arrive after stdout has closed
            err = "/".join("A" + (b"e%d-%d\n" % (i, k)).hex() for k in range(r.range(1, 4))) if r.chance(1, 3) else "-"
            hosts.append(("h%d" % i, "o", out, err, 0))
        elif b == "H":
            hosts.append(("h%d" % i, "o", "H", "-", 0))
        else:
            hosts.append(("h%d" % i, b, "-", "-", 0))
    return n, f, hosts


def judge_c04(run, n, f):
    if run.code == -999:
        return "run did not finish (wall-clock timeout)"
    if run.peak is not None and run.peak > f:
        return "peak number of connections in flight %d exceeds fanout %d" % (run.peak, f)
    # progress: while targets remain the dispatcher parks only when f commands are started and not finished
    tcv, created = 0, 0
    for st, k, fl in run.events:
        if k == "UNLOCK" and fl[1] == "m0" and len(fl) > 3 and fl[2] == "tc" and fl[3] != "-1":
            tcv = int(fl[3])
        elif k == "CREATE" and fl[0].startswith("W"):
            created += 1
        elif k == "WAIT" and fl[0] == "M0" and created < n and tcv + 0 < f and created >= 1:
            # (threadcount as last published under the mutex; the dispatcher's own increment is published at its unlock)
            return "the dispatcher waits with %d command(s) started and not finished although the fanout is %d and %d target(s) remain" % (tcv, f, n - created)
    return None


def judge_c03(run, n, f):
    if run.deadlock:
        return "deadlock: no thread can move and pdsh has not exited"
    if run.code == -999:
        return "run did not finish (wall-clock timeout)"
    if run.exit is None:
        return "pdsh did not exit (code %s) %s" % (run.code, run.errtxt[-200:])
    for i in range(n):
        c, d, k = run.hoststats.get("h%d" % i, (0, 0, 0))
        if c != 1 or d != 1:
            return "target h%d: command started %d times, torn down %d times" % (i, c, d)
    for h in run.hoststats:
        if not (h.startswith("h") and h[1:].isdigit() and int(h[1:]) < n):
            return "a command was started for %s which is not a target" % h
    last = max([st for st, k, f_ in run.events if k in ("DESTROY", "FPUTS")] + [0])
    if run.exit_step < last:
        return "pdsh exited before the last command finished / its output was delivered"
    # "... and its output has been delivered": every line a healthy host wrote (either stream) was written out under its name
    delivered = b"".join(b for st, w, sname, b in run.outs)
    for h in run.hosts:
        if h[1] != "o":
            continue
        for items in (h[2], h[3]):
            if items in ("-", None) or "H" in items.split("/"):
                continue
            data = b"".join(bytes.fromhex(x[1:]) for x in items.split("/") if x.startswith("A"))
            for line in data.split(b"\n"):
                if line and (h[0].encode() + b": " + line) not in delivered:
                    return "output of %s was not delivered before pdsh returned: %r missing" % (h[0], line)
    return None


def run(ctx, prop=PROP, judge=judge_c04, title="peak connections in flight <= fanout"):
    ctx.gen_params()
    ctx.prove()
    eng = schedeng.Sched(ctx)
    import outeng  # for the model runner builder only
    model = ctx.build_runner("dsh", "dsh_model")
    quick = ctx.tier == "quick"
    r = ctx.rng("schedules")
    runs, cases = [], []
    # corpus: recorded schedules replayed first
    cdir = os.path.join(vlib.VERIF, "corpus", prop)
    corpus = []
    if os.path.isdir(cdir):
        for fn in sorted(os.listdir(cdir)):
            if fn.endswith(".json"):
                corpus.append(json.load(open(os.path.join(cdir, fn))))
    for c in corpus:
        hosts = [tuple(h) for h in c["hosts"]]
        ru = eng.run(c["args"], hosts, seed=c.get("seed", 1), spur=c.get("spur", 0), replay=c.get("schedule"))
        runs.append((ru, c["n"], c["f"]))
    nrun = 1500 if quick else 40000
    for k in range(nrun):
        n, f, hosts = scenario(r, quick)
        spur = r.weighted([(0, 3), (1, 3), (2, 2), (4, 1)])
        faulty = any(h[1] != "o" or h[2] == "H" for h in hosts)
        ru = eng.run(["-R", "sim", "-f", str(f)] + (["-t", "1", "-u", "1"] if faulty else []) + ["-w", "h[0-%d]" % (n - 1), "cmd"], hosts,
                     seed=r.next() % (1 << 31), spur=spur, pspur=r.choice([10, 30, 60]), ptick=0 if faulty else 5,
                     env={"SCHED_MAXSTEP": "30000"}, timeout=10)
        runs.append((ru, n, f))
    # the configured fanout is the one in effect whatever the descriptor limit of the process is
    for k in range(40 if quick else 600):
        n = r.range(6, 9)
        f = r.range(5, n)
        hosts = [("h%d" % i, "o", "A" + (b"o%d\n" % i).hex(), "-", 0) for i in range(n)]
        ru = eng.run(["-R", "sim", "-f", str(f), "-w", "h[0-%d]" % (n - 1), "cmd"], hosts, seed=r.next() % (1 << 31), spur=r.choice([0, 1]),
                     nofile=r.choice([36, 40, 41]))
        runs.append((ru, n, f))
    # small scope, exhaustively: every schedule that deviates at most `depth` times from the scheduler's base policy
    # (another thread, a spurious wake-up or a clock tick at any choice point) for small target counts
    pbstat = {}
    for (n, f, depth) in ([(2, 1, 1), (3, 2, 1), (3, 1, 1)] if quick else [(2, 1, 2), (2, 2, 2), (3, 1, 2), (3, 2, 2), (4, 2, 1), (4, 3, 1)]):
        hosts = [("h%d" % i, "o", "A" + (b"o%d\n" % i).hex(), "-", 0) for i in range(n)]
        pr = schedeng.explore_pb(eng, ["-R", "sim", "-f", str(f), "-w", "h[0-%d]" % (n - 1), "cmd"], hosts, depth, spur=1,
                                 max_runs=3000 if quick else 150000)
        pbstat["n=%d f=%d depth=%d" % (n, f, depth)] = len(pr)
        for ru in pr:
            runs.append((ru, n, f))
    recheck = detect_recheck()
    for ru, n, f in runs:
        cases.append("disp %d %d %d %s" % (n, f, 1, " ".join(ru.model_events())))
    ctx.log("%d runs of the whole program under the controlled scheduler; validating traces against the model" % len(runs))
    acc = ctx.run_lines([model], cases, env={"OCAMLRUNPARAM": "l=4G"}, crash_tag="MODEL-CRASH")
    bad, nacc, nspur, samples = 0, 0, 0, []
    nsched = nrej = 0
    dist = {}
    for (ru, n, f), res, case in zip(runs, acc, cases):
        key = "n=%d" % n
        dist[key] = dist.get(key, 0) + 1
        nspur += sum(1 for c in ru.choices if isinstance(c, int) and c <= -2)
        e = judge(ru, n, f)
        rec = {"n": n, "f": f, "args": ru.args, "hosts": ru.hosts, "seed": ru.seed, "spur": ru.spur, "schedule": [c for c in ru.choices if c != "sig"]}
        if e:
            bad += 1
            nsched += 1
            if nsched <= 5:
              ctx.violation("schedule", case=rec, expected="property holds on every schedule", observed=ru.summary(), engine="sched",
                          detail=e + "; trace tail: " + " | ".join(ru.lines[-12:]))
        elif not res.startswith("ACCEPT"):
            bad += 1
            nrej += 1
            if nrej <= 3:
              ctx.violation("no-failing-input-found", case=rec, expected="trace accepted by Dsh/Dispatch.v", observed=res, engine="sched",
                          correspondence="sched: event trace of the real program is a run of the model", detail=res + " ; events: " + case[:600])
        else:
            nacc += 1
        if len(samples) < 2 and ru.spur and n >= 3 and any(isinstance(c, int) and c <= -2 for c in ru.choices):
            samples.append({"n": n, "fanout": f, "spurious_wakeups": ru.spur, "events": " ".join(ru.model_events())[:400], "peak": ru.peak})
        if nsched >= 5:
            break
    nexec = 0
    if prop == "C04" and nsched < 5:
        nexec, ebad = exec_concurrency(ctx, quick)
        bad += ebad
        # a worker thread that could not be created must not occupy a slot: pdsh may give up, it may not wait for it
        for k in range(40 if quick else 800):
            if bad >= 6:
                break
            n = r.range(2, 6)
            f = r.range(1, n)
            hosts = [("h%d" % i, "o", "A" + (b"o%d\n" % i).hex(), "-", 0) for i in range(n)]
            ru = eng.run(["-R", "sim", "-f", str(f), "-w", "h[0-%d]" % (n - 1), "cmd"], hosts, seed=r.next() % (1 << 31), spur=r.choice([0, 1]), ptick=0,
                         env={"SCHED_MAXSTEP": "30000", "SCHED_PCFAIL": str(r.range(1, n))}, timeout=10)
            if ru.deadlock or ru.exit is None:
                bad += 1
                ctx.violation("schedule", case={"n": n, "f": f, "args": ru.args, "hosts": ru.hosts, "seed": ru.seed, "spur": ru.spur, "engine_env": getattr(ru, "env", {}),
                                                "schedule": [c for c in ru.choices if c != "sig"]},
                              expected="a slot is held only by a command that was started", observed=ru.summary(), engine="sched",
                              detail="after a worker thread could not be created the dispatcher waits for ever with nothing in flight (the slot of a thread that never existed is never released); trace tail: " + " | ".join(ru.lines[-10:]))
    nsig = 0
    if prop == "C03" and nsched < 5:
        nsig, sbad = interrupted_runs(ctx, eng, r, quick)
        bad += sbad
        nexec, ebad = exec_completion(ctx, quick)
        bad += ebad
    have_input = any(v["kind"] != "no-failing-input-found" for v in ctx.violations)
    vlib.report_proof_break(ctx, have_input)
    cov = vlib.proof_coverage(ctx, {
        "runs_with_non_aborting_interrupts": nsig, "real_exec_concurrency_runs": nexec,
        "evaluations": len(runs), "distinct_nontrivial": len(set(c for c in cases if len(c) > 60)),
        "traces_validated_against_impl": nacc,
        "rule": "runs of the whole unmodified pdsh program (all sources, main renamed) under a token scheduler interposed at link time on pthread_*/poll/read/sleep/time/fputs/exit, with a scripted transport module loaded by pdsh's own loader; N in 1..9 targets, fanout 1..N+1, seeded random schedules with 0-4 spurious condition-variable wake-ups, plus for small N every schedule with a bounded number of deviations from the base policy (another thread, a spurious wake-up or a clock tick at any choice point); each trace must be a run of the Coq transition system and is judged for: " + title + "; distinct = distinct event trace",
        "exhaustive_bounded_deviation_schedules": pbstat,
        "samples": samples, "input_distribution": dict(dist, spurious_wakeups_injected=nspur), "corpus_cases": len(corpus), "disagreements": bad})
    return ctx.finish(cov, ["interleavings at the granularity of the wrapped calls (a data race between two plain loads/stores is invisible)",
                            "POSIX semantics of mutex/condvar implemented by the scheduler (spurious wake-ups included)",
                            "the transport is the scripted module; the kernel is not involved"])


def exec_concurrency(ctx, quick):
    """real children through the exec transport: each command closes its three streams at once, notes when it starts and
    when it ends, and runs for a second; "in flight" lasts until the command is gone, so at no instant may more than f of
    the [start, end] intervals overlap"""
    import realeng, time
    real = realeng.Real(ctx, tag="real04")
    logd = os.path.join(ctx.scratch, "conc04")
    nbad, nrun = 0, 0
    base = "exec 0<&- 1>&- 2>&-; date +%%s%%N > %(d)s/%%h.s; %(body)s; date +%%s%%N > %(d)s/%%h.e"
    # (targets, fanout, extra options, what the command does between its two stamps, standard input of pdsh)
    scen = [(6, 2, [], "sleep 1", None),
            (4, 1, ["-u", "1"], "sleep 4", None),                                       # outlives the command time-out and a watchdog round
            (4, 1, [], "sleep 1", "closed"),                                            # pdsh's first connection gets descriptor 0
            (3, 1, [], "(sleep 2; kill -CONT $$) & kill -STOP $$; sleep 0.3", None)]    # the command is stopped for a while
    if not quick:
        scen += [(7, 3, [], "sleep 1", None), (5, 1, [], "sleep 1", None), (9, 4, [], "sleep 1", None), (5, 2, ["-u", "1"], "sleep 4", None)]
    for (n, f, opts, body, stdin) in scen:
        import shutil, subprocess
        shutil.rmtree(logd, ignore_errors=True)
        os.makedirs(logd)
        cmd = base % {"d": logd, "body": body}
        exe = os.path.join(real.dir, "bin", "pdsh")
        try:
            p = subprocess.run([exe, "-R", "exec", "-f", str(f)] + opts + ["-w", "h[1-%d]" % n, "sh", "-c", cmd], env={"PATH": "/usr/bin:/bin", "HOME": "/root", "LANG": "C"},
                               stdout=subprocess.PIPE, stderr=subprocess.PIPE, timeout=90, preexec_fn=(lambda: os.close(0)) if stdin == "closed" else None)
            rc, o, e = p.returncode, p.stdout, p.stderr
        except subprocess.TimeoutExpired:
            rc, o, e = -999, b"", b""
        nrun += 1
        time.sleep(1.5 if "-u" not in opts else 5.0)         # a command released too early may still be running: let it write its end stamp
        iv = []
        for k in range(1, n + 1):
            try:
                iv.append((int(open("%s/h%d.s" % (logd, k)).read()), int(open("%s/h%d.e" % (logd, k)).read())))
            except (OSError, ValueError):
                iv.append(None)
        problem = None
        if rc == -999 or any(x is None for x in iv):
            problem = "pdsh exit %s, start/end stamps %s: a command was not run to its end" % (rc, ["ok" if x else "missing" for x in iv])
        else:
            pts = sorted([(a, 1) for a, b in iv] + [(b, -1) for a, b in iv])
            cur = peak = 0
            for _, d in pts:
                cur += d
                peak = max(peak, cur)
            if peak > f:
                problem = "%d commands were alive at the same instant with fanout %d" % (peak, f)
        if problem:
            nbad += 1
            ctx.violation("input", case={"transport": "exec", "n": n, "f": f, "options": opts, "command": cmd, "stdin": stdin}, expected="at most %d commands alive at any instant" % f,
                          observed=problem, engine="exec", detail=problem + " (commands that close their streams early; between their stamps: %s)" % body)
    # the prompt loop (commands read from standard input): while the process that runs the first command line is stopped for a
    # moment, the loop must not go on to the next line - its commands would run on top of those still alive
    import subprocess, signal, shutil
    shutil.rmtree(logd, ignore_errors=True)
    os.makedirs(logd)
    line = "exec 0<&- 1>&- 2>&-; date +%%s%%N > %s/%%h.%d.s; sleep 2; date +%%s%%N > %s/%%h.%d.e\n"
    p = subprocess.Popen([os.path.join(real.dir, "bin", "pdsh"), "-R", "exec", "-f", "2", "-w", "h[1-4]"], env={"PATH": "/usr/bin:/bin", "HOME": "/root", "LANG": "C"},
                         stdin=subprocess.PIPE, stdout=subprocess.PIPE, stderr=subprocess.PIPE)
    try:
        p.stdin.write(((line % (logd, 1, logd, 1)) + (line % (logd, 2, logd, 2))).encode()); p.stdin.close()
    except OSError:
        pass
    time.sleep(0.8)
    kids = []
    for pid in os.listdir("/proc"):
        if pid.isdigit():
            try:
                st = open("/proc/%s/stat" % pid).read().rsplit(")", 1)[1].split()
                cl = open("/proc/%s/cmdline" % pid, "rb").read()
            except OSError:
                continue
            if st[1] == str(p.pid) and b"pdsh" in cl.split(b"\0")[0]:
                kids.append(int(pid))
    for k in kids:
        os.kill(k, signal.SIGSTOP)
    time.sleep(1.0)
    for k in kids:
        try:
            os.kill(k, signal.SIGCONT)
        except OSError:
            pass
    nrun += 1
    try:
        p.stdin = None
        p.communicate(timeout=60)
    except subprocess.TimeoutExpired:
        p.kill(); p.communicate()
    time.sleep(0.5)
    iv = []
    for ln in (1, 2):
        for k in range(1, 5):
            try:
                iv.append((int(open("%s/h%d.%d.s" % (logd, k, ln)).read()), int(open("%s/h%d.%d.e" % (logd, k, ln)).read())))
            except (OSError, ValueError):
                iv.append(None)
    problem = None
    if not kids:
        ctx.notes.append("prompt-loop scenario: the process running the command line was not found; not judged")
    elif any(x is None for x in iv):
        problem = "start/end stamps %s: a command was not run to its end" % ["ok" if x else "missing" for x in iv]
    else:
        pts = sorted([(a, 1) for a, b in iv] + [(b, -1) for a, b in iv])
        cur = peak = 0
        for _, d in pts:
            cur += d
            peak = max(peak, cur)
        if peak > 2:
            problem = "%d commands were alive at the same instant with fanout 2" % peak
    if problem:
        nbad += 1
        ctx.violation("input", case={"transport": "exec", "mode": "prompt loop", "n": 4, "f": 2, "situation": "the process running the first command line is stopped for a second"},
                      expected="at most 2 commands alive at any instant", observed=problem, engine="exec", detail=problem + " (prompt loop, two command lines, dispatcher stopped and continued)")
    return nrun, nbad


def exec_completion(ctx, quick):
    """real children through the exec transport: every target's command is started, and pdsh returns only after each of
    them has finished (each command leaves a mark when it ends) and its output has been relayed - also when pdsh is started
    without a standard input (its first connection then gets descriptor 0), when commands close their streams long before
    they end (with a command time-out shorter than their life), and with more targets than the soft descriptor limit"""
    import realeng, shutil, resource
    real = realeng.Real(ctx, tag="real03")
    exe = os.path.join(real.dir, "bin", "pdsh")
    mark = os.path.join(ctx.scratch, "done03")
    nbad, nrun = 0, 0
    shim = os.path.join(ctx.scratch, "slowfork.so")
    brc, _ = vlib.sh(["gcc", "-shared", "-fPIC", "-O1", os.path.join(vlib.VERIF, "harness", "slowfork.c"), "-ldl", "-o", shim])
    scen = [("no standard input", 4, ["-f", "2"], "echo out-%%h; sleep 0.4; echo end > %s/%%h", "closed", None),
            ("commands close their streams early and outlive -u 1", 3, ["-f", "3", "-u", "1"], "exec 0<&- 1>&- 2>&-; sleep 4; echo end > %s/%%h", None, None),
            ("more targets than the soft descriptor limit", 300, ["-f", "16"], "echo out-%%h; echo end > %s/%%h", None, 256)]
    if brc == 0:
        # forty workers at once between "descriptors created" and "child forked" (fork delayed by 0.3 s), soft limit 64, hard limit high
        scen.append(("forty commands started at once under a soft descriptor limit of 64", 40, ["-f", "40"], "echo out-%%h; echo end > %s/%%h", "slowfork", 64))
    for name, n, opts, cmd, stdin, soft in scen:
        shutil.rmtree(mark, ignore_errors=True)
        os.makedirs(mark)

        def pre(stdin=stdin, soft=soft):
            if stdin == "closed":
                os.close(0)
            if soft:
                hard = resource.getrlimit(resource.RLIMIT_NOFILE)[1]
                resource.setrlimit(resource.RLIMIT_NOFILE, (soft, hard))
        import subprocess
        try:
            env = {"PATH": "/usr/bin:/bin", "HOME": "/root", "LANG": "C"}
            if stdin == "slowfork":
                env.update({"LD_PRELOAD": shim, "SLOWFORK_MS": "300"})
            p = subprocess.run([exe, "-R", "exec"] + opts + ["-w", "h[1-%d]" % n, "sh", "-c", cmd % mark], env=env,
                               stdout=subprocess.PIPE, stderr=subprocess.PIPE, timeout=90, preexec_fn=pre)
            rc, o, e = p.returncode, p.stdout, p.stderr
        except subprocess.TimeoutExpired:
            rc, o, e = -999, b"", b""
        nrun += 1
        done = set(os.listdir(mark))           # read the moment pdsh has returned
        problem = None
        missing = [k for k in range(1, n + 1) if "h%d" % k not in done]
        if rc == -999:
            problem = "pdsh did not return within 90 s"
        elif missing:
            problem = "pdsh returned (exit %d) although the commands of %d target(s) had not finished or were never started (e.g. h%d)" % (rc, len(missing), missing[0])
        elif "out-" in cmd:
            lines = set(o.decode("latin-1").split("\n"))
            lost = [k for k in range(1, n + 1) if ("h%d: out-h%d" % (k, k)) not in lines]
            if lost:
                problem = "the output of %d target(s) was not relayed (e.g. h%d); stderr %r" % (len(lost), lost[0], e[-160:])
        if problem:
            nbad += 1
            ctx.violation("input", case={"transport": "exec", "situation": name, "targets": n, "options": opts, "command": cmd}, expected="every command started once, pdsh returns after the last has ended",
                          observed=problem, engine="exec", detail=problem + " (%s)" % name)
    # the prompt loop (no command on the command line; commands read from standard input): each command runs on every target and
    # its output - also a last piece without a newline - is there before the next prompt
    import subprocess
    try:
        p = subprocess.run([exe, "-R", "exec", "-w", "a,b"], input=b"printf tail-%h\necho second-%h\n", env={"PATH": "/usr/bin:/bin", "HOME": "/root", "LANG": "C"},
                           stdout=subprocess.PIPE, stderr=subprocess.PIPE, timeout=60)
        rc, o = p.returncode, p.stdout
    except subprocess.TimeoutExpired:
        rc, o = -999, b""
    nrun += 1
    want = [b"a: tail-a", b"b: tail-b", b"a: second-a\n", b"b: second-b\n"]
    lost = [w for w in want if w not in o]
    if rc != 0 or lost or not (o.find(b"tail-") < o.find(b"second-")):
        nbad += 1
        ctx.violation("input", case={"transport": "exec", "situation": "prompt loop, two commands on standard input", "targets": 2}, expected="both commands run on both targets, all output delivered in order",
                      observed="exit %s, output %r" % (rc, o[:200]), engine="exec", detail="prompt loop: missing %r (exit %s)" % (lost, rc))
    return nrun, nbad


def interrupted_runs(ctx, eng, r, quick):
    """'for every run': runs in which the user's interrupts do not abort pdsh (one ^C: status listing; ^C then ^Z
    within a second: targets not yet started are cancelled; ^Z alone).  Judged for termination and exactly-once on
    the targets that were started; which targets may be cancelled is C20's matter."""
    nbad = 0
    nrun = 250 if quick else 6000
    for k in range(nrun):
        n = r.range(2, 6)
        f = r.range(1, n)
        hosts = [("h%d" % i, "o", "A" + (b"o%d\n" % i).hex(), "-", 0) for i in range(n)]
        a = r.range(0, 30 + 45 * n)
        sigs = r.choice(["INT@%d", "INT@%d,TSTP@%d", "INT@%d,TSTP@%d", "TSTP@%d"])
        sigs = sigs % ((a, a + r.range(1, 8)) if sigs.count("%") == 2 else (a,))
        args = ["-R", "sim", "-f", str(f), "-w", "h[0-%d]" % (n - 1), "cmd"]
        ru = eng.run(args, hosts, seed=r.next() % (1 << 31), spur=r.choice([0, 1]), sigs=sigs, ptick=0, env={"SCHED_MAXSTEP": "30000"}, timeout=10)
        e = None
        if ru.deadlock:
            e = "deadlock: no thread can move and pdsh has not exited"
        elif ru.exit is None:
            e = "pdsh did not exit (code %s) %s" % (ru.code, ru.errtxt[-200:])
        else:
            for h, (c, d, kk) in ru.hoststats.items():
                if not (h.startswith("h") and h[1:].isdigit() and int(h[1:]) < n):
                    e = "a command was started for %s which is not a target" % h
                elif c > 1 or d != c:
                    e = "target %s: command started %d times, torn down %d times" % (h, c, d)
        if e:
            nbad += 1
            rec = {"n": n, "f": f, "args": ru.args, "hosts": ru.hosts, "seed": ru.seed, "spur": ru.spur, "sigs": sigs,
                   "schedule": [c for c in ru.choices if c != "sig"]}
            ctx.violation("schedule", case=rec, expected="pdsh ends; every started target exactly once", observed=ru.summary(), engine="sched",
                          detail=e + " (interrupts %s, not aborting); trace tail: " % sigs + " | ".join(ru.lines[-12:]))
            if nbad >= 3:
                break
    # a resource fault in the middle of the run: the creation of the k-th worker thread fails.  Whatever pdsh does about it
    # (the unchanged code gives up with a message), it must not be left waiting for a completion that can never come
    nrun2 = 60 if quick else 1500
    for k in range(nrun2):
        if nbad >= 3:
            break
        n = r.range(2, 6)
        f = r.range(1, n)
        hosts = [("h%d" % i, "o", "A" + (b"o%d\n" % i).hex(), "-", 0) for i in range(n)]
        args = ["-R", "sim", "-f", str(f), "-w", "h[0-%d]" % (n - 1), "cmd"]
        ru = eng.run(args, hosts, seed=r.next() % (1 << 31), spur=r.choice([0, 1]), ptick=0,
                     env={"SCHED_MAXSTEP": "30000", "SCHED_PCFAIL": str(r.range(1, n))}, timeout=10)
        e = None
        if ru.deadlock:
            e = "deadlock: no thread can move and pdsh has not exited"
        elif ru.exit is None:
            e = "pdsh did not exit (code %s) %s" % (ru.code, ru.errtxt[-200:])
        elif ru.exit == 0:
            never = [i for i in range(n) if ru.hoststats.get("h%d" % i, (0, 0, 0))[0] != 1]
            if never:
                e = "pdsh exited 0 although target h%d never got its command" % never[0]
        if e:
            nbad += 1
            rec = {"n": n, "f": f, "args": ru.args, "hosts": ru.hosts, "seed": ru.seed, "spur": ru.spur, "env": {"SCHED_PCFAIL": "?"},
                   "schedule": [c for c in ru.choices if c != "sig"]}
            ctx.violation("schedule", case=rec, expected="pdsh ends", observed=ru.summary(), engine="sched",
                          detail=e + " (a worker thread could not be created); trace tail: " + " | ".join(ru.lines[-12:]))
    return nrun + nrun2, nbad


def detect_recheck():
    return 1


def replay(ctx, path):
    rec = json.load(open(path))
    c = rec["case"]
    ctx.gen_params()
    eng = schedeng.Sched(ctx)
    ru = eng.run(c["args"], [tuple(h) for h in c["hosts"]], seed=c["seed"], spur=c["spur"], replay=c["schedule"], sigs=c.get("sigs"))
    print("\n".join(ru.lines[-40:]))
    print(ru.summary())
    return 0
