"""C17 - module loading is deterministic, conflict-safe, and refuses insecure code.

Real pdsh (rebuilt from the tree under test) against generated module directories; every case is also run through the
extracted Coq model (Mod/ModLoad.v, Mod/ModPerm.v) and judged by an independent restatement of the property (s_spec and
the j_* predicates below)."""
import os, json, itertools, time
from concurrent.futures import ThreadPoolExecutor
import vlib, modeng
from modeng import NOBODY, OTHER, STRANGER

PROP = "C17"
INT_MAX = 2147483647


# ------------------------------------------------------------------ S: the property, restated independently
def s_who(case):
    ra = case["run_as"]
    if ra == "root":
        return (0, 0, case.get("alt", 0))
    if ra == "nobody":
        return (NOBODY, NOBODY, case.get("alt", 0))
    return (NOBODY, OTHER, OTHER)


def s_uses_env(case):
    """root and set-uid runs ignore PDSH_MODULE_DIR"""
    uid, euid, _ = s_who(case)
    return case.get("dirsel", "builtin") != "builtin" and uid != 0 and uid == euid


def s_in_domain(pers, cands):
    """D17: among the modules that can be registered, (priority, name) identifies the module; priorities are ordinary"""
    keys = [(m["prio"], m["name"]) for _, m in cands]
    return len(set(keys)) == len(keys) and all(-2 ** 30 <= m["prio"] < 2 ** 30 for _, m in cands)


def s_spec(who, pers, base, forced, chain, entries, mods):
    """expected observation; None for 'in_domain' = False means the property does not determine the result"""
    uid, euid, alt = who
    trusted = {0, uid, alt}
    empty = {"opened": [], "mods": [], "inits": [], "conf": [], "regs": [], "opts": base, "in_domain": True}
    if not chain or any((not isdir) or (owner not in trusted) or ((mode & 0o002) and not (mode & 0o1000)) for isdir, owner, mode in chain):
        return dict(empty, status="REFUSED")
    secure = [nm for nm, reg, owner, mode in entries if reg and owner in trusted and not (mode & 0o002)]
    cands = [(nm, mods[nm]) for nm in secure if mods.get(nm) is not None and (mods[nm]["pers"] & pers)]
    if not cands:
        return dict(empty, status="NOMODULES", opened=secure)
    dom = s_in_domain(pers, cands)
    groups = {}
    for nm, m in cands:
        groups.setdefault((m["type"], m["name"]), []).append((nm, m))
    winners = [max(g, key=lambda x: x[1]["prio"]) for g in groups.values()]          # only the highest priority of a (type, name)
    order = sorted(winners, key=lambda x: (-x[1]["prio"], x[1]["name"].encode("latin-1")))   # priority, then name
    st = {"opts": base, "active": [], "inits": [], "conf": [], "regs": []}

    def attempt(nm, m):
        mine = [(c, a) for c, a, p in m["opts"] if p & pers]
        for c, a in mine:
            if c in st["opts"]:                      # one option taken: the module stays out as a whole
                st["conf"].append([ord(c), st["opts"]])
                return
        for c, a in mine:
            st["opts"] += c + (":" if a else "")
            st["regs"].append([nm, ord(c), 1 if a else 0])
        st["inits"].append(nm)
        if m["initrc"] >= 0 and nm not in st["active"]:
            st["active"].append(nm)
    for name in forced:                              # -M names first, in the order given
        for nm, m in order:
            if m["type"] == "misc" and m["name"] == name:
                attempt(nm, m)
                break
    for nm, m in order:
        attempt(nm, m)
    return {"status": "LOADED", "opened": secure, "mods": [[nm, 1 if nm in st["active"] else 0] for nm, _ in order], "inits": st["inits"],
            "conf": st["conf"], "regs": st["regs"], "opts": st["opts"], "in_domain": dom, "order": order, "active": st["active"]}


def s_dispatch(spec, c):
    if spec["status"] != "LOADED" or c not in spec["opts"]:
        return None
    for nm, m in spec["order"]:
        if nm in spec["active"] and any(x[0] == c for x in m["opts"]):
            return nm
    return None


def j_direct(case, who, pers, chain, entries, mods, obs):
    """property clauses checked straight on what the real program did; returns a list of complaints"""
    uid, euid, alt = who
    trusted = {0, uid, alt}
    bad = []
    est = {nm: (reg, owner, mode) for nm, reg, owner, mode in entries}
    chain_bad = any((owner not in trusted) or ((mode & 0o002) and not (mode & 0o1000)) for isdir, owner, mode in chain)
    for nm in obs["opened"]:
        if nm not in est:
            bad.append("code of %s was run although it is not an entry of the selected directory" % nm)
            continue
        reg, owner, mode = est[nm]
        if owner not in trusted:
            bad.append("code loaded from %s owned by uid %d (trusted: %s)" % (nm, owner, sorted(trusted)))
        if mode & 0o002:
            bad.append("code loaded from world-writable file %s (mode %o)" % (nm, mode))
        if chain_bad:
            bad.append("code loaded from %s although a directory on the path fails the ownership/world-writable test" % nm)
    listed = {nm: act for nm, act in obs["mods"]}
    for nm, act in obs["mods"]:
        m = mods.get(nm)
        if m is None:
            continue
        if not act and m["initrc"] >= 0 and nm in obs["inits"]:
            bad.append("inactive module %s had its init() run" % nm)
    for c, tgt in obs["disp"].items():
        if isinstance(tgt, str) and not tgt.startswith("ODD") and not listed.get(tgt):
            bad.append("option -%s was dispatched to %s which is not an active module" % (c, tgt))
    # two listed modules of the same type and name / a lower priority duplicate listed
    seen = {}
    for nm, act in obs["mods"]:
        m = mods.get(nm)
        if m is None:
            continue
        k = (m["type"], m["name"])
        if k in seen:
            bad.append("two modules %s/%s listed (%s and %s)" % (k[0], k[1], seen[k], nm))
        seen[k] = nm
    return bad


# ------------------------------------------------------------------ generators
LETTERS = "XYabGj"
EXTRA_LETTERS = "hwrep:"
NAMES = ["a", "b", "aa", "ab", "A", "B_", "m1", "zz", "a-b", "a.b"]
PRIOS = [100, 100, 100, 50, 150, 0, -5, 1000000, 99, 101]
WILD_PRIOS = [INT_MAX, -INT_MAX - 1, 2 ** 30 + 7, -2 ** 30 - 9, INT_MAX - 1]


def gen_mod(r, wild=False):
    nopt = r.weighted([(0, 2), (1, 5), (2, 4), (3, 2)])
    opts = []
    for _ in range(nopt):
        c = r.choice(LETTERS) if r.chance(9, 10) else r.choice(EXTRA_LETTERS)
        opts.append([c, 1 if r.chance(1, 3) else 0, r.weighted([(3, 6), (1, 2), (2, 2)])])
    return {"type": r.weighted([("misc", 7), ("rcmd", 2), ("other", 1)]), "name": r.choice(NAMES),
            "prio": r.choice(WILD_PRIOS) if wild and r.chance(1, 2) else r.choice(PRIOS), "pers": r.weighted([(3, 6), (1, 2), (2, 2)]),
            "initrc": -1 if r.chance(1, 7) else 0, "opts": opts}


def sentinel():
    """sorts last and always conflicts on -h: opt_register's debug line then shows the final option string"""
    return {"type": "misc", "name": "~~", "prio": -1000000000, "pers": 3, "initrc": 0, "opts": [["h", 0, 3]]}


def gen_modset(r, nmax=6, wild=False, allow_ties=True, exact=False):
    n = nmax if exact else r.range(1, nmax)
    ms = []
    while len(ms) < n:
        if ms and r.chance(3, 10):
            src = r.choice(ms)                       # a second file with the same type and name
            m = gen_mod(r, wild)
            m["type"], m["name"] = src["type"], src["name"]
            if allow_ties and r.chance(1, 8):
                m["prio"] = src["prio"]
        else:
            m = gen_mod(r, wild)
        ms.append(m)
    if not allow_ties:                               # keep (priority, name) a key
        seen = set()
        for m in ms:
            while (m["prio"], m["name"]) in seen:
                m["prio"] += 1
            seen.add((m["prio"], m["name"]))
    return ms


def fname(r, used):
    while True:
        f = "m%05x.so" % r.below(1 << 20)
        if used and r.chance(1, 3):
            # a name related to one already there (a shorter or longer stem, a tail of it): different files all the same
            stem = r.choice(sorted(used))[:-3]
            f = r.choice([stem[:r.range(1, len(stem) - 1)], stem + r.choice("x0a"), stem[1:], stem + ".so"]) + ".so"
        if f not in used:
            used.add(f)
            return f


def files_for(r, ms, junk=True):
    used = set()
    fl = [{"fname": fname(r, used), "kind": "mod", "owner": 0, "mode": 0o644, "mod": m} for m in ms]
    if junk and r.chance(1, 4):
        fl.append({"fname": r.choice(["README", "notes.so"]), "kind": "text", "owner": 0, "mode": 0o644, "mod": None})
    if junk and r.chance(1, 5):
        fl.append({"fname": "sub.so", "kind": "dir", "owner": 0, "mode": 0o755, "mod": None})
    if junk and r.chance(1, 8):
        fl.append({"fname": "dangling.so", "kind": "dangling", "owner": 0, "mode": 0, "mod": None})
    r.shuffle(fl)
    return fl


def gen_forced(r, ms):
    k = r.weighted([(0, 4), (1, 4), (2, 2), (3, 1)])
    names = [m["name"] for m in ms] + ["nosuch"]
    return [r.choice(names) for _ in range(k)]


def probes_for(r, ms, base):
    ls = sorted({o[0] for m in ms for o in m["opts"] if o[0].isalnum() and o[0] not in base})
    r.shuffle(ls)
    ps = ls[:3]
    if r.chance(1, 3):
        ps.append("J")                               # a letter nobody offers
    return ps


def gen_logic_case(r, wild=False):
    ms = gen_modset(r, wild=wild)
    if r.chance(4, 5):
        ms.append(sentinel())
    prog = "pdcp" if r.chance(1, 3) else "pdsh"
    return {"kind": "logic", "prog": prog, "forced": gen_forced(r, ms), "forced_via": "env" if r.chance(1, 4) else "M", "files": files_for(r, ms),
            "order": None, "chain": [[0, 0o755]], "run_as": "root", "alt": 0, "dirsel": "builtin"}


def gen_perm_group(r):
    """<= 4 modules, every enumeration order forced through the wrapped readdir"""
    ms = gen_modset(r, nmax=r.choice([2, 3, 3, 3, 4]), allow_ties=r.chance(1, 6), exact=True)
    prog = "pdcp" if r.chance(1, 3) else "pdsh"
    fl = files_for(r, ms, junk=False)
    base = {"kind": "perm", "prog": prog, "forced": gen_forced(r, ms), "forced_via": "M", "files": fl, "chain": [[0, 0o755]], "run_as": "root", "alt": 0, "dirsel": "builtin"}
    out = []
    for p in itertools.permutations([f["fname"] for f in fl]):
        c = dict(base)
        c["order"] = list(p)
        out.append(c)
    return out


DIR_MODES = [0o755, 0o755, 0o755, 0o775, 0o757, 0o1757, 0o1755, 0o1777, 0o777]
FILE_MODES = [0o644, 0o644, 0o644, 0o755, 0o664, 0o646, 0o666, 0o757]
OWNERS = [0, 0, 0, NOBODY, OTHER, STRANGER]


def gen_sec_case(r):
    n = r.range(1, 3)
    ms = []
    for i in range(n):
        ms.append({"type": "misc", "name": "s%d" % i, "prio": 100 + i, "pers": 3, "initrc": 0, "opts": [["XYa"[i], 0, 3]]})
    used = set()
    fl = []
    clean_files = r.chance(1, 3)
    for m in ms:
        fl.append({"fname": fname(r, used), "kind": "mod", "owner": 0 if clean_files else r.choice(OWNERS), "mode": 0o644 if clean_files else r.choice(FILE_MODES), "mod": m})
    depth = r.range(1, 3)
    clean_dirs = r.chance(1, 2)
    chain = [[0 if clean_dirs else r.choice(OWNERS), 0o755 if clean_dirs else r.choice(DIR_MODES)] for _ in range(depth)]
    run_as = r.weighted([("root", 4), ("nobody", 4), ("suid", 2)])
    alt = OTHER if run_as == "suid" else r.choice([0, 0, OTHER])
    dirsel = r.weighted([("builtin", 3), ("env", 3), ("env-decoy", 2)])
    case = {"kind": "sec", "prog": "pdsh" if r.chance(3, 4) else "pdcp", "forced": [], "forced_via": "M", "files": fl, "order": None, "chain": chain,
            "run_as": run_as, "alt": alt, "dirsel": dirsel}
    if dirsel == "env" and run_as == "nobody" and r.chance(1, 3):
        case["padlen"] = r.choice([4060, 4070, 4077, 4080, 4084, 4086, 4090])
    if run_as != "suid" and not case.get("padlen") and r.chance(1, 4):
        # pdsh is started by bare name and PATH leads past a third party's look-alike that exec skips; often one module file
        # belongs to that third party and everything else is clean, so that the outcome hangs on whose binary pdsh thinks it is
        lk = {"elem": r.choice(["", ".", "rel", "abs"]), "owner": r.choice([OTHER, STRANGER]), "kind": r.choice(["file", "file", "dir"] + (["file700", "file700"] if run_as == "nobody" else []))}
        case["lookup"] = lk
        if r.chance(2, 3):
            fl[0]["owner"], fl[0]["mode"] = lk["owner"], 0o644
            case["chain"] = [[0, 0o755] for _ in chain]
    if r.chance(1, 8):
        # the module directory lies on a second file system whose root has the inode number of "/"; above the mount point
        # stands a world-writable directory without the sticky bit: the walk up the ancestors must cross the mount point
        case["mounted"] = True
    return case


# ------------------------------------------------------------------ one case through implementation, model and S
class Runner:
    def __init__(self, ctx, eng, model):
        self.ctx, self.eng, self.model = ctx, eng, model

    def phase_a(self, case):
        """materialize, observe the enumeration order and the stat data, main run of the real program"""
        eng = self.eng
        D, croot = eng.materialize(case)
        who = s_who(case)
        uses_env = s_uses_env(case)
        sel = case.get("dirsel", "builtin")
        # which directory the rule selects: the case directory or the decoy
        target_is_case = (sel == "builtin") or (sel == "env" and uses_env) or (sel == "env-decoy" and not uses_env)
        T = D if target_is_case else eng.decoy
        names = case["order"] if case.get("order") is not None else os.listdir(T)
        entries = eng.stat_entries(T, names)
        chain = eng.stat_chain(T)
        if target_is_case:
            mods = {f["fname"]: f["mod"] for f in case["files"] if f["kind"] == "mod"}
        else:
            mods = {"decoy.so": eng.decoy_mod}
        pers = 2 if case["prog"] == "pdcp" else 1
        base = eng.base[case["prog"]]
        ids = {nm: i for i, nm in enumerate(names)}
        rec = {"case": case, "D": D, "croot": croot, "who": who, "pers": pers, "base": base, "entries": entries, "chain": chain, "mods": mods,
               "ids": ids, "names": names, "target_is_case": target_is_case}
        rec["probes"] = case.get("probes", [])
        rec["obs"] = eng.observe(case, D)
        return rec

    def model_line(self, rec, orig=False):
        c = rec["case"]
        return modeng.model_line(orig, rec["who"], rec["pers"], rec["base"], c["forced"], rec["probes"], rec["chain"], rec["entries"], rec["mods"], rec["ids"])


def canon(o, with_opened_order=True):
    return {"status": o["status"], "opened": o["opened"] if with_opened_order else sorted(o["opened"]), "mods": o["mods"], "inits": o["inits"], "conf": o["conf"]}


def compare(a, b, keys=("status", "opened", "mods", "inits", "conf")):
    for k in keys:
        if a.get(k) != b.get(k):
            return "%s: %r vs %r" % (k, a.get(k), b.get(k))
    return None


def case_record(rec):
    c = dict(rec["case"])
    c["probes"] = rec["probes"]
    return {"case": c, "enumeration": rec["names"], "entries": rec["entries"], "chain": rec["chain"], "who": list(rec["who"]), "raw": rec["obs"].get("raw")}


KNOWN_PERS = "F-C17-register-personality-order"
KNOWN_SUID = "F-C17-setuid-module-dir"


def sig_personality(rec):
    """a file that does not fit the personality follows, in enumeration order, a lower-priority usable file of the same type and name"""
    seen = []
    for nm in rec["names"]:
        m = rec["mods"].get(nm)
        if m is None:
            continue
        for a in seen:
            if (a["type"], a["name"]) == (m["type"], m["name"]) and m["prio"] > a["prio"] and not (m["pers"] & rec["pers"]) and (a["pers"] & rec["pers"]):
                return True
        seen.append(m)
    return False


def sig_suid(rec):
    return rec["case"]["run_as"] == "suid" and rec["case"].get("dirsel", "builtin") != "builtin"


def judge(ctx, rec, stats):
    """returns number of problems reported"""
    case, obs, mobs = rec["case"], rec["obs"], rec["mobs"]
    if sig_suid(rec) and ctx.is_known(KNOWN_SUID) and [nm for nm in obs["opened"] if nm not in rec["ids"]]:
        ctx.known_finding(KNOWN_SUID, "a set-uid pdsh honours PDSH_MODULE_DIR (privsep_init has dropped the effective uid before main() compares it)")
        return 0
    if sig_personality(rec) and ctx.is_known(KNOWN_PERS):
        spec0 = s_spec(rec["who"], rec["pers"], rec["base"], case["forced"], rec["chain"], rec["entries"], rec["mods"])
        if compare(obs, dict(spec0, opened=[nm for nm in spec0["opened"] if rec["mods"].get(nm) is not None])):
            rec["spec"] = spec0
            ctx.known_finding(KNOWN_PERS, "a module of the other personality displaces a loaded lower-priority module of the same type/name before being dropped itself: result depends on readdir order")
            return 0
    spec = s_spec(rec["who"], rec["pers"], rec["base"], case["forced"], rec["chain"], rec["entries"], rec["mods"])
    rec["spec"] = spec
    # dlopen of something that is not a shared object maps no code: only module files leave a trace
    spec["opened"] = [nm for nm in spec["opened"] if rec["mods"].get(nm) is not None]
    if "opened" in mobs:
        mobs["opened"] = [nm for nm in mobs["opened"] if rec["mods"].get(nm) is not None]
    n = 0
    cr = case_record(rec)
    # the privileged-directory rule: code of the directory that must NOT be used has not run
    wrong = [nm for nm in obs["opened"] if nm not in rec["ids"]]
    if wrong:
        ctx.violation("input", case=cr, expected="only the %s directory is used (uid %d, euid %d, PDSH_MODULE_DIR %s)" % (
            "selected" if rec["target_is_case"] else "built-in", rec["who"][0], rec["who"][1], "set" if case.get("dirsel") != "builtin" else "unset"),
            observed="code of %s was run" % wrong, engine="mod",
            detail="module directory selection: root and set-uid runs must ignore PDSH_MODULE_DIR, other users' PDSH_MODULE_DIR must be honoured")
        return 1
    for msg in j_direct(case, rec["who"], rec["pers"], rec["chain"], rec["entries"], rec["mods"], obs):
        ctx.violation("input", case=cr, expected="property clause", observed=msg, engine="mod", detail=msg)
        n += 1
        break
    if n == 0 and spec["in_domain"] and not case.get("padlen"):     # a path near PATH_MAX may be refused for its length alone: safety only
        stats["in_domain"] += 1
        d = compare(obs, spec)
        if d is None:
            for c, tgt in obs["disp"].items():
                exp = s_dispatch(spec, c)
                if tgt != exp:
                    d = "option -%s handled by %r, the module that registered it / usage error expected: %r" % (c, tgt, exp)
                    break
        if d:
            hint = ""
            if sig_personality(rec):
                hint = " [a file that does not fit the personality follows a lower-priority usable file of the same type/name in readdir order and displaces it: " \
                       "the outcome depends on the enumeration order, cf. corpus/C17/register-personality-order.json]"
            ctx.violation("input", case=cr, expected=json.dumps(canon(spec))[:1500], observed=json.dumps(canon(obs))[:1500], engine="mod",
                          detail="real loader differs from the specification (highest priority per type/name, -M first, then priority-then-name, all-or-nothing options): " + d + hint)
            n += 1
    if n == 0 and not case.get("padlen"):
        d = compare(obs, mobs)
        if d is None:
            for c, tgt in obs["disp"].items():
                if tgt != mobs["disp"].get(c):
                    d = "dispatch -%s: impl %r model %r" % (c, tgt, mobs["disp"].get(c))
                    break
        if d:
            ctx.violation("no-failing-input-found", case=cr, expected=json.dumps(canon(mobs))[:1500], observed=json.dumps(canon(obs))[:1500], engine="mod",
                          correspondence="mod: real mod_load_modules = extracted ModLoad.load on the observed enumeration order", detail="implementation and model disagree: " + d)
            n += 1
    stats[obs["status"].split(" ")[0]] = stats.get(obs["status"].split(" ")[0], 0) + 1
    return n


def load_corpus():
    out = []
    cdir = os.path.join(vlib.VERIF, "corpus", PROP)
    if os.path.isdir(cdir):
        for fn in sorted(os.listdir(cdir)):
            if fn.endswith(".json"):
                j = json.load(open(os.path.join(cdir, fn)))
                for c in (j["cases"] if "cases" in j else [j["case"]]):
                    c = dict(c)
                    c["corpus"] = fn
                    out.append(c)
    return out


def run_cases(ctx, eng, model, cases, stats, chunk=600):
    """all three phases for a list of cases, a chunk at a time (bounds the disk space in use); returns the records"""
    out = []
    for i in range(0, len(cases), chunk):
        out.extend(run_chunk(ctx, eng, model, cases[i:i + chunk], stats))
    return out


def run_chunk(ctx, eng, model, cases, stats):
    rn = Runner(ctx, eng, model)
    mods = [f["mod"] for c in cases for f in c["files"] if f["kind"] == "mod"]
    eng.ensure_fixtures(mods)
    with ThreadPoolExecutor(vlib.NPROC) as ex:
        recs = list(ex.map(rn.phase_a, cases))
    lines = [rn.model_line(r) for r in recs]
    mres = ctx.run_lines([model], lines, crash_tag="MODEL-CRASH")
    for r, l, mr in zip(recs, lines, mres):
        r["mline"] = l
        r["mobs"] = modeng.parse_model(mr, r["names"])

    def probe(r):
        m = r["mobs"]
        if r["probes"]:
            ostr = m.get("opts", "")                 # getopt looks at the first occurrence of the letter in the option string
            r["obs"]["disp"] = eng.observe_disp(r["case"], r["D"], [(c, (c in ostr and ostr[ostr.index(c) + 1:ostr.index(c) + 2] == ":")) for c in r["probes"]],
                                                r["obs"]["status"])
        eng.cleanup_case(r["croot"])
        return r
    with ThreadPoolExecutor(vlib.NPROC) as ex:
        recs = list(ex.map(probe, recs))
    return recs


def run(ctx):
    ctx.gen_params()
    ctx.prove()
    t0 = time.time()
    eng = modeng.Engine(ctx)
    model = ctx.build_runner("mod", "mod_model")
    ctx.log("builds done in %.1fs" % (time.time() - t0))
    quick = ctx.tier == "quick"
    stats = {"in_domain": 0}
    nbad = 0
    cases = load_corpus()
    ncorpus = len(cases)
    r = ctx.rng("logic")
    for i in range(260 if quick else 12000):
        c = gen_logic_case(r, wild=(i % 12 == 0))
        ms = [f["mod"] for f in c["files"] if f["kind"] == "mod"]
        c["probes"] = probes_for(r, ms, eng.base[c["prog"]])
        cases.append(c)
    r = ctx.rng("sec")
    for i in range(220 if quick else 9000):
        cases.append(gen_sec_case(r))
    if not quick:
        # exhaustive small scope: one file, one directory level, every owner x mode x caller combination
        m0 = {"type": "misc", "name": "s0", "prio": 100, "pers": 3, "initrc": 0, "opts": [["X", 0, 3]]}
        for fo in (0, NOBODY, OTHER, STRANGER):
            for fm in (0o644, 0o646):
                for do in (0, NOBODY, OTHER, STRANGER):
                    for dm in (0o755, 0o757, 0o1757):
                        for ra, alt in (("root", 0), ("root", OTHER), ("nobody", 0), ("nobody", OTHER), ("suid", OTHER)):
                            cases.append({"kind": "sec", "prog": "pdsh", "forced": [], "forced_via": "M", "order": None, "chain": [[do, dm]], "run_as": ra, "alt": alt,
                                          "files": [{"fname": "only.so", "kind": "mod", "owner": fo, "mode": fm, "mod": m0}],
                                          "dirsel": "builtin" if ra == "root" else "env"})
    # a module directory named with a path near PATH_MAX (the walk up its ancestors runs out of room) below a world-writable
    # directory: whatever the loader does about the length, no code of that directory may run
    m1 = {"type": "misc", "name": "lp", "prio": 100, "pers": 3, "initrc": 0, "opts": [["X", 0, 3]]}
    for padlen in (range(4074, 4094, 2) if quick else range(4040, 4100)):
        for chain in ([[0, 0o777]], [[0, 0o757], [0, 0o755]], [[0, 0o777]] + [[0, 0o755]] * 4, [[0, 0o757]] + [[0, 0o755]] * 7):
            cases.append({"kind": "sec", "prog": "pdsh", "forced": [], "forced_via": "M", "order": None, "chain": chain, "run_as": "nobody", "alt": 0,
                          "files": [{"fname": "lp.so", "kind": "mod", "owner": 0, "mode": 0o644, "mod": m1}], "dirsel": "env", "padlen": padlen})
    r = ctx.rng("perm")
    groups = []
    for i in range(14 if quick else 450):
        g = gen_perm_group(r)
        groups.append((len(cases), len(g)))
        cases.extend(g)
    # the same module set under two different sets of file names (the file system's own enumeration order differs)
    r = ctx.rng("rename")
    twins = []
    for i in range(30 if quick else 1000):
        ms = gen_modset(r, allow_ties=False)
        prog = "pdcp" if r.chance(1, 3) else "pdsh"
        forced = gen_forced(r, ms)
        pair = []
        for k in range(2):
            pair.append({"kind": "rename", "prog": prog, "forced": forced, "forced_via": "M", "files": files_for(r, ms, junk=False), "order": None,
                         "chain": [[0, 0o755]], "run_as": "root", "alt": 0, "dirsel": "builtin"})
        twins.append((len(cases), ms))
        cases.extend(pair)
    ctx.log("running %d cases (%d corpus)" % (len(cases), ncorpus))
    recs = run_cases(ctx, eng, model, cases, stats)
    ctx.log("%d fixtures compiled; judging" % eng.ncompiled)
    for rec in recs:
        if nbad < 8:
            nbad += judge(ctx, rec, stats)
    # determinism across forced enumeration orders
    ndet = 0
    for start, n in groups:
        g = recs[start:start + n]
        if not g[0].get("spec") or not g[0]["spec"]["in_domain"]:
            continue
        ndet += 1
        by_file = None
        for rec in g[1:]:
            d = compare(canon(g[0]["obs"], False), canon(rec["obs"], False))
            if d and nbad < 8:
                ctx.violation("input", case={"cases": [case_record(g[0])["case"], case_record(rec)["case"]]}, expected="the same result for every directory enumeration order",
                              observed=d, engine="mod", detail="the result of module loading depends on the order in which readdir() returns the files: %s vs %s: %s" % (
                                  g[0]["names"], rec["names"], d))
                nbad += 1
                break
    for start, ms in twins:
        a, b = recs[start], recs[start + 1]
        key = lambda rec: {f["fname"]: modeng.modkey(f["mod"]) for f in rec["case"]["files"]}
        ka, kb = key(a), key(b)
        ca = [[ka[x], act] for x, act in a["obs"]["mods"]], [ka[x] for x in a["obs"]["inits"]]
        cb = [[kb[x], act] for x, act in b["obs"]["mods"]], [kb[x] for x in b["obs"]["inits"]]
        if ca != cb and nbad < 8:
            ctx.violation("input", case={"cases": [case_record(a)["case"], case_record(b)["case"]]}, expected="same modules, same result", observed="%r vs %r" % (ca, cb), engine="mod",
                          detail="the same set of modules under different file names (different enumeration order %s / %s) gives a different result" % (a["names"], b["names"]))
            nbad += 1
    have_input = any(v["kind"] != "no-failing-input-found" for v in ctx.violations)
    vlib.report_proof_break(ctx, have_input)
    samples = []
    for rec in recs:
        if len(samples) < 3 and rec["obs"]["status"] == "LOADED" and len(rec["obs"]["mods"]) >= 3 and rec["obs"]["conf"]:
            samples.append({"prog": rec["case"]["prog"], "forced": rec["case"]["forced"], "enumeration": rec["names"], "listed": rec["obs"]["mods"], "inits": rec["obs"]["inits"]})
    for rec in recs:
        if len(samples) < 5 and rec["case"]["kind"] == "sec" and rec["obs"]["status"] == "REFUSED":
            samples.append({"run_as": rec["case"]["run_as"], "chain": rec["chain"], "status": "REFUSED"})
            break
    dist = {k: v for k, v in stats.items()}
    dist["kinds"] = {k: sum(1 for c in cases if c.get("kind") == k) for k in ("logic", "sec", "perm", "rename")}
    cov = vlib.proof_coverage(ctx, {
        "evaluations": len(cases), "distinct_nontrivial": len({rec["mline"] for rec in recs}),
        "rule": "generated module directories (1-7 modules: types, names, priorities incl. duplicates of a type/name, personalities, option tables with overlaps among "
                "themselves and with pdsh's own letters, failing init, junk entries) x -M/PDSH_MISC_MODULES lists x pdsh/pdcp, loaded by the real program; every enumeration "
                "order of <= 4 modules forced through a wrapped readdir, plus the file system's own order under random file names; owner/mode matrix over files and up to 3 "
                "directory levels, run as root, as nobody and set-uid with PDSH_MODULE_DIR pointing at the case or at a decoy; each case compared with the extracted model on "
                "the observed enumeration order and judged by an independent specification; distinct = distinct model input lines",
        "samples": samples, "input_distribution": dist, "corpus_cases": ncorpus, "determinism_groups": ndet, "fixtures_compiled": eng.ncompiled,
        "disagreements": nbad})
    eng.unmount()
    return ctx.finish(cov, ["dlopen/dlsym, stat and readdir are the system's; the model takes their results as inputs (stat data and enumeration order are read back from the file system)",
                            "time-of-check/time-of-use between stat and dlopen is outside the model",
                            "the built-in module directory of the rebuilt binary is set per run by harness/mod_cfg.c (stands in for the generated config.c)",
                            "forced enumeration orders come from harness/mod_readdir_wrap.c (-Wl,--wrap=readdir)"])


def replay(ctx, path):
    rec = json.load(open(path))
    ctx.gen_params()
    eng = modeng.Engine(ctx)
    model = ctx.build_runner("mod", "mod_model")
    c = rec["case"]
    cases = c["cases"] if "cases" in c else [c["case"]]
    stats = {"in_domain": 0}
    recs = run_cases(ctx, eng, model, cases, stats)
    for r in recs:
        judge(ctx, r, stats)
        print(json.dumps({"enumeration": r["names"], "impl": canon(r["obs"]), "impl_dispatch": r["obs"]["disp"], "model": canon(r["mobs"]),
                          "spec": canon(r["spec"]) if r["spec"]["in_domain"] else "outside D17"}, indent=1)[:3000])
    if len(recs) > 1:
        d = compare(canon(recs[0]["obs"], False), canon(recs[1]["obs"], False))
        print("order dependence:", d)
    return 1 if ctx.violations else 0
