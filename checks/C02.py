"""C02 - an excluded or filtered-out host is never contacted; all others survive.

Engines
  hl    harness/hl_harness.c (#include's the repo's hostlist.c) against Hostlist/HLEdit.v: find / delete_host /
        delete histories on lists with duplicates, padding twins, suffix twins and digit-ending prefixes,
        judged by a plain Python list of names.
  args  the real pdsh binary rebuilt from the tree under test (lib/realeng.py): whole -w/-x command lines,
        observed through `pdsh -Q` (final list), through the transport (harness/c02_listrcmd.c records every
        host pdsh tries to contact, -f 1 keeps the order) and, for a sample, through `-R exec ... echo %h`;
        a wall-clock limit per run is the observable of non-termination.  Compared with the extracted model
        (Args/Exclude.v, variant `fixed', ocaml/excl_runner.ml) and judged by the independent specification
        lib/c02eng.py:spec.  The regex bits handed to the model are libc's (harness/c02_regex.c); the oracle
        reads the same simple patterns with Python's re and a pattern on which the two disagree is dropped.
"""
import os, json, time, shutil
import vlib, realeng, hleng, c02eng
from vlib import hexs, unhex

PROP = "C02"
F15 = "F15-suffix-gt-2p25"
LIMIT_S = 10          # wall-clock limit of one pdsh run
Q_MAX = 900           # longest expanded list (bytes) read through -Q (its buffer is 1024 bytes)


# ------------------------------------------------------------------ hl level
HL_PFX = [b"foo", b"f", b"f1", b"n0", b"foo1-ib", b"bar"]


def hl_expr(r):
    """(text, names) of one single-pass expression"""
    p = r.choice(HL_PFX)
    k = r.weighted([("plain", 3), ("br", 5)])
    if k == "plain":
        n = p + r.choice([b"", b"1", b"01", b"10", b"2", b"12", b"3", b"003"])
        return n, [n]
    rs = c02eng.g_ranges(r)
    return p + b"[" + c02eng.ranges_text(rs) + b"]", [p + x for x in c02eng.range_nums(rs)]


def hl_history(r):
    """ops for the hl engine and what a plain list of names answers"""
    ref, ops, exp = [], [], []
    for _ in range(r.range(1, 4)):
        t, names = hl_expr(r)
        ops.append("push:" + hexs(t))
        ref += names
        exp.append(str(len(names)))
    for _ in range(r.range(2, 8)):
        k = r.weighted([("find", 4), ("delete_host", 3), ("delete", 3)])
        if k == "delete":
            t, names = hl_expr(r) if r.chance(1, 2) or not ref else (r.choice(ref), None)
            if names is None:
                names = [t]
            ops.append("delete:" + hexs(t))
            before = len(ref)
            ref = [x for x in ref if x not in set(names)]
            exp.append(str(before - len(ref)))
        else:
            pool = list(ref) + [y for x in ref[:6] for y in c02eng.twins_of(r, x)] + [b"zz9"]
            nm = r.choice(pool)
            ops.append("%s:%s" % (k, hexs(nm)))
            if k == "find":
                exp.append(str(ref.index(nm)) if nm in ref else "-1")
            else:
                if nm in ref:
                    ref.remove(nm)
                    exp.append("1")
                else:
                    exp.append("0")
    return "ops " + ";".join(ops), "OK %s|%d|%s" % (";".join(exp), len(ref), vlib.hexlist(ref))


# ------------------------------------------------------------------ args level
class Runner:
    def __init__(self, ctx):
        self.ctx = ctx
        self.real = realeng.Real(ctx, extra_mods=[(os.path.join(vlib.VERIF, "harness", "c02_listrcmd.c"), "c02list")])
        self.model = ctx.build_runner("excl", "excl_model")
        self.rx = ctx.cc([os.path.join(vlib.VERIF, "harness", "c02_regex.c")], "c02_regex", san=False)
        self.root = os.path.join(ctx.scratch, "c02files")
        os.makedirs(self.root, exist_ok=True)
        self.n = 0

    def materialise(self, case):
        """write the ^files; returns {key: absolute path}"""
        paths = {}
        if case["files"]:
            d = os.path.join(self.root, "%d" % self.n)
            self.n += 1
            os.makedirs(d, exist_ok=True)
            for k, lines in case["files"].items():
                p = os.path.join(d, k)
                paths[k] = p.encode()
                if lines is not None:
                    with open(p, "wb") as f:
                        f.write(b"".join(c02eng.expr_text(e) + b"\n" for e in lines))
        return paths

    def regex_tables(self, cases):
        """[{pat: (compiles, [hosts matched])}] from libc, and per case the patterns on which Python's re disagrees"""
        lines, idx = [], []
        for ci, c in enumerate(cases):
            uni = sorted(set(c02eng.all_target_names(c)))
            for p in c02eng.patterns(c):
                lines.append("%s %s" % (hexs(p), vlib.hexlist(uni)))
                idx.append((ci, p, uni))
        res = self.ctx.run_lines([self.rx], lines) if lines else []
        tables = [dict() for _ in cases]
        doubt = [False] * len(cases)
        for (ci, p, uni), out in zip(idx, res):
            parts = out.split(" ")
            ok = parts[0] == "1"
            bits = parts[1] if len(parts) > 1 and parts[1] != "." else ""
            hs = [h for h, b in zip(uni, bits) if b == "1"]
            tables[ci][p] = (ok, hs)
            pyc = c02eng.py_match(p, b"") is not None
            if pyc != ok or (ok and any((c02eng.py_match(p, h) is True) != (h in set(hs)) for h in uni)):
                doubt[ci] = True
        return tables, doubt

    def run_real(self, case, paths, mode):
        argv = c02eng.argv_of(case, paths)
        wenv = c02eng.env_of(case, paths)
        if mode == "Q":
            rc, out, err = self.real.run(["-Q"] + argv, timeout=LIMIT_S, env=wenv)
            if rc == -999:
                return ("HANG",)
            if rc == 0:
                last = out.rstrip(b"\n").split(b"\n")[-1] if out.strip() else b""
                if last.endswith(b"[truncated]"):
                    return ("TRUNC",)
                return ("OK", [x for x in last.split(b",") if x != b""])
            return ("OK", []) if b"no remote hosts specified" in err else ("ERRX", err[-200:])
        if mode == "contact":
            log = os.path.join(self.root, "contact.log")
            if os.path.exists(log):
                os.unlink(log)
            rc, out, err = self.real.run(["-R", "c02list", "-f", "1"] + argv + ["true"], timeout=max(LIMIT_S, 30),
                                         env=dict(wenv, C02_CONTACT_LOG=log))
            if rc == -999:
                return ("HANG",)
            hosts = []
            if os.path.exists(log):
                for ln in open(log, "rb").read().split(b"\n"):
                    if ln:
                        hosts.append(ln.split(b" ", 1)[1])
            if hosts:
                return ("OK", hosts)
            return ("OK", []) if b"no remote hosts specified" in err else ("ERRX", err[-200:])
        # mode exec: the hosts really contacted, each echoing its own name
        rc, out, err = self.real.run(["-R", "exec", "-f", "1"] + argv + ["echo", "%h"], timeout=max(LIMIT_S, 30), env=wenv)
        if rc == -999:
            return ("HANG",)
        hosts = []
        for ln in out.split(b"\n"):
            if ln:
                a, _, b = ln.partition(b": ")
                hosts.append(b if a == b else b"?" + ln)
        if hosts:
            return ("OK", hosts)
        return ("OK", []) if b"no remote hosts specified" in err else ("ERRX", err[-200:])


def canon_model(line):
    p = line.split(" ")
    if p[0] == "OK":
        names = [] if p[1] == "." else [unhex(h) for h in p[1].split(",")]
        return ("OK", names), (p[2] == "D1" if len(p) > 2 else True)
    if p[0] == "NOTARGETS":
        return ("OK", []), True
    if p[0] == "ERRX":
        return ("ERRX",), True
    return (p[0],), True


def f15_signature(expected, observed):
    """a host that should have been removed survived and its trailing digits are a number above 2^25"""
    import re as _re
    if observed[0] != "OK" or expected[0] != "OK":
        return False
    extra = [h for h in observed[1] if h not in set(expected[1])]
    if not extra or [h for h in observed[1] if h in set(expected[1])] != expected[1]:
        return False
    for h in extra:
        m = _re.search(rb"(\d+)$", h)
        if not m or int(m.group(1)) <= c02eng.MAX_HOST_SUFFIX:
            return False
    return True


def same(a, b):
    return a[0] == b[0] and (a[0] != "OK" or list(a[1]) == list(b[1]))


def pick_mode(r, exp):
    n = len(exp[1]) if exp[0] == "OK" else 0
    size = sum(len(x) + 1 for x in exp[1]) if exp[0] == "OK" else 0
    if size >= Q_MAX or n > 60:
        return "contact"
    return r.weighted([("Q", 12), ("contact", 3), ("exec", 1 if n <= 8 else 0)])


def load_corpus():
    out = []
    d = os.path.join(vlib.VERIF, "corpus", PROP)
    if os.path.isdir(d):
        for fn in sorted(os.listdir(d)):
            if fn.endswith(".json"):
                j = json.load(open(os.path.join(d, fn)))
                out.append((fn, j))
    return out


def corpus_case(r, j):
    if "big" in j:
        n, shape, pad = j["big"]
        return c02eng.big_exclusion_case(r, n, shape, pad)
    return c02eng.from_json(j["case"])


def run(ctx):
    ctx.gen_params()
    ctx.prove()
    quick = ctx.tier == "quick"
    t0 = time.time()
    # ---------------- hl level
    hl = hleng.HL(ctx)
    r = ctx.rng("hl")
    hcases, hexp = [], []
    for _ in range(600 if quick else 40000):
        c, e = hl_history(r)
        hcases.append(c)
        hexp.append(e)
    ires = hl.run_impl(hcases)
    mres = hl.run_model(hcases)
    hl_bad = 0
    for c, e, io, mo in zip(hcases, hexp, ires, mres):
        if hl_bad >= 3:
            break
        if io != e:
            hl_bad += 1
            ctx.violation("input", case={"engine": "hl", "ops": c}, expected=e[:400], observed=io[:400], engine="hl",
                          detail="hostlist find/delete history does not behave like a plain list of names (whole-name match, "
                                 "first position for find/delete_host, every occurrence for delete)")
        elif mo != io:
            hl_bad += 1
            ctx.violation("no-failing-input-found", case={"engine": "hl", "ops": c}, expected=mo[:400], observed=io[:400], engine="hl",
                          correspondence="hl: op history through hostlist.c = Hostlist/HLEdit.v step", detail="model and implementation differ")
    ctx.log("hl level: %d histories, %d problems, %.1fs" % (len(hcases), hl_bad, time.time() - t0))

    # ---------------- args level
    R = Runner(ctx)
    r = ctx.rng("args")
    cases, tags = [], []
    corpus = load_corpus()
    for fn, j in corpus:
        cases.append(corpus_case(r, j))
        tags.append({"corpus": fn, "finding": j.get("finding")})
    ncorpus = len(cases)
    # random command lines
    for _ in range(700 if quick else 40000):
        cases.append(c02eng.g_case(r))
        tags.append({})
    # every order of the words of small cases
    nperm_base = 0
    for _ in range(14 if quick else 200):
        base = c02eng.g_case(r, two=r.chance(1, 2), nfiles=1)
        nwords = sum(len(ws) for _, ws in base["opts"])
        if nwords < 3 or nwords > (5 if quick else 6):
            continue
        nperm_base += 1
        for pc in c02eng.permutations_of(base, 120 if quick else 720):
            cases.append(pc)
            tags.append({"perm_of": nperm_base})
    # exclusion files of 0 ... 2000 names, incl. ranged forms straddling the old 4096-byte buffer
    bigs = [(0, "unrelated", 0), (1, "unrelated", 0), (10, "run", 0), (100, "unrelated", 0), (2000, "run", 0)]
    bigs += [(511, "unrelated", p) for p in ((6, 7, 8, 9) if quick else range(0, 14))]
    bigs += [(600, "unrelated", 0), (2000, "unrelated", 0)] if not quick else [(600, "unrelated", 0)]
    bigs += [(40, "sparse", 0), (300, "sparse", 0), (700, "sparse", 0)] + ([] if quick else [(2500, "sparse", 0)])
    for n, shape, pad in bigs:
        cases.append(c02eng.big_exclusion_case(r, n, shape, pad))
        tags.append({"big": (n, shape, pad), "ranged_bytes": c02eng.ranged_len_unrelated(n, pad) if shape == "unrelated" else None})
    # one exclusion WORD longer than any small fixed buffer (about 4 bytes per number)
    for n, how in ((100, "x"), (300, "x"), (300, "w"), (700, "x"), (5000, "x")) + (() if quick else ((2000, "x"), (2000, "w"), (10240, "w"))):
        cases.append(c02eng.long_word_case(r, n, how))
        tags.append({"long_word": (n, how)})
    # exclusion words the parser cannot read: one item more than MAX_RANGES between the brackets; unbalanced brackets
    for n, how in ((10241, "x"), (10241, "w"), (12000, "x")) if not quick else ((10241, "x"), (10241, "w")):
        cases.append(c02eng.long_word_case(r, n, how))
        tags.append({"long_word": (n, how)})
    for text, how in ((b"foo[1-3", "x"), (b"foo[1-3", "w"), (b"foo1-3]", "x"), (b"foo[3-1]", "x")):
        cases.append(c02eng.raw_exclusion_case(r, text, how))
        tags.append({"raw_exclusion": text.decode()})
    ctx.log("args level: %d command lines (%d corpus, %d orders of %d small cases, %d exclusion files)" %
            (len(cases), ncorpus, sum(1 for t in tags if "perm_of" in t), nperm_base, len(bigs)))

    paths = [R.materialise(c) for c in cases]
    tables, doubt = R.regex_tables(cases)
    mlines = [c02eng.model_line(c, p, "fixed", t) for c, p, t in zip(cases, paths, tables)]
    # exclusion words of a thousand items and more are judged by S only: the model's list operations are quadratic in them
    big = [("long_word" in tg and tg["long_word"][0] > 800) for tg in tags]
    sub = ctx.run_lines([R.model], [ml for ml, b in zip(mlines, big) if not b], env={"OCAMLRUNPARAM": "l=4G"}, crash_tag="MODEL-CRASH", timeout_per_case=120.0)
    mres, k = [], 0
    for b in big:
        if b:
            mres.append(None)
        else:
            mres.append(sub[k]); k += 1
    dist = {"Q": 0, "contact": 0, "exec": 0, "errx": 0, "empty": 0, "hang": 0, "regex_doubt_skipped": 0, "outside_domain": 0,
            "with_duplicates": 0, "with_two_brackets": 0, "with_regex": 0, "with_files": 0}
    bad, samples, perm_groups = 0, [], {}
    for i, (c, p, tb, tg, ml, mo) in enumerate(zip(cases, paths, tables, tags, mlines, mres)):
        if bad >= 6:
            break
        if doubt[i]:
            dist["regex_doubt_skipped"] += 1
            continue

        def matches(pat, h, tb=tb):
            ok, hs = tb[pat]
            return None if not ok else (h in hs)
        exp = c02eng.spec(c, lambda pat, h: c02eng.py_match(pat, h))
        if mo is not None and mo.startswith("HANG"):
            dist["model_timeouts"] = dist.get("model_timeouts", 0) + 1      # the model did not answer in time: not compared (S still judges)
            mo = None
        mcan, indom = canon_model(mo) if mo is not None else (None, True)
        mode = pick_mode(r, exp)
        obs = R.run_real(c, p, mode)
        if obs[0] == "TRUNC":
            mode = "contact"
            obs = R.run_real(c, p, mode)
        dist[mode] += 1
        tn = c02eng.all_target_names(c)
        dist["with_duplicates"] += len(set(tn)) < len(tn)
        dist["with_two_brackets"] += any(t[0] == "br2" for _, ws in c["opts"] for wd in ws if wd[0] in ("hosts", "excl") for t in wd[1])
        dist["with_regex"] += bool(tb)
        dist["with_files"] += bool(c["files"])
        dist["outside_domain"] += not indom
        if obs[0] == "ERRX":
            dist["errx"] += 1
        elif obs[0] == "HANG":
            dist["hang"] += 1
        elif not obs[1]:
            dist["empty"] += 1
        desc = c02eng.short(c)
        rec = {"engine": "args", "mode": mode, "case": c02eng.to_json(c), "tag": {k: v for k, v in tg.items()}, "cmdline": desc}
        show = lambda v: (v[0] + " " + ",".join(x.decode("latin-1") for x in v[1]))[:600] if v[0] == "OK" else str(v)[:300]
        if "perm_of" in tg and obs[0] == "OK":
            perm_groups.setdefault(tg["perm_of"], set()).add(tuple(obs[1]))
        if not same(exp, obs):
            fid = tg.get("finding") or (F15 if f15_signature(exp, obs) else None)
            if fid and f15_signature(exp, obs) and ctx.is_known(fid):
                ctx.known_finding(fid, "a target written with a second pair of brackets whose trailing number exceeds 2^25 "
                                       "(MAX_HOST_SUFFIX) cannot be excluded by name: %s" % desc[:200])
                continue
            bad += 1
            what = ("pdsh does not finish within %d s" % LIMIT_S) if obs[0] == "HANG" else \
                   "the hosts pdsh %s differ from: targets minus every excluded name, regex filters applied, order and multiplicity kept" % (
                       {"Q": "lists with -Q", "contact": "tries to contact", "exec": "runs the command on"}[mode])
            ctx.violation("input", case=rec, expected=show(exp), observed=show(obs), engine="args", detail=what + "; " + desc)
        elif mcan is not None and not same(mcan, obs):
            bad += 1
            ctx.violation("no-failing-input-found", case=rec, expected=show(mcan), observed=show(obs), engine="args",
                          correspondence="args: final target list of pdsh = Exclude.run fixed (extracted)", detail="model and implementation differ; " + desc)
        if len(samples) < 4 and exp[0] == "OK" and 0 < len(exp[1]) < len(tn) and (tb or c["files"]) and "perm_of" not in tg:
            samples.append({"cmdline": desc[:200], "mode": mode, "final": show(obs)[:160]})
    orders_distinct = max([len(v) for v in perm_groups.values()] or [0])
    ctx.log("args level done: %d problems, modes %r, %.1fs" % (bad, {k: dist[k] for k in ("Q", "contact", "exec")}, time.time() - t0))
    have_input = any(v["kind"] != "no-failing-input-found" for v in ctx.violations)
    vlib.report_proof_break(ctx, have_input)
    cov = vlib.proof_coverage(ctx, {
        "evaluations": len(hcases) + len(cases), "distinct_nontrivial": len(set(hcases)) + len(set(mlines)),
        "rule": "hl: generated push/find/delete_host/delete histories (duplicates, padding twins foo1/foo01, suffix twins foo1/foo1-ib, "
                "digit-ending prefixes f1[2-3] vs f12) through hostlist.c and the extracted model, judged by a plain Python list. "
                "args: generated -w/-x command lines (1-3 target words incl. overlapping ranges, two-bracket words and ^files; exclusions "
                "as '-word', -x word, -x ^file, '-^file' aimed at the targets: exact names, ranges, twins that must not match; /re/ and "
                "-/re/ filters; every order of the words of small cases; exclusion files of 0..2000 names incl. ranged forms of 4093..4096 "
                "bytes) through the real binary under a %d s limit, observed with -Q, through a recording transport (-f 1) and through "
                "-R exec echo %%h; judged by lib/c02eng.py:spec and compared with the extracted model; distinct = distinct op histories + "
                "distinct model case lines" % LIMIT_S,
        "samples": samples, "input_distribution": dist, "corpus_cases": ncorpus, "hl_histories": len(hcases),
        "orders_swept": sum(1 for t in tags if "perm_of" in t), "max_distinct_results_within_one_order_group": orders_distinct,
        "disagreements": bad + hl_bad, "seconds_cases": round(time.time() - t0, 1)})
    return ctx.finish(cov, [
        "libc regcomp/regexec are trusted; the model is given the bits libc returned, the oracle reads the same simple patterns with Python's re "
        "(patterns on which the two differ are skipped and counted)",
        "termination of the implementation is observed as 'finished within %d s', not proved; the model's loops are proved to end (C02_exclusion_file_terminates)" % LIMIT_S,
        "reading a ^file into host expressions is property C10's; here files hold one expression per line",
        "domain of C02_exclusion: D02 (trailing digits of a second-bracket target <= 2^25) and D01 (numbers < 10^15) - outside it finding " + F15,
        "what the transport is asked to contact is taken as 'contacted' (harness/c02_listrcmd.c); a sample goes through the real exec module"])


def replay(ctx, path):
    rec = json.load(open(path))
    case = rec.get("case") or {}
    print(json.dumps({k: rec.get(k) for k in ("kind", "expected", "observed", "detail")}, indent=1)[:2000])
    if case.get("engine") == "hl":
        hl = hleng.HL(ctx)
        print("impl :", hl.run_impl([case["ops"]])[0][:1000])
        print("model:", hl.run_model([case["ops"]])[0][:1000])
        return 0
    if case.get("engine") == "args":
        R = Runner(ctx)
        c = c02eng.from_json(case["case"])
        p = R.materialise(c)
        tables, _ = R.regex_tables([c])
        exp = c02eng.spec(c, lambda pat, h: c02eng.py_match(pat, h))
        obs = R.run_real(c, p, case.get("mode", "Q"))
        mo = ctx.run_lines([R.model], [c02eng.model_line(c, p, "fixed", tables[0])], env={"OCAMLRUNPARAM": "l=4G"})[0]
        print("cmdline :", c02eng.short(c, p))
        print("expected:", exp)
        print("observed:", obs)
        print("model   :", canon_model(mo))
        return 0 if same(exp, obs) else 1
    return 0
