"""C09 - each host gets the right user, transport, rank and the verbatim command."""
import os, json, itertools
import vlib, c09eng, hlgen
from vlib import hexs, unhex, hexlist, unhexlist
from c09eng import s_subst, s_wire, s_assign, s_default_type, word_text

PROP = "C09"
F18 = "F18-user-two-brackets"


def lat(b):
    return b.decode("latin-1")


def unlat(s):
    return s.encode("latin-1")


# ---------------------------------------------------------------- generators
ARG_SPECIAL = [b"", b"%", b"%%", b"%%%", b"%%%%", b"%h", b"%u", b"%n", b"%x", b"a%", b"%a", b"%%h", b"%%%h", b"%h%u%n%%", b"%h%",
               b"x%%", b"%hh", b"%nn", b"%%n", b"100%", b"%\xff", b"\xff%", b"%h%h", b"a%ha%ua%na%%a%xa%", b"%H", b"%N", b"% h",
               b"%-", b"-%", b"h", b"u", b"n", b"%%u%", b"%n%n%", b"%%%%%", b"%u%%h%", b"=%h=", b"%hx%"]
ARG_ALPHA = [b"%", b"%", b"%", b"h", b"u", b"n", b"x", b"a", b" ", b"-", b"\xff", b"\x01", b"%%", b"%h", b"%u", b"%n", b"=", b"'", b"\\"]
FHOSTS = [b"h1", b"node12", b"%h", b"a%", b"n", b"x.dom.org", b"%%"]
FUSERS = [b"root", b"u", b"", b"u%n", b"%", b"bob"]
FRANKS = [0, 1, 7, 9, 10, 99, 100, 12345, 2147483647]


def gen_arg(r):
    k = r.below(10)
    if k < 3:
        return r.choice(ARG_SPECIAL)
    if k == 3:   # a special with a prefix / suffix
        return r.choice(ARG_ALPHA) + r.choice(ARG_SPECIAL) + (b"%" if r.chance(1, 3) else b"")
    return b"".join(r.choice(ARG_ALPHA) for _ in range(r.range(0, 8)))


def gen_args(r, nmax=5):
    n = r.weighted([(0, 1), (1, 4), (2, 4), (3, 3), (4, 2), (5, 1)])
    return [gen_arg(r) for _ in range(min(n, nmax))]


# host words over a small universe so that words overlap
def HW():
    P, B, T, E, B2 = "plain", "br", "text", "end", "br2"
    return [
        (P, b"a1"), (P, b"a2"), (P, b"a3"), (P, b"b7"), (P, b"a10"), (P, b"a100"), (P, b"b70"), (P, b"a1x"), (P, b"n01"), (P, b"n02"), (P, b"c1-0"), (P, b"c2-1"), (P, b"d1-ib"), (P, b"x.dom.org"),
        (P, b"A1"), (P, b"B7"), (P, b"N01"), (B, b"A", [(b"1", b"3")], (E,)),     # differ from a1, b7, n01, a[1-3] in case only: different hosts
        (B, b"a", [(b"1", b"3")], (E,)), (B, b"a", [(b"2", None), (b"4", None)], (E,)), (B, b"a", [(b"3", b"5")], (E,)),
        (B, b"n", [(b"01", b"03")], (E,)), (B, b"n", [(b"1", b"2")], (E,)), (B, b"b", [(b"7", b"8")], (E,)),
        (B, b"d", [(b"1", b"2")], (T, b"-ib")),
        (B, b"c", [(b"1", b"2")], (B2, b"-", [(b"0", b"1")], b"")),
        (B, b"c", [(b"2", None)], (B2, b"-", [(b"0", b"2")], b"")),
        (B, b"e", [(b"1", b"2")], (B2, b"r", [(b"08", b"10")], b"x")),
    ]


HOSTWORDS = HW()
HOSTWORDS_EXEC = [w for w in HOSTWORDS if not any(b"." in n for n in hlgen.denote_word(w))]
TYPES_BAD = [b"nosuch", b"", b"RECA"]
USERS = [b"bob", b"alice", b"root", b"u", b"op-1", b"x.y"]


def two_brackets(tree):
    return any(w[0] == "br" and w[3][0] == "br2" for w in tree)


def gen_reg_case(r, eng):
    """a command line mixing plain, user@ and type:user@ words; returns a dict (JSON-able after lat())"""
    config = r.choice(sorted(eng.rec))
    loaded = eng.rec[config][1]
    nw = r.weighted([(1, 2), (2, 4), (3, 4), (4, 3), (5, 2), (6, 1)])
    words = []
    for _ in range(nw):
        tree = [r.choice(HOSTWORDS)]
        if r.chance(1, 12):
            tree.append(r.choice(HOSTWORDS))     # two host words separated by a blank inside one -w word
        k = r.below(10)
        ty = us = None
        if k < 3:
            pass
        elif k < 6:
            us = r.choice(USERS)
        elif k < 8:
            ty = r.choice(loaded)
        else:
            ty, us = r.choice(loaded), r.choice(USERS)
        if ty is not None and r.chance(1, 40):
            ty = r.choice(TYPES_BAD)
        if us is not None and r.chance(1, 40):
            us = b""
        words.append((ty, us, tree))
    # split the words over one or more -w options
    groups, cur = [], []
    for w in words:
        cur.append(w)
        if r.chance(1, 3):
            groups.append(cur)
            cur = []
    if cur:
        groups.append(cur)
    optl = r.choice(USERS) if r.chance(1, 3) else None
    optR = [r.choice(loaded + [b"nosuch"] if r.chance(1, 10) else loaded) for _ in range(r.weighted([(0, 5), (1, 4), (2, 1)]))]
    envR = (r.choice(loaded + [b"nosuch"]) if r.chance(1, 8) else r.choice(loaded)) if r.chance(1, 3) else None
    # exclusion of one plain host that occurs exactly once and belongs to no two-bracket word
    excl = None
    alln = [h for _, _, t in words for h in hlgen.denote(t)]
    if r.chance(1, 4):
        cands = [h for _, _, t in words if not two_brackets(t) for h in hlgen.denote(t) if alln.count(h) == 1]
        if cands and len(alln) > 1:
            excl = r.choice(cands)
    cmd = r.choice([[b"true"], [b"echo", b"hi"], [b"echo", b"%h", b"%u"], [b"a  b", b"", b"c"], [b"x", b"%"], [b"sh", b"-c", b"echo $0; exit 3"]])
    # where -l / -R stand relative to the -w words must not matter: 0 = before, 1 = after, 2 = between the -w options
    late = r.choice([0, 0, 1, 2])
    # blanks after the commas of a -w argument are not part of the next word
    blanks = r.choice([b" ", b"\t", b"  "]) if r.chance(1, 5) else b""
    return {"part": "reg", "config": config, "groups": groups, "optl": optl, "optR": optR, "envR": envR, "excl": excl, "cmd": cmd, "late": late,
            "blanks": blanks}


RAW_WORDS = [b"a::b@a1", b"reca:@a1", b"@a1", b":bob@a1", b"bob@a1:x", b"reca:bob@a1@x", b"reca:recb:a1", b"reca::a1", b"reca:a1",
             b"bob@a1", b"exec:bob@a2", b"a:b:c@a3", b"::@a1", b"bob@@a1", b"reca:bob:x@a1", b"x@y@a2", b"reca:", b"bob@", b"a1:", b"reca::bob@a1"]


def gen_raw_case(r, eng):
    """corner words given as raw text (only words without brackets, so each names at most one literal host)"""
    ws = [r.choice(RAW_WORDS) for _ in range(r.range(1, 3))]
    if r.chance(1, 2):
        ws.insert(r.below(len(ws) + 1), b"a1")
    return {"part": "raw", "config": "A", "words": ws, "optl": r.choice(USERS) if r.chance(1, 3) else None}


# ---------------------------------------------------------------- evaluation of one case (used by run and replay)
def eval_fmt(eng, cases):
    """cases: list of ('fmt', host, user, rank, arg) | ('argv', host, user, rank, [args]) -> list of problems"""
    lines = []
    for c in cases:
        if c[0] == "fmt":
            lines.append("fmt %s %s %d %s" % (hexs(c[1]), hexs(c[2]), c[3], hexs(c[4])))
        else:
            lines.append("argv %s %s %d %s" % (hexs(c[1]), hexs(c[2]), c[3], hexlist(c[4])))
    impl = eng.run_fmt(lines)
    model = eng.run_model(lines)
    out = []
    for c, line, i, m in zip(cases, lines, impl, model):
        if c[0] == "fmt":
            exp = "OK " + hexs(s_subst(c[1], c[2], c[3], c[4]))
        else:
            exp = "OK " + hexlist([s_subst(c[1], c[2], c[3], a) for a in c[4]])
        out.append((c, line, exp, i, m))
    return out


def reg_expectation(eng, case):
    """S for a 'reg' case: ('REFUSED',) or ('RUN', [(host, module, ruser, rank)], cmdtext)"""
    loaded = eng.rec[case["config"]][1]
    words = [w for g in case["groups"] for w in g]
    for ty, us, tree in words:
        if ty is not None and ty not in loaded:
            return ("REFUSED",)
    optR = case["optR"][-1] if case["optR"] else None
    dt = s_default_type(optR, case["envR"], eng.rank_list, loaded)
    if dt is None:
        return ("REFUSED",)
    du = case["optl"] if case["optl"] is not None else eng.login
    targets = [h for _, _, t in words for h in hlgen.denote(t)]
    if case["excl"] is not None:
        targets = [h for h in targets if h != case["excl"]]
    res = []
    for k, h in enumerate(targets):
        m, u = s_assign(words, dt, du, h)
        res.append((h, m, u, k))
    return ("RUN", res, b" ".join(case["cmd"]))


def reg_argv(case):
    opts = []
    if case["optl"] is not None:
        opts += ["-l", case["optl"]]
    for t in case["optR"]:
        opts += ["-R", t]
    ws = []
    for g in case["groups"]:
        ws.append(["-w", (b"," + (case.get("blanks") or b"")).join(word_text(w) for w in g)])
    late = case.get("late", 0)
    if late == 0:
        argv = opts + [x for w in ws for x in w]
    elif late == 1:
        argv = [x for w in ws for x in w] + opts
    else:
        argv = [x for w in ws[:1] for x in w] + opts + [x for w in ws[1:] for x in w]
    if case["excl"] is not None:
        argv += ["-x", case["excl"]]
    return argv + list(case["cmd"])


def reg_model_line(eng, case, targets):
    loaded = eng.rec[case["config"]][1]
    words = [word_text(w) for g in case["groups"] for w in g]
    optR = case["optR"][-1] if case["optR"] else None
    o = lambda x: "_" if x is None else hexs(x)
    return "asg %s %s %s %s %s %s %s %s" % (hexlist(eng.rank_list), hexlist(loaded), o(optR), o(case["envR"]), o(case["optl"]),
                                            hexs(eng.login), hexlist(words), hexlist(targets))


def observe_reg(eng, config, argv, env):
    rc, recs, er = eng.run_rec(config, argv, env=env)
    if rc == -999:
        return ("HANG",), er
    if not recs and rc != 0:
        return ("REFUSED",), er
    return ("RUN", sorted([(h, m, ru, k) for (m, h, lu, ru, c, k) in recs], key=lambda x: (x[3], x[0])),
            sorted(set((lu, c) for (m, h, lu, ru, c, k) in recs))), er


def canon_model_asg(line):
    if not line.startswith("OK"):
        return ("REFUSED",) if line == "ERR" else ("MODEL?", line)
    body = line[3:]
    res = []
    if body != ".":
        for item in body.split(","):
            h, m, u, k = item.split(":")
            res.append((unhex(h), unhex(m), unhex(u), int(k)))
    return ("RUN", res)


def jcase(case):
    """JSON-able copy of a case"""
    def conv(x):
        if isinstance(x, bytes):
            return {"b": lat(x)}
        if isinstance(x, (list, tuple)):
            return [conv(y) for y in x]
        if isinstance(x, dict):
            return {k: conv(v) for k, v in x.items()}
        return x
    return conv(case)


def unj(x):
    if isinstance(x, dict) and set(x) == {"b"}:
        return unlat(x["b"])
    if isinstance(x, list):
        return [unj(y) for y in x]
    if isinstance(x, dict):
        return {k: unj(v) for k, v in x.items()}
    return x


def fix_case(c):
    """lists back to the tuples the generators produce (after JSON)"""
    def tup_tree(t):
        def word(w):
            if w[0] == "plain":
                return ("plain", w[1])
            rest = tuple(w[3])
            if rest[0] == "br2":
                rest = ("br2", rest[1], [tuple(x) for x in rest[2]], rest[3])
            return ("br", w[1], [tuple(x) for x in w[2]], rest)
        return [word(w) for w in t]
    if c.get("part") == "reg":
        c["groups"] = [[(w[0], w[1], tup_tree(w[2])) for w in g] for g in c["groups"]]
    if c.get("part") == "exec":
        c["words"] = [(w[0], w[1], tup_tree(w[2])) for w in c["words"]]
    return c


# ---------------------------------------------------------------- the parts
class Tally:
    def __init__(self):
        self.evals = 0
        self.distinct = set()
        self.dist = {}
        self.samples = []
        self.bad = 0

    def add(self, key, kind):
        self.evals += 1
        self.distinct.add(key)
        self.dist[kind] = self.dist.get(kind, 0) + 1


def report(ctx, t, kind, case, expected, observed, detail, corr=None):
    t.bad += 1
    if t.bad > 8:
        return
    if kind == "input":
        ctx.violation("input", case=jcase(case), expected=str(expected)[:600], observed=str(observed)[:600], engine="rcmd", detail=detail[:600])
    else:
        ctx.violation("no-failing-input-found", case=jcase(case), expected=str(expected)[:600], observed=str(observed)[:600], engine="rcmd",
                      correspondence=corr, detail=detail[:600])


def part_fmt(ctx, eng, t, cases, label):
    for k in range(0, len(cases), 250):
        if t.bad > 25:       # a broken tree crashes on every other case: enough is known
            break
        part_fmt_chunk(ctx, eng, t, cases[k:k + 250], label)


def part_fmt_chunk(ctx, eng, t, cases, label):
    res = eval_fmt(eng, cases)
    for c, line, exp, i, m in res:
        t.add(line, label)
        case = {"part": "fmt", "op": c[0], "host": c[1], "user": c[2], "rank": c[3], "arg": c[4]}
        if i != exp:
            what = "reads beyond the end of the argument" if i.startswith("FAULT") else ("empty argument lost (NULL)" if i == "NULL" else "wrong text")
            report(ctx, t, "input", case, exp, i, "pipecmd.c formatting of %r for host %r user %r rank %d: %s" % (c[4], c[1], c[2], c[3], what))
        elif m != i:
            report(ctx, t, "corr", case, m, i, "model and pipecmd.c disagree on %r" % (c[4],), corr="rcmd: pipecmd_format_arg/cmd_args_create = Subst.format_arg/exec_args")
        if len(t.samples) < 2 and c[0] == "argv" and len(c[4]) >= 2 and any(b"%" in a for a in c[4]):
            t.samples.append({"argv": [lat(a) for a in c[4]], "host": lat(c[1]), "user": lat(c[2]), "rank": c[3], "observed": i})


def eval_exec(eng, case):
    """'exec' case: {'words': [(None, user|None, tree)], 'optl', 'args'} -> (expected {host: argv}, observed {host: [argv]}, rc, targets info)"""
    words = case["words"]
    du = case["optl"] if case["optl"] is not None else eng.login
    targets = [h for _, _, t in words for h in hlgen.denote(t)]
    exp = {}
    info = []
    for k, h in enumerate(targets):
        _, u = s_assign(words, b"exec", du, h)
        exp[h] = [s_subst(h, u, k, a) for a in case["args"]]
        info.append((h, u, k))
    pre = (["-l", case["optl"]] if case["optl"] is not None else []) + (["-R", "exec"] if case.get("R", True) else []) + \
          ["-w", b",".join(word_text(w) for w in words)]
    rc, seen, er = eng.run_exec(pre, case["args"])
    return exp, seen, rc, info, er


def gen_exec_case(r, eng):
    nw = r.weighted([(1, 4), (2, 3), (3, 2)])
    words, used = [], set()
    for _ in range(nw):
        tree = [r.choice(HOSTWORDS_EXEC)]
        names = hlgen.denote(tree)
        if used & set(names):
            continue
        used |= set(names)
        words.append((None, r.choice(USERS) if r.chance(1, 2) else None, tree))
    if r.chance(1, 10):   # enough hosts for two-digit ranks
        tree = [("br", b"z", [(b"1", b"12")], ("end",))]
        words.append((None, None, tree))
    return {"part": "exec", "words": words, "optl": r.choice(USERS) if r.chance(1, 3) else None, "args": gen_args(r, 4), "R": r.chance(3, 4)}


def part_exec(ctx, eng, t, cases):
    mlines, owners = [], []
    for case in cases:
        exp, seen, rc, info, er = eval_exec(eng, case)
        key = repr((case["words"], case["optl"], case["args"]))
        t.add(key, "exec")
        prob = None
        for h, u, k in info:
            got = seen.get(h)
            if got is None or len(got) != 1:
                prob = "host %r ran the command %s times" % (h, 0 if got is None else len(got))
            elif got[0] != exp[h]:
                prob = "host %r (user %r, rank %d) was run with arguments %r, the command line says %r" % (h, u, k, got[0], exp[h])
            if prob:
                break
            mlines.append("argv %s %s %d %s" % (hexs(h), hexs(u), k, hexlist(case["args"])))
            owners.append((case, h, got[0]))
        if prob:
            if eng.ctx.is_known(F18) and any(two_brackets(w[2]) and w[1] is not None for w in case["words"]):
                eng.ctx.known_finding(F18, "a 'user@' word with two bracket pairs is contacted as the default user")
            else:
                report(ctx, t, "input", case, {lat(h): [lat(a) for a in v] for h, v in exp.items()}, {lat(h): [[lat(a) for a in x] for x in v] for h, v in seen.items()},
                       "pdsh -R exec: " + prob)
        if len(t.samples) < 4 and len(case["args"]) >= 2 and len(info) >= 2:
            t.samples.append({"w": [lat(word_text(w)) for w in case["words"]], "args": [lat(a) for a in case["args"]], "hosts": len(info), "rc": rc})
    mres = eng.run_model(mlines)
    for (case, h, got), m in zip(owners, mres):
        if m != "OK " + hexlist(got):
            report(ctx, t, "corr", case, m, "OK " + hexlist(got), "model and real exec disagree for host %r" % (h,), corr="rcmd: argv of the executed helper = Subst.exec_args")


def part_reg(ctx, eng, t, cases):
    mlines, owners = [], []
    for case in cases:
        exp = reg_expectation(eng, case)
        env = {"PDSH_RCMD_TYPE": case["envR"]} if case["envR"] is not None else None
        obs, er = observe_reg(eng, case["config"], reg_argv(case), env)
        key = repr((case["config"], case["groups"], case["optl"], case["optR"], case["envR"], case["excl"]))
        t.add(key, "reg-" + exp[0].lower())
        prob = None
        if obs[0] == "HANG":
            prob = "pdsh did not finish"
        elif exp[0] == "REFUSED":
            if obs[0] != "REFUSED":
                prob = "an unknown transport was accepted"
        elif obs[0] == "REFUSED":
            prob = "a valid command line was refused: " + lat(er[-200:])
        else:
            if obs[1] != exp[1]:
                d = [(e, o) for e, o in itertools.zip_longest(exp[1], obs[1]) if e != o][:1]
                prob = "contacted (host, transport, remote user, rank) %r, the command line says %r" % (d[0][1], d[0][0])
            elif obs[2] != [(eng.login, exp[2])] and exp[1]:
                prob = "local user / command text handed to the transport are %r, expected %r" % (obs[2], [(eng.login, exp[2])])
        if prob:
            sig = any(two_brackets(w[2]) and (w[0] is not None or w[1] is not None) for g in case["groups"] for w in g)
            if sig and ctx.is_known(F18):
                ctx.known_finding(F18, "a 'user@'/'type:' word with two bracket pairs is contacted with the defaults")
            else:
                report(ctx, t, "input", case, exp, obs, prob)
        else:
            mlines.append(reg_model_line(eng, case, [x[0] for x in exp[1]] if exp[0] == "RUN" else []))
            owners.append((case, obs))
        if len(t.samples) < 7 and exp[0] == "RUN" and len(exp[1]) >= 3 and sum(1 for g in case["groups"] for w in g if w[0] or w[1]) >= 2:
            t.samples.append({"argv": [lat(a) if isinstance(a, bytes) else a for a in reg_argv(case)], "env": lat(case["envR"]) if case["envR"] else None,
                              "observed": [(lat(h), lat(m), lat(u), k) for h, m, u, k in obs[1]] if obs[0] == "RUN" else obs[0]})
    mres = eng.run_model(mlines)
    for (case, obs), m in zip(owners, mres):
        cm = canon_model_asg(m)
        if cm[0] != obs[0] or (cm[0] == "RUN" and cm[1] != obs[1]):
            report(ctx, t, "corr", case, cm, obs, "model and pdsh disagree on who is contacted how", corr="rcmd: recorded rcmd_connect calls = Rcmd.assign")


def part_raw(ctx, eng, t, cases):
    """corner words: correspondence with the model (classification incl. '::', colon after at, empty fields)"""
    loaded = eng.rec["A"][1]
    cl = eng.run_model(["cls " + hexs(w) for c in cases for w in c["words"]])
    it = iter(cl)
    mlines, owners = [], []
    for case in cases:
        targets, bad = [], False
        for w in case["words"]:
            res = next(it)
            if res.startswith("OK"):
                hosts = unhex(res.split()[3])
                if hosts:
                    targets.append(hosts)
            else:
                bad = True
        argv = (["-l", case["optl"]] if case["optl"] is not None else []) + ["-w", b",".join(case["words"]), b"true"]
        obs, er = observe_reg(eng, "A", argv, None)
        t.add(repr((case["words"], case["optl"])), "raw")
        o = lambda x: "_" if x is None else hexs(x)
        mlines.append("asg %s %s _ _ %s %s %s %s" % (hexlist(eng.rank_list), hexlist(loaded), o(case["optl"]), hexs(eng.login), hexlist(case["words"]),
                                                   hexlist([] if bad else targets)))
        owners.append((case, obs))
        # S, weak form: every contacted host has its position as rank, nobody is contacted twice
        if obs[0] == "RUN" and [x[3] for x in obs[1]] != list(range(len(obs[1]))):
            report(ctx, t, "input", case, "ranks 0..n-1", obs, "ranks are not the positions in the target list")
    mres = eng.run_model(mlines)
    for (case, obs), m in zip(owners, mres):
        cm = canon_model_asg(m)
        if obs[0] == "RUN" and not obs[1] and cm == ("RUN", []):
            continue
        if cm[0] != obs[0] or (cm[0] == "RUN" and cm[1] != obs[1]):
            if obs[0] == "REFUSED" and cm == ("RUN", []):
                continue   # no target at all: pdsh refuses to run with an empty list
            report(ctx, t, "corr", case, cm, obs, "model and pdsh disagree on a corner word", corr="rcmd: get_host_rcmd_type = Rcmd.classify")


def gen_wire_case(r, k):
    pool = [b"root", b"bob", b"", b"u" * 40, b"a b", b"\xff\xfe", b"x", b"0", b"1022"]
    cmds = [b"true", b"", b"echo hi", b"a;b|c $x 'q'", b"\x01\x02", b"c" * 300, b"echo  two  blanks ", b"514", b"x\n y",
            b"L" * 2000 + b"end", b"M" * 2048, b"N" * 2049 + b" tail", b"echo " + b"w " * 2100, b"P" * 5000 + b"z"]
    f = lambda p: r.choice(p) if r.chance(2, 3) else bytes(r.range(1, 255) for _ in range(r.range(0, 12)))
    return {"part": "wire", "stderr": 1 if (k % 4 == 0) else 0, "luser": f(pool), "ruser": f(pool), "cmd": f(cmds)}


def part_wire(ctx, eng, t, cases):
    lines = ["wire %d %s %s %s" % (c["stderr"], hexs(c["luser"]), hexs(c["ruser"]), hexs(c["cmd"])) for c in cases]
    res = eng.run_wire(lines)
    mlines, owners = [], []
    for c, line, o in zip(cases, lines, res):
        t.add(line, "wire-stderr" if c["stderr"] else "wire")
        f = o.split()
        if len(f) != 5 or f[0] != "OK":
            report(ctx, t, "corr", c, "OK ...", o, "the rsh harness did not complete", corr="rcmd: xrcmd over loopback")
            continue
        got = unhex(f[2])
        port = None
        if c["stderr"]:
            first = got.split(b"\0")[0]
            if not first.isdigit() or not (512 <= int(first) < 1024) or f[4] != "1":
                report(ctx, t, "input", c, "a reserved stderr port the peer can connect back to", o, "rsh request announces stderr port %r (connected back: %s)" % (first, f[4]))
                continue
            port = int(first)
        exp = s_wire(port, c["luser"], c["ruser"], c["cmd"])
        if got != exp or f[1] != "0":
            report(ctx, t, "input", c, hexs(exp), o, "rsh request bytes differ from port NUL local-user NUL remote-user NUL command NUL")
            continue
        mlines.append("wire %s %s %s %s" % ("_" if port is None else port, hexs(c["luser"]), hexs(c["ruser"]), hexs(c["cmd"])))
        owners.append((c, got))
    for (c, got), m in zip(owners, eng.run_model(mlines)):
        mw = b"".join(unhexlist(m[3:])) if m.startswith("OK ") else None
        if mw != got:
            report(ctx, t, "corr", c, m, hexs(got), "model and xrcmd.c disagree on the request bytes", corr="rcmd: bytes received by the rsh peer = Subst.xrcmd_wire")


# ---------------------------------------------------------------- run
def corpus(eng):
    out = []
    cdir = os.path.join(vlib.VERIF, "corpus", PROP)
    if os.path.isdir(cdir):
        for fn in sorted(os.listdir(cdir)):
            if fn.endswith(".json"):
                out.append(fix_case(unj(json.load(open(os.path.join(cdir, fn)))["case"])))
    return out


def run_cases(ctx, eng, t, cases):
    fm = [c for c in cases if c["part"] == "fmt"]
    if fm:
        part_fmt(ctx, eng, t, [(c["op"], c["host"], c["user"], c["rank"], c["arg"]) for c in fm], "corpus-fmt")
    ex = [c for c in cases if c["part"] == "exec"]
    if ex:
        part_exec(ctx, eng, t, ex)
    rg = [c for c in cases if c["part"] == "reg"]
    if rg:
        part_reg(ctx, eng, t, rg)
    rw = [c for c in cases if c["part"] == "raw"]
    if rw:
        part_raw(ctx, eng, t, rw)
    wi = [c for c in cases if c["part"] == "wire"]
    if wi:
        part_wire(ctx, eng, t, wi)


def run(ctx):
    ctx.gen_params()
    ctx.prove()
    quick = ctx.tier == "quick"
    eng = c09eng.Eng(ctx)
    ctx.log("engines built; transport preference list %s" % [lat(x) for x in eng.rank_list])
    t = Tally()
    cp = corpus(eng)
    run_cases(ctx, eng, t, cp)
    ncorpus = t.evals
    # 1. substitution, unit level: specials x contexts, random, exhaustive small scope
    r = ctx.rng("fmt")
    cases = []
    for a in ARG_SPECIAL:
        cases.append(("fmt", b"h1", b"root", 7, a))
        cases.append(("fmt", r.choice(FHOSTS), r.choice(FUSERS), r.choice(FRANKS), a))
    for _ in range(1500 if quick else 120000):
        cases.append(("fmt", r.choice(FHOSTS), r.choice(FUSERS), r.choice(FRANKS), gen_arg(r)))
    for _ in range(300 if quick else 20000):
        cases.append(("argv", r.choice(FHOSTS), r.choice(FUSERS), r.choice(FRANKS), gen_args(r)))
    part_fmt(ctx, eng, t, cases, "fmt-generated")
    ex = []
    for n in range(0, (5 if quick else 7)):
        for tup in itertools.product([b"%", b"h", b"u", b"n", b"x"], repeat=n):
            ex.append(("fmt", b"H", b"U", 42, b"".join(tup)))
    part_fmt(ctx, eng, t, ex, "fmt-exhaustive")
    ctx.log("substitution (unit): %d cases, %d problems" % (t.evals - ncorpus, t.bad))
    # 2. substitution through the real binary and the real exec module
    r = ctx.rng("exec")
    part_exec(ctx, eng, t, [gen_exec_case(r, eng) for _ in range(150 if quick else 8000)])
    ctx.log("substitution (pdsh -R exec): done, %d problems so far" % t.bad)
    # 3. who is contacted how
    r = ctx.rng("reg")
    part_reg(ctx, eng, t, [gen_reg_case(r, eng) for _ in range(450 if quick else 30000)])
    r = ctx.rng("raw")
    part_raw(ctx, eng, t, [gen_raw_case(r, eng) for _ in range(80 if quick else 3000)])
    ctx.log("registry: done, %d problems so far" % t.bad)
    # 4. rsh request bytes
    r = ctx.rng("wire")
    part_wire(ctx, eng, t, [gen_wire_case(r, k) for k in range(120 if quick else 1200)])
    ctx.log("rsh wire: done, %d problems so far" % t.bad)
    have_input = any(v["kind"] != "no-failing-input-found" for v in ctx.violations)
    vlib.report_proof_break(ctx, have_input)
    cov = vlib.proof_coverage(ctx, {
        "evaluations": t.evals, "distinct_nontrivial": len(t.distinct),
        "rule": "(1) pipecmd.c #included into an ASan harness: arguments with '%' at every position, adjacent escapes, unknown %x, empty and 1-byte arguments, final lone '%', "
                "hosts/users that themselves contain '%', exhaustive over {%,h,u,n,x} up to length " + ("4" if quick else "6") + "; (2) the same through the real binary and exec module "
                "(helper printing its argv in hex) over user@ words, -l, multi-digit ranks; (3) generated command lines mixing plain, user@, type:, type:user@ words over overlapping "
                "host sets (plain, one and two bracket pairs, zero padding) in any order and split over several -w, with -l, repeated -R, PDSH_RCMD_TYPE, unknown transports, -x; "
                "every rcmd_connect call recorded by transport modules built under several names in two module-directory configurations; corner words ('::', colon after at, empty fields) "
                "against the model; (4) xrcmd over loopback against a scripted rsh peer, with and without stderr port. Each case is judged by the Python restatement of the property and "
                "compared with the extracted Coq model; distinct = distinct case lines",
        "samples": t.samples[:8], "input_distribution": t.dist, "corpus_cases": ncorpus, "disagreements": t.bad})
    return ctx.finish(cov, ["only the exec, rsh (xrcmd.c) and recording transports are built here; ssh/mrsh/... are not exercised",
                            "the final target list (expansion, exclusion) is taken from the S-side expander and cross-checked against the hosts actually contacted; its own correctness is C01/C02/C10",
                            "hostlist_pop is modelled as the reverse of hostlist_shift (same formatting); the order inside one word cannot be observed",
                            "getpwuid, getopt, the dynamic loader and the kernel's loopback TCP are the system's",
                            "the stderr port of the rsh request is chosen by rresvport: the model takes the observed port as an input and the check validates that the peer could connect back to it"])


def replay(ctx, path):
    rec = json.load(open(path))
    case = fix_case(unj(rec["case"]))
    ctx.gen_params()
    eng = c09eng.Eng(ctx)
    t = Tally()
    run_cases(ctx, eng, t, [case])
    print(json.dumps(rec.get("case"), indent=1)[:1500])
    for v in ctx.violations:
        print("REPRODUCED:", v["kind"], v.get("detail"))
        print(" expected:", v.get("expected"))
        print(" observed:", v.get("observed"))
    if not ctx.violations:
        print("not reproduced on the current tree")
    return 1 if ctx.violations else 0
