"""C20 - interrupts: batch ^C stops everything, interactive ^C only reports."""
import os, json, time
import vlib, schedeng

PROP = "C20"
T0 = 1000
SIGINT, SIGTSTP, SIGTERM = 2, 20, 15


def scenario(r):
    n = r.weighted([(1, 1), (2, 3), (3, 5), (4, 4), (5, 2)])
    f = r.range(1, n + 1)
    batch = r.chance(1, 3)
    tconn = r.choice([2, 3, 5])
    hosts, behs = [], ""
    for i in range(n):
        b = r.weighted([("o", 6), ("h", 2), ("r", 1)])
        if b == "o":
            lines = [b"o%d-%d\n" % (i, k) for k in range(r.range(0, 3))]
            data = b"".join(lines)
            cut = r.range(0, len(data)) if data else 0
            items = ["A" + x.hex() for x in (data[:cut], data[cut:]) if x]
            if r.chance(1, 4):
                # stdout ends at once, the command keeps running and talks on stderr for a while
                err = "/".join("A" + (b"e%d-%d\n" % (i, k)).hex() for k in range(r.range(3, 7)))
                hosts.append(("h%d" % i, "o", "-", err, 0))
            else:
                hosts.append(("h%d" % i, "o", "/".join(items) if items else "-", "-", 0))
        else:
            hosts.append(("h%d" % i, b, "-", "-", 0))
        behs += b
    est = 30 + 45 * n
    kind = r.weighted([("int", 4), ("int_int", 3), ("int_tstp", 3), ("tstp", 1), ("int_int_int", 1)])
    a = r.range(0, est)
    gap = r.weighted([(r.range(1, 6), 3), (r.range(6, 60), 2)])
    if kind == "int":
        sigs = "INT@%d" % a
    elif kind == "int_int":
        sigs = "INT@%d,INT@%d" % (a, a + gap)
    elif kind == "int_tstp":
        sigs = "INT@%d,TSTP@%d" % (a, a + gap)
    elif kind == "tstp":
        sigs = "TSTP@%d" % a
    else:
        sigs = "INT@%d,INT@%d,INT@%d" % (a, a + gap, a + gap + r.range(1, 40))
    return n, f, batch, tconn, behs, hosts, sigs


def expected_out(h):
    name, c, out, err, drc = h
    if out in ("-", None):
        return b""
    return b"".join(bytes.fromhex(x[1:]) for x in out.split("/") if x.startswith("A"))


def judge(run, n, f, batch, tconn, behs, hosts):
    """S on the observed behaviour.  The trace tells when the signals thread took each signal, what each
    worker's state was at that moment, what was forwarded, listed, cancelled, and how the run ended."""
    if run.deadlock:
        return "deadlock: no thread can move and pdsh has not exited"
    if run.code == -999:
        return "run did not finish (wall-clock timeout)"
    clock = T0
    last_intr = 0
    wid_host = {fl[0]: int(fl[1][1:]) for st, k, fl in run.events if k == "CONNBEGIN"}   # worker -> target, known for the whole run
    locks1 = {}           # worker -> number of LOCK m1 it performed (1: connecting, 2: reading, 3: finished)
    conn_ok = set()
    created = []          # workers in creation order
    abort_expected = False
    abort_reading = None  # set of hosts that were reading when the aborting handler took thd_mutex
    cancel_seen = False
    cancel_connecting = set()
    cancel_new = set()        # targets that had no thread when ^Z cancelled: they must never be started
    canceled_new = set()  # targets that had no thread when the cancel happened
    fwd = {}              # host -> signals forwarded by S0
    s_pending = None      # what the handler is doing: 'abort' | 'list' | 'cancel'
    listed = []
    expect_list = None
    started_targets = set()
    for st, k, fl in run.events:
        who = fl[0] if fl else ""
        if k == "TICK":
            clock = int(fl[0])
        elif k == "CREATE" and who.startswith("W"):
            created.append(who)
        elif k == "CONNBEGIN":
            wid_host[who] = int(fl[1][1:])
            started_targets.add(int(fl[1][1:]))
        elif k == "CONNECT" and fl[2] == "ok":
            conn_ok.add(who)
        elif k == "LOCK" and fl[1] == "m1" and who.startswith("W"):
            locks1[who] = locks1.get(who, 0) + 1
        elif k == "SIGWAIT":
            sg = int(fl[2])
            if sg == SIGINT:
                if batch:
                    s_pending = "abort"
                elif clock - last_intr > 1:
                    s_pending = "list"
                else:
                    s_pending = "abort"
            elif sg == SIGTSTP:
                s_pending = "cancel" if clock - last_intr <= 1 else "stop"
        elif k == "LOCK" and who == "S0":
            reading = set(wid_host[w] for w in conn_ok if locks1.get(w, 0) == 2 and w in wid_host)
            connecting = set(wid_host[w] for w in wid_host if locks1.get(w, 0) == 1)
            if fl[1] == "m1" and s_pending == "abort":
                abort_expected = True
                abort_reading = reading
            elif fl[1] == "m1" and s_pending == "list":
                expect_list = (reading, connecting)
                listed = []
            elif fl[1] == "m0" and s_pending == "cancel":
                cancel_seen = True
                cancel_connecting |= connecting      # these may come back empty-handed: they were still connecting
                started_hosts = set(wid_host.get(w, -1) for w in created)
                cancel_new |= set(range(n)) - started_hosts if all(w in wid_host for w in created) else set()
            elif s_pending not in ("abort", "list", "cancel"):
                return "the signals thread took a mutex although no handler action was due (%s)" % s_pending
        elif k == "RSIGNAL" and who == "S0":
            fwd.setdefault(int(fl[1][1:]), []).append(int(fl[3]))
        elif k == "FPUTS" and who == "S0" and fl[1] == "err" and s_pending == "list":
            if b"to cancel pending threads" in vlib.unhex(fl[2]):
                last_intr = clock        # *last_intrp = time(NULL) follows the second notice
            listed.append(vlib.unhex(fl[2]))
        elif k == "FPUTS" and who == "S0" and fl[1] == "err" and s_pending == "abort" and b"one more within" in vlib.unhex(fl[2]):
            return "an interrupt that must abort (batch mode, or a second ^C within a second of the first) was only reported"
        elif k == "UNLOCK" and who == "S0" and fl[1] == "m1" and s_pending == "list" and expect_list is not None:
            reading, connecting = expect_list
            txt = b"".join(listed)
            for h in reading:
                if (b"h%d: command in progress" % h) not in txt:
                    return "interrupt: host h%d was running a command but is not listed as 'command in progress'" % h
            for h in connecting:
                if (b"h%d: connecting" % h) not in txt:
                    return "interrupt: host h%d was connecting but is not listed as 'connecting'" % h
            for h in range(n):
                if h not in reading and (b"h%d: command in progress" % h) in txt:
                    return "interrupt: host h%d is listed as running a command but was not" % h
            expect_list = None
            s_pending = None
    if abort_expected and not (run.exit_by == "M0" and run.exit == 0 and all(run.hoststats.get("h%d" % i, (0, 0, 0))[0] == run.hoststats.get("h%d" % i, (0, 0, 0))[1] for i in range(n))):
        # (a run whose last command finished while the handler was on its way out may still end normally)
        if run.exit is None or run.exit_by != "S0" or run.exit == 0:
            return "interrupt that must abort (batch mode or second ^C within a second): pdsh did not exit promptly with a non-zero status (exit %s by %s)" % (run.exit, run.exit_by)
        for h in abort_reading:
            if SIGINT not in fwd.get(h, []):
                return "abort: the interrupt was not forwarded to the command still running on h%d" % h
        for h in fwd:
            if h not in abort_reading:
                return "abort: a signal was sent to h%d which had no command running" % h
        return None
    if abort_expected:
        fwd = {}
    if fwd:
        return "a single interrupt forwarded a signal to %s although the run must continue unharmed" % sorted(fwd)
    # the run must continue to its normal result
    if run.steplimit:
        return "pdsh does not terminate after the interrupt (step limit reached)"
    if run.exit is None:
        return "pdsh did not exit (code %s) %s" % (run.code, run.errtxt[-200:])
    if run.exit_by != "M0" or run.exit != 0:
        return "pdsh was terminated by %s with status %s although no aborting interrupt was delivered" % (run.exit_by, run.exit)
    got = {}
    for st, who, stream, data in run.outs:
        lab, sep, body = data.partition(b": ")
        if stream == "out" and sep and lab.startswith(b"h") and lab[1:].isdigit():
            got.setdefault(lab.decode(), []).append(body)
    for i, h in enumerate(hosts):
        c, d, k = run.hoststats.get("h%d" % i, (0, 0, 0))
        if i in cancel_new and c != 0:
            return "^C ^Z cancelled h%d before it was started, yet its command was started afterwards" % i
        if cancel_seen:
            if c > 1 or d > 1 or c != d:
                return "after ^C ^Z: target h%d started %d times, torn down %d times" % (i, c, d)
            if c == 0:
                continue        # cancelled before it was started
        else:
            if c != 1 or d != 1:
                return "target h%d: command started %d times, torn down %d times although the interrupt only reports" % (i, c, d)
        if behs[i] == "o":
            go = b"".join(got.get("h%d" % i, []))
            eo = expected_out(h)
            if i in cancel_connecting:
                if go not in (b"", eo):
                    return "^C ^Z: h%d was still connecting when cancelled; its output must be all or nothing, got %r of %r" % (i, go[:80], eo[:80])
            elif go != eo:
                return "output of h%d was damaged by the interrupt: relayed %r, the host wrote %r%s" % (
                    i, go[:80], eo[:80], " (^Z cancelled a host that was already running its command)" if cancel_seen else "")
    last = max([st for st, k, f_ in run.events if k in ("DESTROY", "FPUTS")] + [0])
    if run.exit_step < last:
        return "pdsh exited before the last command finished / its output was delivered"
    return None


def real_part(ctx, quick):
    """real children through the exec transport, batch mode: one ^C must reach EVERY command that is running - also one that
    has closed its stderr, also one whose process has been forked a moment ago and is not yet in a session of its own - and
    pdsh must then end with status 1.  Returns (runs, [(case, expected, observed, text)])."""
    import realeng, subprocess, signal
    def dfl():
        # whatever started this check (a background job of a non-interactive shell ignores SIGINT), pdsh starts with the
        # default disposition and nothing blocked, as under a user's terminal
        signal.signal(signal.SIGINT, signal.SIG_DFL)
        signal.signal(signal.SIGTSTP, signal.SIG_DFL)
        signal.pthread_sigmask(signal.SIG_SETMASK, set())
    real = realeng.Real(ctx, tag="real20")
    exe = os.path.join(real.dir, "bin", "pdsh")
    shim = os.path.join(ctx.scratch, "slowsetsid.so")
    brc, _ = vlib.sh(["gcc", "-shared", "-fPIC", "-O1", os.path.join(vlib.VERIF, "harness", "slowsetsid.c"), "-ldl", "-o", shim])
    problems, nruns = [], 0
    mark = os.path.join(ctx.scratch, "marks20")
    # the commands: a program started directly (sleep), and a shell that waits for a child and leaves a mark if it runs to its end
    shbody = "sleep %(tok)s & wait; echo end > %(mark)s/end.%%h"
    variants = [("a program started directly", {}, 1.0, ["sleep", "%(tok)s"]),
                ("a host has closed its stderr", {}, 1.0, ["sh", "-c", "case %%h in a) exec 2>&-;; esac; " + shbody]),
                ("a shell waiting for its child", {}, 0.8, ["sh", "-c", shbody])]
    if brc == 0:
        variants.append(("the interrupt lands between fork() and the child's setsid()", {"LD_PRELOAD": shim, "SLOWSETSID_MS": "1500"}, 0.5, ["sleep", "%(tok)s"]))
    for rep in range(1 if quick else 4):
        for name, env, delay, cmd in variants:
            import shutil
            shutil.rmtree(mark, ignore_errors=True)
            os.makedirs(mark)
            tok = "4.%d%d" % (os.getpid() % 100000, nruns)        # a sleep length that names this run
            e = {"PATH": "/usr/bin:/bin", "HOME": "/root", "LANG": "C"}
            e.update(env)
            p = subprocess.Popen([exe, "-b", "-R", "exec", "-f", "8", "-w", "a,b,c"] + [c % {"tok": tok, "mark": mark} for c in cmd], env=e,
                                 stdout=subprocess.PIPE, stderr=subprocess.PIPE, preexec_fn=dfl)
            time.sleep(delay)
            p.send_signal(signal.SIGINT)
            nruns += 1
            case = {"transport": "exec", "batch": True, "hosts": "a,b,c", "situation": name, "interrupt_after_s": delay, "command": cmd}
            try:
                o, er = p.communicate(timeout=15)
                rc = p.returncode
            except subprocess.TimeoutExpired:
                p.kill(); p.communicate()
                problems.append((case, "exit 1 after the interrupt", "still running 15 s later", "pdsh -b does not end after ^C (%s)" % name))
                continue
            if rc != 1:
                problems.append((case, "exit 1", "exit %s" % rc, "pdsh -b exits %s after ^C (%s)" % (rc, name)))
                continue
            time.sleep(2.0 if env else 0.6)
            # the command processes themselves (session leaders started by pdsh: their parent is gone, so they hang off init)
            alive = []
            for pid in os.listdir("/proc"):
                if pid.isdigit():
                    try:
                        cl = open("/proc/%s/cmdline" % pid, "rb").read().split(b"\0")
                        st = open("/proc/%s/stat" % pid).read().rsplit(")", 1)[1].split()
                    except OSError:
                        continue
                    mine = cl == [b"sleep", tok.encode(), b""] if cmd[0] == "sleep" else cl[0].endswith(b"sh")
                    if tok.encode() in b" ".join(cl) and st[1] == "1" and mine:
                        alive.append(int(pid))
            for pid in alive:
                try:
                    os.kill(pid, 9)
                except OSError:
                    pass
            subprocess.run(["pkill", "-f", "sleep %s" % tok])
            if alive:
                problems.append((case, "every running command interrupted", "%d command(s) still running after pdsh has gone" % len(alive),
                                 "batch ^C did not take effect on %d running command(s) (%s); pdsh said %r" % (len(alive), name, er[-200:])))
    # without -b: one interrupt typed at the terminal goes to the whole foreground process group of pdsh.  pdsh only lists
    # the hosts; the commands must go on unharmed to their normal result
    for rep in range(1 if quick else 4):
        e = {"PATH": "/usr/bin:/bin", "HOME": "/root", "LANG": "C"}
        p = subprocess.Popen([exe, "-R", "exec", "-f", "8", "-w", "a,b,c", "sh", "-c", "sleep 2; echo out-%h"], env=e,
                             stdout=subprocess.PIPE, stderr=subprocess.PIPE, start_new_session=True, preexec_fn=dfl)
        time.sleep(0.7)
        try:
            os.killpg(p.pid, signal.SIGINT)
        except OSError:
            pass
        nruns += 1
        case = {"transport": "exec", "batch": False, "hosts": "a,b,c", "situation": "one interrupt sent to pdsh's process group (as a terminal does)"}
        try:
            o, er = p.communicate(timeout=20)
        except subprocess.TimeoutExpired:
            p.kill(); p.communicate()
            problems.append((case, "normal end", "still running 20 s later", "pdsh does not end after a single ^C")); continue
        lines = set(o.decode("latin-1").split("\n"))
        lost = [h for h in "abc" if ("%s: out-%s" % (h, h)) not in lines]
        if p.returncode != 0 or lost:
            problems.append((case, "exit 0, output of a, b and c", "exit %s, output missing for %s" % (p.returncode, ",".join(lost) or "-"),
                             "a single ^C without -b harmed the run: exit %s, no output from %s; pdsh said %r" % (p.returncode, ",".join(lost) or "-", er[-200:])))
    # the prompt loop (commands read from standard input): one interrupt to the process group while a command runs - also right
    # after the loop has forked the process that runs it - only lists; the command and the ones after it complete
    fshim = os.path.join(ctx.scratch, "slowfork.so")
    frc, _ = vlib.sh(["gcc", "-shared", "-fPIC", "-O1", os.path.join(vlib.VERIF, "harness", "slowfork.c"), "-ldl", "-o", fshim])
    for rep, env in enumerate([{}] + ([{"LD_PRELOAD": fshim, "SLOWFORK_AFTER_MS": "1000"}] if frc == 0 else [])):
        e = {"PATH": "/usr/bin:/bin", "HOME": "/root", "LANG": "C"}
        e.update(env)
        p = subprocess.Popen([exe, "-R", "exec", "-w", "a,b"], env=e, stdin=subprocess.PIPE, stdout=subprocess.PIPE, stderr=subprocess.PIPE,
                             start_new_session=True, preexec_fn=dfl)
        try:
            p.stdin.write(b"sleep 2; echo done-%h\necho second-%h\n"); p.stdin.close()
        except OSError:
            pass
        time.sleep(0.5)
        try:
            os.killpg(p.pid, signal.SIGINT)
        except OSError:
            pass
        nruns += 1
        case = {"transport": "exec", "mode": "prompt loop", "hosts": "a,b", "situation": "one interrupt to the process group 0.5 s after the first command was entered" +
                (" (the loop lingers 1 s after each fork)" if env else "")}
        try:
            p.stdin = None
            o, er = p.communicate(timeout=30)
        except subprocess.TimeoutExpired:
            p.kill(); p.communicate()
            problems.append((case, "normal end", "still running 30 s later", "the prompt loop does not end after a single ^C")); continue
        want = [b"a: done-a", b"b: done-b", b"a: second-a", b"b: second-b"]
        lost = [w.decode() for w in want if w not in o]
        if p.returncode != 0 or lost:
            problems.append((case, "exit 0, both commands run on both hosts", "exit %s, missing %s" % (p.returncode, lost),
                             "a single ^C harmed a prompt-loop session: exit %s, missing output %s; stderr %r" % (p.returncode, lost, er[-200:])))
    return nruns, problems


def run(ctx):
    ctx.gen_params()
    ctx.prove()
    eng = schedeng.Sched(ctx)
    model = ctx.build_runner("sys", "sys_model")
    quick = ctx.tier == "quick"
    r = ctx.rng("signals")
    runs = []
    cdir = os.path.join(vlib.VERIF, "corpus", PROP)
    corpus = []
    if os.path.isdir(cdir):
        for fn in sorted(os.listdir(cdir)):
            if fn.endswith(".json"):
                corpus.append(json.load(open(os.path.join(cdir, fn))))
    for c in corpus:
        hosts = [tuple(h) for h in c["hosts"]]
        ru = eng.run(c["args"], hosts, seed=c.get("seed", 1), spur=c.get("spur", 0), sigs=c["sigs"], replay=c.get("schedule"), ptick=c.get("ptick", 5),
                     env={"SCHED_MAXSTEP": "30000"}, timeout=10)
        runs.append((ru, c["n"], c["f"], c["batch"], c["tconn"], c["behs"], hosts, c["sigs"], c.get("ptick", 5)))
    nrun = 2500 if quick else 40000
    early_bad = 0
    for k in range(nrun):
        n, f, batch, tconn, behs, hosts, sigs = scenario(r)
        ptick = r.choice([0, 5, 15])
        args = ["-R", "sim", "-f", str(f), "-t", str(tconn)] + (["-b"] if batch else []) + ["-w", "h[0-%d]" % (n - 1), "cmd"]
        # one run in four: the sigwait() that follows a delivered signal fails once with EINTR (the handler must not act on it)
        senv = {"SCHED_MAXSTEP": "30000"}
        if k % 4 == 3:
            senv["SCHED_SIGEINTR"] = "1"
        ru = eng.run(args, hosts, seed=r.next() % (1 << 31), spur=r.choice([0, 0, 1]), sigs=sigs, ptick=ptick, env=senv, timeout=10)
        runs.append((ru, n, f, batch, tconn, behs, hosts, sigs, ptick))
        if judge(ru, n, f, batch, tconn, behs, hosts):
            early_bad += 1
            if early_bad >= 5:
                break
    # small scope, exhaustively: the interrupts are delivered at EVERY choice point of the base schedule (one deviation
    # per signal), so every arrival time relative to every dispatcher/worker step of these small runs is covered
    pbstat = {}
    for (behs, f, batch, sigs, depth) in ([("oo", 1, True, "INT@0", 1), ("oo", 2, False, "INT@0", 1), ("oh", 2, False, "INT@0,TSTP@0", 2)] if quick else
                                          [("oo", 1, True, "INT@0", 2), ("oo", 2, False, "INT@0,INT@0", 2), ("oh", 2, False, "INT@0,TSTP@0", 2),
                                           ("oho", 2, False, "INT@0,TSTP@0", 2), ("ooo", 2, True, "INT@0", 1)]):
        n = len(behs)
        hosts = [("h%d" % i, "o", "A" + (b"o%d-0\n" % i).hex(), "-", 0) if b == "o" else ("h%d" % i, b, "-", "-", 0) for i, b in enumerate(behs)]
        args = ["-R", "sim", "-f", str(f), "-t", "2"] + (["-b"] if batch else []) + ["-w", "h[0-%d]" % (n - 1), "cmd"]
        if early_bad >= 5:
            break       # failing schedules in hand already: report them rather than explore further
        pr = schedeng.explore_pb(eng, args, hosts, depth, sigs=sigs, max_runs=1500 if quick else 150000, env={"SCHED_MAXSTEP": "30000"}, timeout=10)
        pbstat["%s f=%d %s%s depth=%d" % (behs, f, sigs, " -b" if batch else "", depth)] = len(pr)
        for ru in pr:
            runs.append((ru, n, f, batch, 2, behs, hosts, sigs, 0))
    cases = []
    for ru, n, f, batch, tconn, behs, hosts, sigs, ptick in runs:
        cases.append("sys %d %d %d 0 %d %s %d %s" % (n, f, tconn, 1 if batch else 0, behs, T0, " ".join(ru.sys_events())))
    ctx.log("%d interrupt scenarios run through the whole program under the controlled scheduler; validating traces against Dsh/Sys.v" % len(runs))
    acc = ctx.run_lines([model], cases, env={"OCAMLRUNPARAM": "l=4G"}, crash_tag="MODEL-CRASH")
    bad, nacc, samples = 0, 0, []
    nsched = nrej = 0
    dist = {"batch": 0, "aborts": 0, "lists": 0, "cancels": 0, "stops": 0, "signals_taken": 0}
    for (ru, n, f, batch, tconn, behs, hosts, sigs, ptick), res, case in zip(runs, acc, cases):
        dist["batch"] += 1 if batch else 0
        toks = case.split(" ")
        dist["signals_taken"] += toks.count("TK") + toks.count("RA")
        dist["aborts"] += toks.count("XS")
        dist["cancels"] += toks.count("SL0")
        dist["stops"] += toks.count("RA")
        dist["lists"] += max(0, toks.count("SL1") - toks.count("XS"))
        e = judge(ru, n, f, batch, tconn, behs, hosts)
        rec = {"n": n, "f": f, "batch": batch, "tconn": tconn, "behs": behs, "args": ru.args, "hosts": ru.hosts, "seed": ru.seed, "spur": ru.spur,
               "sigs": sigs, "ptick": ptick, "schedule": [c for c in ru.choices if c != "sig"], "engine_env": getattr(ru, "env", {})}
        if e:
            bad += 1
            nsched += 1
            if nsched <= 5:
              ctx.violation("schedule", case=rec, expected="property holds for every arrival time of the interrupts", observed=ru.summary(), engine="sched",
                          detail=e + "; trace tail: " + " | ".join(ru.lines[-14:]))
        elif not res.startswith("ACCEPT"):
            bad += 1
            nrej += 1
            if nrej <= 3:
              ctx.violation("no-failing-input-found", case=rec, expected="trace accepted by Dsh/Sys.v", observed=res, engine="sched",
                          correspondence="sched: event trace of the real program with interrupts is a run of the timed transition system", detail=res + " ; events: " + case[:1500])
        else:
            nacc += 1
        if len(samples) < 3 and ("XS" in toks or "SL0" in toks) and n >= 3:
            samples.append({"n": n, "fanout": f, "batch": batch, "signals": sigs, "events": " ".join(ru.sys_events())[:500], "exit": ru.exit, "exit_by": ru.exit_by})
        if nsched >= 5:
            break
    nreal, rprob = real_part(ctx, quick)
    for case, exp, obs, text in rprob[:3]:
        bad += 1
        ctx.violation("input", case=case, expected=exp, observed=obs, engine="exec", detail=text)
    have_input = any(v["kind"] != "no-failing-input-found" for v in ctx.violations)
    vlib.report_proof_break(ctx, have_input)
    cov = vlib.proof_coverage(ctx, {
        "evaluations": len(runs), "distinct_nontrivial": len(set(c for c in cases if len(c) > 80)),
        "traces_validated_against_impl": nacc,
        "rule": "runs of the whole pdsh program under the controlled scheduler with scripted signals: 1..5 targets (ok / refusing / hanging in connect), fanout 1..N+1, with and without -b, one of {^C, ^C ^C, ^C ^Z, ^Z, ^C ^C ^C} delivered at scheduler steps drawn over the whole run (before the first connection, between completions, during the final drain), gaps of 1..60 steps and virtual-time spacing by random clock ticks; every trace must be a run of the Coq timed transition system (signals thread included) and is judged for: abort with forwarding to exactly the running commands and non-zero exit, list-only with the run continuing unharmed to exit 0 and full output, ^Z cancelling only hosts not started or connecting, no deadlock; distinct = distinct event trace",
        "exhaustive_bounded_deviation_schedules": pbstat,
        "samples": samples, "input_distribution": dist, "corpus_cases": len(corpus), "disagreements": bad})
    return ctx.finish(cov, ["signal delivery is modelled as sigwait() returning the scripted signal at a scheduler-chosen step; real asynchronous delivery cannot differ because every other thread blocks SIGINT/SIGTSTP",
                            "interleavings at the granularity of the wrapped calls", "the transport is the scripted module"])


def replay(ctx, path):
    rec = json.load(open(path))
    c = rec["case"]
    ctx.gen_params()
    eng = schedeng.Sched(ctx)
    ru = eng.run(c["args"], [tuple(h) for h in c["hosts"]], seed=c["seed"], spur=c["spur"], sigs=c["sigs"], replay=c["schedule"], ptick=c.get("ptick", 5), env=c.get("engine_env") or None)
    print("\n".join(ru.lines[-80:]))
    print(ru.summary())
    return 0
