"""C13 - the circular buffer is a loss-free FIFO with exact drop accounting."""
import os, json
import vlib
from vlib import hexs, unhex

PROP = "C13"
SIZES = [(1, 1), (1, 3), (2, 2), (3, 7), (5, 17), (4, 4), (8, 40), (64, 131072), (64, 2100), (999, 1001), (1000, 3000), (1001, 1001), (16, 1000)]


def gen_bytes(r, n):
    # newline-rich text over a small alphabet so that line operations are exercised
    return bytes(r.weighted([(10, 3), (97, 4), (98, 3), (99, 2), (0x20, 1), (200, 1)]) for _ in range(n))


def gen_len(r, size):
    return r.weighted([(0, 1), (1, 3), (2, 2), (r.range(0, size + 2), 6), (size, 2), (size + 1, 2), (max(0, size - 1), 2),
                       (r.range(0, 3 * size + 3), 3)])


def gen_history(r, quick):
    mn, mx = r.choice(SIZES)
    big = mx > 3000
    nops = r.range(1, 12 if quick else 30)
    ops = []
    cap = mx
    for _ in range(nops):
        k = r.weighted([("w", 8), ("f", 6), ("r", 5), ("p", 2), ("d", 2), ("rl", 4), ("pl", 3), ("dl", 2), ("wl", 3), ("o", 2), ("fl", 1)])
        ref = min(cap, 70 if not big else r.choice([70, 1100, 2500]))
        if k == "w":
            ops.append("w:" + hexs(gen_bytes(r, min(gen_len(r, ref), 9000))))
        elif k == "f":
            ln = r.weighted([(-1, 6), (gen_len(r, ref), 3), (0, 1)])
            items = []
            for _ in range(r.range(0, 4)):
                c = r.weighted([("A", 7), ("E", 1), ("X", 2)])
                items.append("A" + hexs(gen_bytes(r, max(1, min(gen_len(r, ref), 9000)))) if c == "A" else c)
            ops.append("f:%d:%s" % (ln, "/".join(items)))
        elif k in ("r", "p"):
            ops.append("%s:%d" % (k, gen_len(r, ref)))
        elif k == "d":
            ops.append("d:%d" % r.weighted([(-1, 2), (gen_len(r, ref), 5)]))
        elif k in ("rl", "pl", "dl"):
            ops.append("%s:%d:%d" % (k, gen_len(r, ref), r.weighted([(-1, 4), (0, 1), (1, 5), (2, 3), (3, 1), (r.range(4, 9), 1)])))
        elif k == "wl":
            b = gen_bytes(r, min(gen_len(r, ref), 9000)).replace(b"\x00", b"a")
            ops.append("wl:" + hexs(b))
        elif k == "o":
            ops.append("o:%d" % r.below(3))
        else:
            ops.append("fl")
    return "%d %d %s" % (mn, mx, " ".join(ops))


class Spec:
    """S: the property as a plain FIFO (bytes, oldest first).  Capacity is whatever size the
    buffer reports after the operation (validated to lie in [min,max], to be monotone, and
    to have grown as far as needed or to max)."""

    def __init__(self, mn, mx):
        self.mn, self.mx = mn, max(mn, mx)
        self.fifo = b""
        self.mode = 2
        self.size = mn

    def check_state(self, st, need=None):
        used, free, size, lines = st
        errs = []
        if not (self.mn <= size <= self.mx):
            errs.append("size %d outside [%d,%d]" % (size, self.mn, self.mx))
        if size < self.size:
            errs.append("size shrank %d -> %d" % (self.size, size))
        if need is not None and size < min(self.mx, need):
            errs.append("buffer did not grow to %d (size %d, max %d)" % (need, size, self.mx))
        if used != len(self.fifo):
            errs.append("used %d but FIFO holds %d" % (used, len(self.fifo)))
        if free != size - used:
            errs.append("free %d != size-used %d" % (free, size - used))
        if used > size:
            errs.append("holds more than its size")
        if lines != self.fifo.count(b"\n"):
            errs.append("lines_used %d but contents have %d" % (lines, self.fifo.count(b"\n")))
        self.size = size
        return errs

    def lines_bytes(self, chars, lines):
        """bytes making up `lines` whole lines (all or nothing) or, for -1, as many whole lines as fit in chars"""
        f = self.fifo
        if lines == 0:
            return 0
        if lines > 0:
            pos = -1
            for _ in range(lines):
                pos = f.find(b"\n", pos + 1)
                if pos < 0:
                    return 0
            return pos + 1
        if chars <= 0:
            return 0
        k = f.rfind(b"\n", 0, chars)
        return k + 1


def judge_history(case, out):
    """S-oracle on the implementation's own output. Returns list of error strings."""
    f = case.split(" ")
    mn, mx = int(f[0]), int(f[1])
    ops = f[2:]
    steps = out.split(" ")
    if out == "NOCREATE":
        return [] if mn <= 0 else ["create refused"]
    if len(steps) != len(ops) + 1:
        return ["malformed output"]
    sp = Spec(mn, mx)

    def st(s):
        return tuple(int(x) for x in s.split("|")[1].split(","))
    errs = sp.check_state(st(steps[0]))
    armed = False
    for op, so in zip(ops, steps[1:]):
        res = so.split("|")[0].split(",")
        a = op.split(":")
        need = None
        e = []
        if a[0] in ("w", "f", "wl"):
            size_after = st(so)[2]
            if a[0] == "w":
                data = unhex(a[1])
                n = int(res[0]); nd = int(res[1])
                need = len(sp.fifo) + len(data)
                if len(data) == 0:
                    exp_n, exp_nd, newf = 0, 0, sp.fifo
                elif sp.mode == 0:
                    room = size_after - len(sp.fifo)
                    k = min(len(data), room)
                    exp_n, exp_nd, newf = (k if k > 0 else -1), 0, sp.fifo + data[:max(k, 0)]
                elif sp.mode == 1:
                    k = min(len(data), size_after)
                    tot = sp.fifo + data[:k]
                    exp_n, exp_nd, newf = k, max(0, len(tot) - size_after), tot[-size_after:]
                else:
                    tot = sp.fifo + data
                    exp_n, exp_nd, newf = len(data), max(0, len(tot) - size_after), tot[-size_after:]
                if (n, nd) != (exp_n, exp_nd):
                    e.append("write returned (%d,%d), FIFO spec says (%d,%d)" % (n, nd, exp_n, exp_nd))
                sp.fifo = newf
            elif a[0] == "f":
                n = int(res[0]); nd = int(res[1])
                if len(res) > 2 and res[2].startswith("TOOK"):
                    e.append("write_from_fd took %s bytes from the descriptor but accounts for %d: the rest is neither stored nor reported as dropped" % (res[2][4:], max(n, 0)))
                # the delivered bytes: the first n bytes of the concatenated available data before the first E / X boundary rules
                avail = b""
                for it in (a[2].split("/") if len(a) > 2 and a[2] else []):
                    if it.startswith("A"):
                        avail += unhex(it[1:])
                if n > 0:
                    tot = sp.fifo + avail[:n]
                    if sp.mode == 0 and len(tot) > size_after:
                        e.append("no-drop write_from_fd overflowed")
                    exp_nd = max(0, len(tot) - size_after)
                    if nd != exp_nd:
                        e.append("write_from_fd dropped %d, FIFO spec says %d" % (nd, exp_nd))
                    sp.fifo = tot[-size_after:]
                    if n > len(avail):
                        e.append("more bytes written than the descriptor delivered")
            else:
                s = unhex(a[1]) if a[1] != "-" else b""
                n = int(res[0]); nd = int(res[1])
                line = s if s.endswith(b"\n") else s + b"\n"
                need = len(sp.fifo) + len(line)
                if sp.mode == 0 and len(line) > size_after - len(sp.fifo):
                    exp = (-1, 0, sp.fifo)
                elif sp.mode == 1 and len(line) > size_after:
                    exp = (-1, 0, sp.fifo)
                else:
                    tot = sp.fifo + line
                    exp = (len(line), max(0, len(tot) - size_after), tot[-size_after:])
                if (n, nd) != exp[:2]:
                    e.append("write_line returned (%d,%d), FIFO spec says (%d,%d)" % (n, nd, exp[0], exp[1]))
                sp.fifo = exp[2]
        elif a[0] in ("r", "p"):
            ln = int(a[1]); n = int(res[0]); got = unhex(res[1]) if res[1] != "-" else b""
            exp = sp.fifo[:ln]
            if n != len(exp) or got != exp:
                e.append("%s delivered %r, FIFO spec says %r" % (a[0], got[:40], exp[:40]))
            if a[0] == "r":
                sp.fifo = sp.fifo[len(exp):]
        elif a[0] == "d":
            ln = int(a[1]); n = int(res[0])
            k = len(sp.fifo) if ln == -1 else min(ln, len(sp.fifo))
            if ln < -1:
                k = -1
            if n != k:
                e.append("drop returned %d, spec %d" % (n, k))
            sp.fifo = sp.fifo[max(k, 0):]
        elif a[0] in ("rl", "pl", "dl"):
            ln = int(a[1]); lines = int(a[2]); n = int(res[0])
            chars = ln if a[0] == "dl" else ln - 1
            k = sp.lines_bytes(chars, lines)
            if n != k:
                e.append("%s returned %d, spec says %d bytes of whole lines" % (a[0], n, k))
            elif a[0] != "dl" and k > 0 and ln > 0:
                exp = sp.fifo[:min(k, ln - 1)]
                if res[1] == "UNTERMINATED" or res[1] == "_" or (unhex(res[1]) if res[1] != "-" else b"") != exp:
                    e.append("%s text %s, spec %r" % (a[0], res[1][:40], exp[:20]))
            if a[0] != "pl" and n == k:
                sp.fifo = sp.fifo[k:]
        elif a[0] == "RF":
            armed = True          # an allocation fault armed: no effect on the contents; growth is no longer demanded
        elif a[0] == "o":
            sp.mode = int(a[1])
        elif a[0] == "fl":
            sp.fifo = b""
        e += sp.check_state(st(so), None if armed else need)
        if e:
            errs += ["after %s: %s" % (op[:40], x) for x in e]
            break
    return errs


class Engine:
    def __init__(self, ctx):
        self.ctx = ctx
        self.impl = ctx.cc([os.path.join(vlib.VERIF, "harness", "cbuf_harness.c")], "cbuf_harness", flags=["-D_GNU_SOURCE"], libs=["-lpthread"])
        self.model = ctx.build_runner("cbuf", "cbuf_model")

    def run_impl(self, cases):
        return self.ctx.run_lines([self.impl], cases)

    def run_model(self, cases):
        return self.ctx.run_lines([self.model], cases, env={"OCAMLRUNPARAM": "l=4G"}, crash_tag="MODEL-CRASH")


def shrink(eng, case):
    """delta-debug the op list while impl and model still disagree or S still fails"""
    f = case.split(" ")
    head, ops = f[:2], f[2:]

    def bad(o):
        c = " ".join(head + o)
        i = eng.run_impl([c])[0]
        m = eng.run_model([c])[0]
        return i != m or bool(judge_history(c, i)) or i.startswith("CRASH")
    changed = True
    while changed and len(ops) > 1:
        changed = False
        for k in range(len(ops)):
            o2 = ops[:k] + ops[k + 1:]
            if o2 and bad(o2):
                ops = o2
                changed = True
                break
    return " ".join(head + ops)


def run(ctx):
    ctx.gen_params()
    ctx.prove()
    eng = Engine(ctx)
    quick = ctx.tier == "quick"
    r = ctx.rng("histories")
    cases = []
    cdir = os.path.join(vlib.VERIF, "corpus", PROP)
    if os.path.isdir(cdir):
        for fn in sorted(os.listdir(cdir)):
            if fn.endswith(".json"):
                cases.append(json.load(open(os.path.join(cdir, fn)))["case"])
    ncorpus = len(cases)
    n = 6000 if quick else 150000
    for _ in range(n):
        cases.append(gen_history(r, quick))
    if not quick:
        # exhaustive small scope: all histories of length <= 4 over a small op alphabet on tiny buffers
        import itertools
        alpha = ["w:61", "w:610a", "w:0a6162", "r:1", "r:2", "rl:8:1", "pl:1:1", "d:1", "f:-1:A610a62/X", "o:0", "o:1", "wl:61"]
        for mn, mx in ((1, 1), (1, 3), (2, 2)):
            for L in range(1, 5):
                for ops in itertools.product(alpha, repeat=L):
                    cases.append("%d %d %s" % (mn, mx, " ".join(ops)))
    ctx.log("running %d histories" % len(cases))
    impl = eng.run_impl(cases)
    model = eng.run_model(cases)
    opdist, bad, samples = {}, 0, []
    nontriv = set()
    for c, i, m in zip(cases, impl, model):
        for op in c.split(" ")[2:]:
            k = op.split(":")[0]
            opdist[k] = opdist.get(k, 0) + 1
        if len(c.split(" ")) > 3:
            nontriv.add(c)
        errs = [] if i.startswith(("CRASH", "HANG")) else judge_history(c, i)
        problem = None
        if i.startswith(("CRASH", "HANG")):
            problem = ("input", "implementation fault: " + i)
        elif errs:
            problem = ("input", "; ".join(errs[:3]))
        elif i != m:
            problem = ("corr", "implementation and model disagree")
        if problem:
            bad += 1
            small = shrink(eng, c) if len(c) < 4000 else c
            i2 = eng.run_impl([small])[0]
            m2 = eng.run_model([small])[0]
            if problem[0] == "input" and not i2.startswith(("CRASH", "HANG")):
                e2 = judge_history(small, i2)
                if e2:
                    problem = ("input", "; ".join(e2[:3]))
            if problem[0] == "input":
                ctx.violation("input", case=small, expected=m2[:500], observed=i2[:500], engine="cbuf", detail=problem[1])
            else:
                ctx.violation("no-failing-input-found", case=small, expected=m2[:500], observed=i2[:500], engine="cbuf",
                              correspondence="cbuf: step-by-step return values, bytes, used/free/size/lines_used", detail=problem[1])
            if bad >= 5:
                break
        if len(samples) < 2 and len(c) < 200 and len(c.split(" ")) > 6:
            samples.append({"history": c, "impl": i})
    # ---- growth steps that run out of memory: the k-th realloc fails once (implementation and the FIFO specification only; the
    #      model has no allocator).  The buffer keeps its size, nothing is lost or invented, no byte is stored outside it (ASan)
    rf = ctx.rng("alloc-faults")
    fcases = []
    for _ in range(300 if quick else 6000):
        mn, mx = rf.choice([(1, 40), (8, 3000), (64, 131072), (5, 17), (64, 1999)])
        ops = []
        for _ in range(rf.range(2, 9)):
            k = rf.weighted([("w", 6), ("f", 3), ("r", 3), ("RF", 3), ("o", 1), ("rl", 1)])      # cbuf_write_line (never called by pdsh) retries a failed growth step on its own terms and is left out here
            if k == "w":
                ops.append("w:" + hexs(gen_bytes(rf, rf.choice([1, 30, 70, 100, 990, 1001, 2500]))))
            elif k == "wl":
                ops.append("wl:" + hexs(gen_bytes(rf, rf.choice([5, 70, 100, 1500])).replace(b"\n", b"x")))
            elif k == "f":
                ops.append("f:-1:A%s/X" % hexs(gen_bytes(rf, rf.choice([10, 80, 1200]))))
            elif k == "r":
                ops.append("r:%d" % rf.choice([1, 10, 100, 5000]))
            elif k == "RF":
                ops.append("RF:%d" % rf.choice([1, 1, 2]))
            elif k == "o":
                ops.append("o:%d" % rf.below(3))
            else:
                ops.append("rl:%d:%d" % (rf.choice([10, 200, 4000]), rf.choice([-1, 1, 2])))
        fcases.append("%d %d %s" % (mn, mx, " ".join(ops)))
    fo = eng.run_impl(fcases)
    nf = 0
    for c, i in zip(fcases, fo):
        nf += 1
        pr = "implementation fault: " + i if i.startswith(("CRASH", "HANG")) else "; ".join(judge_history(c, i)[:3])
        if pr:
            bad += 1
            ctx.violation("input", case=c, expected="the plain FIFO (a growth step that cannot allocate leaves the buffer as it was)", observed=i[:500], engine="cbuf", detail=pr)
            if bad >= 8:
                break
    opdist["alloc_fault_histories"] = nf
    have_input = any(v["kind"] != "no-failing-input-found" for v in ctx.violations)
    vlib.report_proof_break(ctx, have_input)
    cov = vlib.proof_coverage(ctx, {
        "evaluations": len(cases), "distinct_nontrivial": len(nontriv),
        "rule": "operation histories (write, write_from_fd with short reads/EAGAIN/EOF scripts, read, peek, drop, read/peek/drop_line with lines in {-1,0,1,2,..}, write_line, mode switches, flush) on tiny (1/1,1/3,2/2,5/17), chunk-boundary (999..1001) and pdsh-sized (64/131072) buffers; compared step by step with the extracted model and judged by an independent plain-FIFO specification; non-trivial = at least two operations; distinct = distinct history",
        "samples": samples, "input_distribution": opdist, "corpus_cases": ncorpus, "disagreements": bad,
        "exhaustive": False})
    return ctx.finish(cov, ["read(2) replaced by a scripted descriptor in the harness (short reads, EAGAIN, EOF)",
                            "realloc keeps old contents (new bytes unspecified)", "pdsh's NDEBUG build of cbuf.c (size_meta = 1)",
                            "replay/rewind/copy/move are not modelled (pdsh never calls them)"])


def replay(ctx, path):
    rec = json.load(open(path))
    ctx.gen_params()
    eng = Engine(ctx)
    c = rec["case"]
    i = eng.run_impl([c])[0]
    print("history  :", c[:500])
    print("impl now :", i[:500])
    print("model now:", eng.run_model([c])[0][:500])
    print("S-oracle :", judge_history(c, i))
    return 0
