"""C16 - host-list editing behaves like editing a plain list of names.

Histories of public hostlist_* calls (push, shift, pop, count, nth, find, delete_host, delete_nth, delete,
uniq, and up to three live iterators with next / remove / reset / destroy) are run on the real hostlist.c
(ASan+UBSan) and on the extracted Coq model (Hostlist/HLEdit.v); both are compared step by step, and the
implementation's answers are judged by `Ref` below: a plain Python list of names with cursor iterators
(the specification S of Hostlist/HLEditSpec.v, restated independently)."""
import os, json
import vlib, hlgen, hleng
from vlib import hexs, unhex

PROP = "C16"
MAX_HOST_SUFFIX = 1 << 25

F_UNIQ = "C16-uniq-mixed-representation"
F_FIND = "C16-find-suffix-limit"


# ------------------------------------------------------------------ S: the plain-list reference
class Contract(Exception):
    """the history calls an operation outside its contract (generator bug, never the code's fault)"""


class Ref:
    def __init__(self):
        self.L = []
        self.its = {}       # handle -> [pos, cur]   pos = names already returned; cur = the name returned last is still there
        self.nit = 0

    def remove_at(self, p):
        del self.L[p]
        for it in self.its.values():
            if it[0] is not None and p < it[0]:
                if p == it[0] - 1:
                    it[1] = False
                it[0] -= 1

    def apply(self, op, arg, uniq_result=None):
        """returns the expected observable: bytes name / None / int / 'u' / ('uniq', before)"""
        L = self.L
        if op == "push":
            L.extend(arg)
            return len(arg)
        if op == "shift":
            if not L:
                return None
            h = L[0]
            self.remove_at(0)
            return h
        if op == "pop":
            if not L:
                return None
            h = L[-1]
            self.remove_at(len(L) - 1)
            return h
        if op == "count":
            return len(L)
        if op == "nth":
            if arg < 0:
                raise Contract("nth of a negative position")
            return L[arg] if arg < len(L) else None
        if op == "find":
            return L.index(arg) if arg in L else -1
        if op == "delete_host":
            if arg in L:
                self.remove_at(L.index(arg))
                return 1
            return 0
        if op == "delete_nth":
            if not 0 <= arg < len(L):
                raise Contract("delete_nth outside the list")
            self.remove_at(arg)
            return 1
        if op == "delete":
            n = 0
            for name in reversed(arg):
                while name in L:        # every occurrence (hostlist_delete after fixes/C02-delete-all-occurrences)
                    self.remove_at(L.index(name))
                    n += 1
            return n
        if op == "uniq":
            before = list(L)
            # the order after sorting is the code's own: S only demands each distinct name once, none lost.
            # The list continues as observed (validated by the caller), or in first-occurrence order when planning.
            if uniq_result is None:
                seen, out = set(), []
                for x in sorted(L):
                    if x not in seen:
                        seen.add(x)
                        out.append(x)
                self.L = out
            else:
                self.L = list(uniq_result)
            # a list holding names of two different prefixes consists of at least two ranges: hostlist_uniq then sorts it and
            # REWINDS every live iterator (each goes on from the start of the new list).  A list of one prefix may be a single
            # range, which uniq leaves alone, iterators included: there the positions are unspecified until the iterator is reset.
            self.rewound = len({x.rstrip(b"0123456789") for x in before}) >= 2
            for it in self.its.values():
                if self.rewound:
                    it[0], it[1] = 0, False
                else:
                    it[0], it[1] = None, False
            return ("uniq", before)
        if op == "iter_new":
            h = self.nit
            self.nit += 1
            self.its[h] = [0, False]
            return h
        it = self.its.get(arg)
        if it is None:
            raise Contract("dead iterator")
        if op == "iter_reset":
            it[0], it[1] = 0, False
            return "u"
        if op == "iter_destroy":
            del self.its[arg]
            return "u"
        if it[0] is None:
            raise Contract("iterator used after uniq without reset")
        if op == "iter_next":
            if it[0] < len(L):
                it[0] += 1
                it[1] = True
                return L[it[0] - 1]
            it[1] = False
            return None
        if op == "iter_remove":
            if not it[1]:
                raise Contract("remove without a current host")
            self.remove_at(it[0] - 1)
            return 1
        raise Contract("unknown op " + op)


def uniq_ok(before, after):
    return len(set(after)) == len(after) and set(after) == set(before)


# ------------------------------------------------------------------ generators
STEMS = [b"a", b"b", b"n", b"a1", b"a01", b"n-", b"x9y", b"a1b", b"", b"7"]


def edit_word(r, stems):
    """one word over a small pool of prefixes so that names collide across words: ranges with natural and
    padded widths, overlaps, digit-ending prefixes, plain numbered and unnumbered names"""
    p = r.choice(stems)
    k = r.weighted([("range", 6), ("plainnum", 3), ("plain", 1), ("list", 2), ("sfx", 1)])
    if k == "plain":
        return ("plain", (p or b"h") + r.choice([b"", b"x", b"-ib", b".c"]))
    lo = r.weighted([(r.range(0, 12), 6), (r.choice([8, 9, 10, 98, 99, 100]), 3), (r.range(0, 130), 1)])
    w = len(str(lo)) + r.weighted([(0, 5), (1, 3), (2, 1)])
    if k == "plainnum":
        return ("plain", p + hlgen.fmtw(w, lo))
    span = r.weighted([(0, 2), (1, 3), (2, 3), (r.range(3, 7), 3)])
    rs = [(hlgen.fmtw(w, lo), None if span == 0 and r.chance(1, 2) else hlgen.fmtw(len(str(lo + span)), lo + span))]
    if k == "list":
        lo2 = r.weighted([(lo + span + 1, 3), (lo + span + 2, 2), (r.range(lo, lo + span), 2), (r.range(0, 12), 2)])
        w2 = r.weighted([(w, 4), (len(str(lo2)), 3), (len(str(lo2)) + 1, 2)])
        w2 = max(w2, len(str(lo2)))
        sp2 = r.range(0, 3)
        rs.append((hlgen.fmtw(w2, lo2), None if sp2 == 0 else hlgen.fmtw(len(str(lo2 + sp2)), lo2 + sp2)))
    if k == "sfx":
        return ("br", p, rs, ("text", r.choice([b"-ib", b"x", b"-1", b"e0"])))
    return ("br", p, rs, ("end",))


def gen_expr(r, stems):
    """(text, expansion) of a valid expression within the theorem's domain"""
    for _ in range(50):
        if r.chance(1, 5):
            t = hlgen.gen_tree(r)
        else:
            t = [edit_word(r, stems) for _ in range(r.weighted([(1, 5), (2, 4), (3, 2)]))]
        if any(w[0] == "br" and w[3][0] == "br2" for w in t):
            continue            # names with brackets belong to the second pass (C01), not to list editing
        ok, _ = hlgen.in_domain(t)
        if not ok or hlgen.tree_weight(t) > 24:
            continue
        names = hlgen.denote(t)
        if any(not d02(n) or len(n) > 60 for n in names):
            continue
        return hlgen.render(t, hlgen.gen_seps(r, len(t))), names
    return b"h1", [b"h1"]


def numeric_tail(name):
    i = len(name)
    while i > 0 and name[i - 1:i].isdigit():
        i -= 1
    return name[i:]


def d02(name):
    """D02: the decimal value of the trailing digits does not exceed MAX_HOST_SUFFIX (beyond it the code treats
    a name handed to find/delete_host as opaque although a bracket can build it)"""
    t = numeric_tail(name)
    return not t or int(t) <= MAX_HOST_SUFFIX


def twin(r, name):
    """a name that differs from `name` the way a careless comparison would confuse"""
    t = numeric_tail(name)
    stem = name[:len(name) - len(t)]
    k = r.below(7)
    if t:
        n = int(t)
        if k == 0:
            return stem + b"0" + t                      # foo1 / foo01
        if k == 1:
            return name + r.choice([b"0", b"1"])         # foo1 / foo10
        if k == 2 and len(t) > 1:
            return stem + t[:-1]                        # foo10 / foo1
        if k == 3 and t[0:1] == b"0" and len(t) > 1:
            return stem + t[1:]                         # foo01 / foo1
        if k == 4:
            return stem + hlgen.fmtw(len(t), n + r.choice([1, -1]) if n else 1)
        if k == 5:
            return name + r.choice([b"-ib", b"x"])
        return stem[:-1] + t if stem else b"q" + t
    return name + r.choice([b"1", b"0", b"x"]) if k < 4 else name[:-1] or b"z"


class Plan:
    """generates one history online against the planning reference"""

    def __init__(self, r, nops, allow_uniq):
        self.r, self.nops, self.allow_uniq = r, nops, allow_uniq
        self.ref = Ref()
        self.ops = []           # (op, text-arg, ref-arg)
        self.pending_uniq = False
        self.stems = [r.choice(STEMS) for _ in range(r.range(1, 3))]
        self.maxit = r.weighted([(0, 1), (1, 4), (2, 3), (3, 3)])
        self.used_names = []

    def emit(self, op, text=None, arg=None):
        self.ops.append((op, text, arg))
        return self.ref.apply(op, arg)

    def pick_name(self):
        r, L = self.r, self.ref.L
        k = r.weighted([("present", 6 if L else 0), ("twin", 3 if L else 0), ("gone", 2 if self.used_names else 0), ("fresh", 1)])
        if k == "present":
            return r.choice(L)
        if k == "twin":
            for _ in range(5):
                n = twin(r, r.choice(L))
                if d02(n) and n:
                    return n
        if k == "gone":
            return r.choice(self.used_names)
        return r.choice(self.stems) + hlgen.fmtw(r.range(1, 3), r.range(0, 20))

    def step(self):
        r, ref = self.r, self.ref
        L = ref.L
        live = sorted(ref.its)
        usable = [h for h in live if ref.its[h][0] is not None]
        cur = [h for h in usable if ref.its[h][1]]
        k = r.weighted([
            ("push", 6 if len(L) < 40 else 1), ("shift", 3), ("pop", 3), ("count", 1), ("nth", 2), ("find", 3),
            ("delete_host", 5), ("delete_nth", 4 if L else 0), ("delete", 2), ("uniq", 1 if self.allow_uniq and len(L) > 1 else 0),
            ("iter_new", 4 if len(live) < self.maxit else 0), ("iter_next", 12 if usable else 0),
            ("iter_remove", 7 if cur else 0), ("iter_reset", 1 if live else 0), ("iter_destroy", 1 if live and len(self.ops) > 6 else 0)])
        if k == "push" and L and r.chance(1, 4) and numeric_tail(L[-1]) and len(L[-1]) < 40:
            # continue the last name: the new hosts coalesce into the tail range under whatever iterator stands there
            t = numeric_tail(L[-1])
            stem, n0 = L[-1][:len(L[-1]) - len(t)], int(t)
            cntp = r.range(1, 3)
            names = [stem + hlgen.fmtw(len(t), n0 + 1 + i) for i in range(cntp)]
            if all(d02(n) for n in names):
                text = names[0] if cntp == 1 else stem + b"[" + hlgen.fmtw(len(t), n0 + 1) + b"-" + hlgen.fmtw(len(t), n0 + cntp) + b"]"
                self.emit("push", hexs(text), names)
                return
        if k == "push":
            text, names = gen_expr(r, self.stems)
            self.used_names += names[:3]
            self.emit("push", hexs(text), names)
        elif k in ("shift", "pop", "count", "iter_new"):
            self.emit(k)
        elif k == "nth":
            n = r.weighted([(r.below(len(L)) if L else 0, 6), (len(L), 1), (len(L) + 3, 1)])
            self.emit("nth", str(n), n)
        elif k in ("find", "delete_host"):
            n = self.pick_name()
            self.emit(k, hexs(n), n)
        elif k == "delete_nth":
            # aimed at the three branches: first, last, middle of a range
            n = r.weighted([(r.below(len(L)), 5), (0, 1), (len(L) - 1, 1)])
            for h in usable:    # often right at / next to an iterator
                if r.chance(1, 4):
                    n = min(len(L) - 1, max(0, ref.its[h][0] - 1 + r.range(-1, 1)))
            self.emit("delete_nth", str(n), n)
        elif k == "delete":
            if L and r.chance(2, 3):
                picks = [r.choice(L) for _ in range(r.range(1, 3))]
                picks = [p for p in picks if not any(c in p for c in b"[], \t")]
                if picks:
                    self.emit("delete", hexs(b",".join(picks)), picks)
                    return
            text, names = gen_expr(r, self.stems)
            self.emit("delete", hexs(text), names)
        elif k == "uniq":
            multi = len({x.rstrip(b"0123456789") for x in L}) >= 2
            self.emit("uniq")
            self.pending_uniq = True
            if not (multi and r.chance(1, 2)):       # half of the time the iterators are used on without a reset: uniq has rewound them
                for h in sorted(ref.its):
                    self.emit("iter_reset", str(h), h)
        elif k == "iter_next":
            h = r.choice(usable)
            for _ in range(r.weighted([(1, 6), (2, 3), (4, 1)])):
                self.emit("iter_next", str(h), h)
        elif k == "iter_remove":
            h = r.choice(cur)
            self.emit("iter_remove", str(h), h)
        elif k in ("iter_reset", "iter_destroy"):
            h = r.choice(live)
            self.emit(k, str(h), h)

    def run(self):
        while len(self.ops) < self.nops and not self.pending_uniq:
            self.step()

    def resume(self, order):
        """the implementation's order after the pending uniq is known: go on from there"""
        self.ref.L = list(order)
        self.pending_uniq = False
        self.allow_uniq = self.r.chance(1, 4)
        self.run()


def render_ops(ops, oracles=None):
    out, u = [], 0
    for op, text, _ in ops:
        if op == "uniq" and oracles is not None:
            out.append("uniq:" + oracles[u] if oracles[u] else "uniq")
            u += 1
        else:
            out.append(op if text is None else op + ":" + text)
    return "ops " + ";".join(out)


def parse_ops(case):
    """inverse of render_ops for replay files: ref-args are recomputed from the texts by the implementation-independent
    expander where needed (push/delete arguments are kept with the case)"""
    return case


# ------------------------------------------------------------------ reading results
def split_result(line):
    """'OK r;r;...|count|names' -> (list of r, count, names) or None"""
    if not line.startswith("OK "):
        return None
    body = line[3:]
    try:
        rs, cnt, names = body.rsplit("|", 2)
    except ValueError:
        return None
    return (rs.split(";") if rs else []), int(cnt), vlib.unhexlist(names)


def strip_oracle(tok):
    """impl's 'q<array>=<names>' -> ('q=<names>', array text)"""
    if tok.startswith("q") and "=" in tok:
        arr, names = tok[1:].split("=", 1)
        return "q=" + names, arr
    return tok, None


def show(v):
    if v is None:
        return "~"
    if isinstance(v, bytes):
        return hexs(v)
    return str(v)


def snapshot_ranges(arr):
    out = []
    for t in arr.split("/") if arr else []:
        p, lo, hi, w, sg = t.split(":")
        out.append((unhex(p), int(lo), int(hi), int(w), sg == "1"))
    return out


def mixed_representation(arr):
    """signature of finding C16-uniq-mixed-representation: two ranges of the array handed to the join loop
    share their stem (prefix without trailing digits; for a single host its whole name without them) but differ
    in prefix text, in kind (single / numbered) or in zero-padding width: the join loop can never merge them"""
    seen = {}
    for p, lo, hi, w, sg in snapshot_ranges(arr):
        stem = p[:len(p) - len(numeric_tail(p))]
        key = (p, sg, None if sg else w)
        if stem in seen and seen[stem] != key:
            return True
        seen.setdefault(stem, key)
    return False


def judge(ops, res):
    """replay the history on the plain-list reference; returns None or (index, expected, observed, what, extra);
    a history that leaves the contracts (possible only for shrink candidates) is reported as ('contract',)"""
    try:
        return judge1(ops, res)
    except (Contract, IndexError, KeyError, TypeError):
        return ("contract",)


def judge1(ops, res):
    ref = Ref()
    rs, cnt, names = res
    if len(rs) != len(ops):
        return (len(rs), "one answer per op", "%d answers for %d ops" % (len(rs), len(ops)), "answers missing", None)
    for k, ((op, text, arg), got) in enumerate(zip(ops, rs)):
        if op == "uniq":
            tok, arr = strip_oracle(got)
            after = vlib.unhexlist(tok[2:])
            exp = ref.apply("uniq", None, uniq_result=after)
            if not uniq_ok(exp[1], after):
                dup = sorted(set(x for x in after if after.count(x) > 1))
                lost = sorted(set(exp[1]) - set(after))
                what = "uniq: " + ("duplicates kept %s " % [d.decode("latin-1") for d in dup[:4]] if dup else "") + \
                       ("names lost %s " % [d.decode("latin-1") for d in lost[:4]] if lost else "") + \
                       ("names invented" if set(after) - set(exp[1]) else "")
                return (k, "each distinct name once, none lost", tok[:200], what, ("uniq", arr, bool(lost or set(after) - set(exp[1]))))
            continue
        exp = ref.apply(op, arg)
        if show(exp) != got:
            return (k, show(exp), got, "%s answered %s, the plain list says %s" % (op, got, show(exp)), (op, arg))
    if cnt != len(ref.L):
        return (len(ops), str(len(ref.L)), str(cnt), "final count differs from the plain list", None)
    if names != ref.L:
        return (len(ops), vlib.hexlist(ref.L)[:300], vlib.hexlist(names)[:300], "final host sequence differs from the plain list", None)
    return None


def valid(ops):
    """does the history stay inside the contracts (used while shrinking)?  uniq order: planning order"""
    ref = Ref()
    try:
        for op, text, arg in ops:
            ref.apply(op, arg)
            if op == "uniq":
                return True     # beyond a uniq the contract depends on the observed order: accept
    except (Contract, IndexError, KeyError):
        return False
    return True


# ------------------------------------------------------------------ the engine wrapper
class Runner:
    def __init__(self, ctx):
        self.eng = hleng.HL(ctx)
        self.evals = 0

    def impl(self, opss, timeout=5.0):
        """answers are short: a case that keeps printing (a corrupted range of millions of hosts) or stays silent is cut off early"""
        self.evals += len(opss)
        return self.eng.ctx.run_lines([self.eng.impl], [render_ops(o) for o in opss], timeout_per_case=timeout, max_line=2 << 20)

    def model(self, opss, impl_lines):
        cases = []
        for o, line in zip(opss, impl_lines):
            oracles = []
            res = split_result(line)
            if res:
                for (op, _, _), tok in zip(o, res[0]):
                    if op == "uniq":
                        oracles.append(strip_oracle(tok)[1] or "")
            while len(oracles) < sum(1 for x in o if x[0] == "uniq"):
                oracles.append("")
            cases.append(render_ops(o, oracles))
        return self.eng.run_model(cases), cases


def canon_impl(line):
    res = split_result(line)
    if not res:
        return line
    return "OK " + ";".join(strip_oracle(t)[0] for t in res[0]) + "|%d|%s" % (res[1], vlib.hexlist(res[2]))


def first_bad_prefix(run1, ops):
    """smallest prefix length on which the implementation faults (a fault ends the process, so it is monotone in the prefix)"""
    lo, hi = 1, len(ops)
    while lo < hi:
        mid = (lo + hi) // 2
        if run1(ops[:mid]).startswith("OK"):
            lo = mid + 1
        else:
            hi = mid
    return lo


def shrink(ops, failing, budget=60):
    """greedy delta debugging on the op list; `failing(ops)` says whether the candidate still shows the problem;
    at most `budget` candidates are tried (each is a run of the implementation)"""
    cur = list(ops)
    chunk = max(1, len(cur) // 2)
    while chunk >= 1 and budget > 0:
        i, changed = 0, False
        while i < len(cur) and budget > 0:
            cand = cur[:i] + cur[i + chunk:]
            if cand and valid(cand):
                budget -= 1
                if failing(cand):
                    cur, changed = cand, True
                    continue
            i += chunk
        if not changed:
            chunk //= 2
    return cur


def describe(ops):
    out = []
    for op, text, arg in ops:
        if op in ("push", "delete"):
            out.append("%s %s" % (op, unhex(text).decode("latin-1")))
        elif op in ("find", "delete_host"):
            out.append("%s %s" % (op, arg.decode("latin-1")))
        elif text is not None:
            out.append("%s %s" % (op, text))
        else:
            out.append(op)
    return "; ".join(out)


def ops_to_json(ops):
    return [[op, text, ([a.hex() for a in arg] if isinstance(arg, list) else (arg.hex() if isinstance(arg, bytes) else arg))]
            for op, text, arg in ops]


def ops_from_json(j):
    out = []
    for op, text, arg in j:
        if op in ("push", "delete"):
            arg = [bytes.fromhex(a) for a in arg]
        elif op in ("find", "delete_host"):
            arg = bytes.fromhex(arg)
        out.append((op, text, arg))
    return out


# ------------------------------------------------------------------ examining one history
def examine(ctx, rn, ops, impl_line, model_line, stats, report=True):
    """classify one history; returns 'ok' | 'finding' | 'violation'"""
    def impl1(o):
        return rn.impl([o], timeout=2.5)[0]

    if not impl_line.startswith("OK"):
        # memory fault / abort / hang in the implementation
        n = first_bad_prefix(impl1, ops)
        small = shrink(ops[:n], lambda o: not impl1(o).startswith("OK"), budget=12 if impl_line.startswith("HANG") else 40)
        why = impl1(small)
        ctx.violation("input", case={"ops": ops_to_json(small), "text": render_ops(small)}, expected="every call returns",
                      observed=why[:300], engine="hl",
                      detail="hostlist calls inside their contract end in a fault: %s  [%s]" % (why[:120], describe(small)))
        return "violation"
    res = split_result(impl_line)
    if res is None or any(t.startswith("BADOP") for t in res[0]):
        ctx.violation("no-failing-input-found", case={"text": render_ops(ops)}, observed=impl_line[:300], engine="hl",
                      correspondence="hl ops protocol", detail="harness did not understand the history")
        return "violation"
    j = judge(ops, res)
    if j is not None:
        k, exp, got, what, extra = j

        def still(o):
            line = impl1(o)
            r2 = split_result(line) if line.startswith("OK") else None
            if r2 is None:
                return False
            j2 = judge(o, r2)
            return j2 is not None and len(j2) == 5 and (j2[4] is None) == (extra is None) and (extra is None or j2[4][0] == extra[0])
        small = shrink(ops[:min(len(ops), k + 1)] if k < len(ops) else ops, still)
        line = impl1(small)
        j2 = judge(small, split_result(line)) if line.startswith("OK") else None
        if j2 is None or len(j2) != 5:
            j2, small = j, ops
        k, exp, got, what, extra = j2
        # known findings (reported as such only when the coordinator has registered them)
        fid = None
        if extra and extra[0] == "uniq" and mixed_representation(extra[1]) and not extra[2]:
            fid = F_UNIQ
            text = "hostlist_uniq keeps a host twice when equal names sit in ranges of different zero-padding width, " \
                   "different prefix split or kind (e.g. foo[5-10],foo[06-10] keeps foo10 twice; f1[2-3],f12 keeps f12 twice)"
        elif extra and extra[0] in ("find", "delete_host") and not d02(extra[1]):
            fid = F_FIND
            text = "hostlist_find / hostlist_delete_host miss a host whose numeric tail exceeds MAX_HOST_SUFFIX (2^25) although a bracket expression built it"
        if fid and ctx.is_known(fid):
            ctx.known_finding(fid, text)
            stats["known_finding_cases"] = stats.get("known_finding_cases", 0) + 1
            return "finding"
        ctx.violation("input", case={"ops": ops_to_json(small), "text": render_ops(small)}, expected=exp[:300], observed=got[:300], engine="hl",
                      detail="step %d: %s  [%s]%s" % (k, what, describe(small), ("  (candidate finding %s)" % fid) if fid else ""))
        return "violation"
    if model_line is not None and canon_impl(impl_line) != model_line:
        def differs(o):
            line = impl1(o)
            if not line.startswith("OK"):
                return False
            m, _ = rn.model([o], [line])
            return canon_impl(line) != m[0]
        small = shrink(ops, differs)
        line = impl1(small)
        m, cases = rn.model([small], [line])
        ctx.violation("no-failing-input-found", case={"ops": ops_to_json(small), "text": cases[0]}, expected=m[0][:300], observed=canon_impl(line)[:300],
                      engine="hl", correspondence="hl: observable results of an op history, hostlist.c = HLEdit.run",
                      detail="implementation and model disagree although the plain-list reference accepts the implementation  [%s]" % describe(small))
        return "violation"
    return "ok"


# ------------------------------------------------------------------ directed cases (the case splits of the proofs; DESIGN 7)
def directed():
    """hand-written histories aimed at each re-basing branch; (name, [(op, text, arg)...])"""
    def P(expr, names):
        return ("push", hexs(expr), names)

    def names(p, lo, hi, w=1):
        return [p + hlgen.fmtw(w, n) for n in range(lo, hi + 1)]
    N, I = lambda h: ("iter_next", str(h), h), ("iter_new", None, None)
    out = []
    a25 = P(b"a[2-4]", names(b"a", 2, 4))
    # first host of a range deleted under an iterator that has returned it (lo++)
    out.append(("skip-after-first-deleted", [a25, I, N(0), ("delete_host", hexs(b"a2"), b"a2"), N(0), N(0), N(0)]))
    # split below another iterator
    a19 = P(b"a[1-9]", names(b"a", 1, 9))
    out.append(("revisit-after-split", [a19, I, N(0), N(0), N(0), N(0), N(0), ("delete_nth", "2", 2), N(0), N(0), N(0), N(0), N(0)]))
    out.append(("remove-vs-other-iterator", [a19, I, I, N(0), N(0), N(0), N(1), N(1), N(1), N(1), N(1), ("iter_remove", "0", 0), N(1), N(0), N(1), N(0)]))
    # whole range at index >= 1 removed by the iterator
    abc = P(b"a[1-3],b5,c7", names(b"a", 1, 3) + [b"b5", b"c7"])
    out.append(("stale-depth-after-range-removed", [abc, I, N(0), N(0), N(0), N(0), ("iter_remove", "0", 0), N(0), N(0)]))
    out.append(("other-iterator-in-removed-range", [abc, I, I, N(0), N(0), N(0), N(0), N(1), N(1), N(1), N(1), ("iter_remove", "0", 0), N(1), N(1)]))
    # push after an iterator was created on an empty list / has run off the end
    out.append(("push-after-empty-iterator", [I, P(b"a1", [b"a1"]), N(0), N(0)]))
    out.append(("push-after-exhausted-iterator", [P(b"a1", [b"a1"]), I, N(0), N(0), P(b"b2,b3", [b"b2", b"b3"]), N(0), N(0), N(0)]))
    out.append(("push-coalesced-after-exhausted-iterator", [P(b"a1", [b"a1"]), I, N(0), N(0), P(b"a2", [b"a2"]), N(0), N(0)]))
    # pop under iterators
    out.append(("pop-then-push-under-iterator", [P(b"a1,b2", [b"a1", b"b2"]), I, N(0), N(0), ("pop", None, None), P(b"c3", [b"c3"]), N(0), N(0)]))
    out.append(("pop-inside-range-then-push", [P(b"a[1-3]", names(b"a", 1, 3)), I, N(0), N(0), N(0), ("pop", None, None), P(b"a3", [b"a3"]), N(0), N(0)]))
    # the last range is removed under the iterator, then a push coalesces into the new last range
    out.append(("remove-last-range-then-push-coalesced", [P(b"a[1-3],b5", names(b"a", 1, 3) + [b"b5"]), I, N(0), N(0), N(0), N(0),
                                                            ("iter_remove", "0", 0), P(b"a4", [b"a4"]), N(0), N(0)]))
    out.append(("delete-last-range-under-two-iterators", [P(b"a[1-2],b5", names(b"a", 1, 2) + [b"b5"]), I, I, N(0), N(0), N(0), N(1), N(1),
                                                            ("delete_host", hexs(b"b5"), b"b5"), P(b"a[3-4]", names(b"a", 3, 4)), N(0), N(1), N(1), N(0)]))
    # fifteen ranges in an array of sixteen slots: an exhausted iterator stands at index 15; a split makes it 16 = the array size
    fourteen = [b"h%c" % (97 + i) for i in range(14)]
    out.append(("insert-at-array-size", [P(b",".join(fourteen) + b",a[1-5]", fourteen + names(b"a", 1, 5)), I] + [N(0)] * 20 +
                [("delete_host", hexs(b"a3"), b"a3"), N(0)]))
    # shift / pop of whole ranges with several iterators
    out.append(("shift-ranges", [abc, I, I, N(0), N(0), N(1), ("shift", None, None), ("shift", None, None), N(0), N(1), ("shift", None, None), N(0), N(1), N(1)]))
    # find: width rule, prefix peeling, whole-name match
    f = P(b"foo[01-03],foo1,f1[2-3],f12x,f012", names(b"foo", 1, 3, 2) + [b"foo1", b"f12", b"f13", b"f12x", b"f012"])
    out.append(("find-twins", [f] + [("find", hexs(n), n) for n in (b"foo1", b"foo01", b"foo001", b"foo10", b"f12", b"f13", b"f012", b"f12x", b"f1", b"f", b"foo")]))
    out.append(("delete-twins", [f, ("delete_host", hexs(b"foo1"), b"foo1"), ("delete_host", hexs(b"f12"), b"f12"), ("delete_host", hexs(b"f12"), b"f12"),
                                 ("count", None, None)]))
    # uniq on a uniform list
    u = P(b"a[1-5],b2,a[3-8],b2,a[7-7]", names(b"a", 1, 5) + [b"b2"] + names(b"a", 3, 8) + [b"b2", b"a7"])
    out.append(("uniq-overlaps", [u, I, N(0), ("uniq", None, None), ("iter_reset", "0", 0), N(0), ("count", None, None)]))
    return out


def uniq_family(r, count):
    """duplicate removal aimed at the join loop: one prefix (sometimes two), a covering range and several separate
    entries inside, across and outside it, in any order; then uniq, count and a full walk"""
    out = []
    for _ in range(count):
        pre = r.choice([b"n", b"foo", b"r1-", b"x"])
        w = r.choice([1, 2, 2, 3])
        lo = r.range(0, 6)
        hi = lo + r.range(5, 24)
        pieces = [(pre, lo, hi)]
        for _k in range(r.range(2, 6)):
            a = r.weighted([(r.range(lo, hi), 6), (r.range(max(0, lo - 3), hi + 4), 2)])
            b = a + r.weighted([(0, 4), (1, 3), (r.range(2, 5), 2)])
            pieces.append((pre, a, b))
        if r.chance(1, 3):
            pieces.append((r.choice([b"m", b"zz"]), r.range(0, 9), r.range(10, 12)))
        if r.chance(1, 2):
            pieces = pieces[1:] + pieces[:1] if r.chance(1, 2) else sorted(pieces, key=lambda _x: r.next())
        words, names = [], []
        for (q, a, b) in pieces:
            ww = max(w, 1)
            if a == b and r.chance(1, 2):
                words.append(q + hlgen.fmtw(ww, a))
            else:
                words.append(q + b"[" + hlgen.fmtw(ww, a) + b"-" + hlgen.fmtw(ww, b) + b"]")
            names += [q + hlgen.fmtw(ww, n) for n in range(a, b + 1)]
        if not all(d02(n) for n in names):
            continue
        ops = [("push", hexs(b",".join(words)), names), ("uniq", None, None), ("count", None, None), ("iter_new", None, None)]
        if len({q for (q, _a, _b) in pieces}) >= 2 and r.chance(2, 3):
            # a live iterator that has advanced, uniq on an unsorted list, the iterator used on without a reset
            N = ("iter_next", "0", 0)
            ops = [ops[0], ("iter_new", None, None)] + [N] * r.range(1, 4) + [("uniq", None, None)] + [N] * r.range(2, 8) + [("count", None, None)]
        out.append(ops)
    return out


def small_scope(depth):
    """every sequence of up to `depth` calls from a small alphabet (two live iterators, deletions at the ends and in the middle,
    pushes that coalesce or open a new range), on three small lists; sequences leaving a contract are pruned by the reference"""
    def names(p, lo, hi):
        return [p + b"%d" % n for n in range(lo, hi + 1)]
    bases = [(b"a[1-3],b5", names(b"a", 1, 3) + [b"b5"]), (b"a[1-2],a[4-5]", names(b"a", 1, 2) + names(b"a", 4, 5)),
             (b"x,a[1-3]", [b"x"] + names(b"a", 1, 3))]
    out = []
    for text, nm in bases:
        start = [("push", hexs(text), nm), ("iter_new", None, None), ("iter_new", None, None)]

        def alphabet(ref):
            n = len(ref.L)
            al = [("iter_next", "0", 0), ("iter_next", "1", 1), ("shift", None, None), ("pop", None, None),
                  ("push", hexs(b"c9"), [b"c9"])]
            if n and numeric_tail(ref.L[-1]):
                t = numeric_tail(ref.L[-1])
                nxt = ref.L[-1][:len(ref.L[-1]) - len(t)] + b"%d" % (int(t) + 1)
                al.append(("push", hexs(nxt), [nxt]))
            for h in (0, 1):
                if ref.its[h][1]:
                    al.append(("iter_remove", str(h), h))
            for k in sorted(set([0, 1, n // 2, n - 1])):
                if 0 <= k < n:
                    al.append(("delete_nth", str(k), k))
            return al

        def rec(ops, d):
            if len(ops) > len(start):
                out.append(list(ops))
            if d == 0:
                return
            ref = Ref()
            for o in ops:
                ref.apply(o[0], o[2])
            for o in alphabet(ref):
                rec(ops + [o], d - 1)
        rec(start, depth)
    return out


def beyond_domain():
    """histories outside the theorems' domains, where the code is known to fail (findings)"""
    def names(p, lo, hi, w=1):
        return [p + hlgen.fmtw(w, n) for n in range(lo, hi + 1)]
    out = []
    out.append(("uniq-mixed-width", [("push", hexs(b"foo[5-10],foo[06-10]"), names(b"foo", 5, 10) + names(b"foo", 6, 10, 2)), ("uniq", None, None)]))
    out.append(("uniq-prefix-split", [("push", hexs(b"f1[2-3],f12"), [b"f12", b"f13", b"f12"]), ("uniq", None, None)]))
    big = b"f33554433"
    out.append(("find-beyond-suffix-limit", [("push", hexs(b"f[33554433-33554434]"), [big, b"f33554434"]), ("find", hexs(big), big)]))
    return out


# ------------------------------------------------------------------ run
def run(ctx):
    ctx.gen_params()
    ctx.prove()
    rn = Runner(ctx)
    quick = ctx.tier == "quick"
    r = ctx.rng("histories")
    nhist = 2500 if quick else 60000
    stats = {"ops": 0, "with_iterators": 0, "with_uniq": 0, "iter_remove": 0, "delete_under_iterator": 0, "max_live_iterators": 0}
    hist, tags = [], []
    cdir = os.path.join(vlib.VERIF, "corpus", PROP)
    if os.path.isdir(cdir):
        for fn in sorted(os.listdir(cdir)):
            if fn.endswith(".json"):
                hist.append(ops_from_json(json.load(open(os.path.join(cdir, fn)))["ops"]))
                tags.append("corpus:" + fn)
    for name, ops in directed():
        hist.append(ops)
        tags.append("directed:" + name)
    for ops in uniq_family(ctx.rng("uniq-family"), 300 if quick else 6000):
        hist.append(ops)
        tags.append("directed:uniq-family")
    scope = small_scope(3 if quick else 4)
    for ops in scope:
        hist.append(ops)
        tags.append("scope")
    stats["small_scope_sequences"] = len(scope)
    ncorpus = len(hist) - len(scope)
    plans = []
    for k in range(nhist):
        p = Plan(r, r.weighted([(r.range(5, 15), 4), (r.range(16, 40), 5)]) if quick or k % 4 else r.range(40, 120), r.chance(1, 5))
        p.run()
        plans.append(p)
    # second round for the histories that stopped at a uniq: continue from the order the implementation produced
    for rnd in range(3):
        pend = [p for p in plans if p.pending_uniq]
        if not pend:
            break
        lines = rn.impl([p.ops for p in pend])
        for p, line in zip(pend, lines):
            res = split_result(line)
            if res is None or len(res[0]) != len(p.ops):
                p.pending_uniq = False      # fault or refusal: examined below as it is
                continue
            p.resume(res[2])
    for p in plans:
        p.pending_uniq = False
        hist.append(p.ops)
        tags.append("gen")
    for ops in hist:
        stats["ops"] += len(ops)
        kinds = [o[0] for o in ops]
        live = mx = 0
        for kd in kinds:
            live += kd == "iter_new"
            live -= kd == "iter_destroy"
            mx = max(mx, live)
        stats["max_live_iterators"] = max(stats["max_live_iterators"], mx)
        stats["with_iterators"] += "iter_new" in kinds
        stats["with_uniq"] += "uniq" in kinds
        stats["iter_remove"] += kinds.count("iter_remove")
        stats["delete_under_iterator"] += sum(1 for i, kd in enumerate(kinds) if kd in ("delete_host", "delete_nth", "delete", "shift", "pop") and "iter_new" in kinds[:i])
    ctx.log("%d histories (%d corpus/directed), %d ops" % (len(hist), ncorpus, stats["ops"]))
    bad, samples, outcomes = 0, [], {"ok": 0, "finding": 0, "violation": 0}
    examined = 0
    # in slices, so that a badly broken tree (every case a crash or a hang) is reported after the first slice
    cuts = [0, min(len(hist), ncorpus + 60)] + list(range(ncorpus + 60 + 500, len(hist), 500)) + [len(hist)]
    for a, b in zip(cuts, cuts[1:]):
        if a >= b:
            continue
        sl_h, sl_t = hist[a:b], tags[a:b]
        impl = rn.impl(sl_h)
        model, mcases = rn.model(sl_h, impl)
        for ops, tag, il, ml in zip(sl_h, sl_t, impl, model):
            examined += 1
            quick_ok = il.startswith("OK") and canon_impl(il) == ml and judge(ops, split_result(il)) is None
            res = "ok" if quick_ok else examine(ctx, rn, ops, il, ml, stats)
            outcomes[res] += 1
            if res == "violation":
                bad += 1
                ctx.log("problem in %s history: %s" % (tag, ctx.violations[-1]["detail"][:300]))
                if bad >= 6:
                    break
            if len(samples) < 3 and tag == "gen" and 8 <= len(ops) <= 14 and "iter_remove" in [o[0] for o in ops]:
                samples.append({"history": describe(ops)[:400], "impl": canon_impl(il)[:300]})
        if bad >= 6:
            ctx.log("stopping after %d of %d histories" % (examined, len(hist)))
            break
    # beyond the domain: the known ways in which the code fails the property
    for name, ops in beyond_domain():
        il = rn.impl([ops])[0]
        ml, _ = rn.model([ops], [il])
        res = examine(ctx, rn, ops, il, ml[0], stats)
        outcomes[res] += 1
        if res == "ok":
            ctx.notes.append("beyond-domain case %s now satisfies the property" % name)
    have_input = any(v["kind"] != "no-failing-input-found" for v in ctx.violations)
    vlib.report_proof_break(ctx, have_input)
    cov = vlib.proof_coverage(ctx, {
        "evaluations": rn.evals, "distinct_nontrivial": len(set(render_ops(o) for o in hist)),
        "rule": "every call sequence of length <= %d over a 12-letter alphabet on three small lists with two live iterators; then op histories (5-40 calls, some up to 120) over push/shift/pop/count/nth/find/delete_host/delete_nth/delete/uniq and up to 3 live "
                "iterators (next/remove/reset/destroy), arguments chosen against a planning copy of the plain-list reference so that positions are "
                "valid, names are present / near-miss twins / absent, deletions often hit the host at or next to an iterator; lists from hlgen "
                "expressions and a small-prefix-pool generator (mixed widths, overlaps, digit-ending prefixes, singles).  Each history runs on "
                "hostlist.c (ASan+UBSan) and on the extracted model, is compared answer by answer, and is judged by the plain-list reference; "
                "distinct = distinct histories" % (3 if quick else 4),
        "samples": samples, "input_distribution": stats, "corpus_cases": ncorpus, "outcomes": outcomes, "histories_examined": examined,
        "disagreements": bad})
    return ctx.finish(cov, [
        "qsort inside hostlist_uniq is an oracle: the array as the real qsort left it is handed to the model, which checks that it is a rearrangement of its own array",
        "libc snprintf/strtoul/strcmp modelled; ASan+UBSan detect the memory faults the model calls Fault",
        "iterator positions after hostlist_uniq are unspecified by the property: histories reset every live iterator after uniq"])


def replay(ctx, path):
    rec = json.load(open(path))
    ctx.gen_params()
    rn = Runner(ctx)
    c = rec["case"]
    ops = ops_from_json(c["ops"])
    il = rn.impl([ops])[0]
    ml, cases = rn.model([ops], [il])
    print("history  :", describe(ops)[:600])
    print("case     :", cases[0][:400])
    print("expected :", rec.get("expected"))
    print("impl now :", canon_impl(il)[:400])
    print("model now:", ml[0][:400])
    res = split_result(il) if il.startswith("OK") else None
    j = judge(ops, res) if res else ("fault",)
    print("plain-list reference:", "agrees" if j is None else "DISAGREES %s" % (j[:4],))
    return 0 if j is None and canon_impl(il) == ml[0] else 1
