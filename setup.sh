#!/bin/sh
# Build the framework from files on disk only (offline).  Run once after a fresh restore.
set -e
cd "$(dirname "$0")"
python3 tools/gen_params.py >/dev/null
python3 -c "import sys; sys.path.insert(0,'lib'); import vlib; vlib.live_coq_project()"
cd coq
timeout 3000 make -k -j"$(nproc)" COQC="timeout 900 coqc" >/dev/null 2>coq_build.err || { tail -50 coq_build.err; echo "coq build failed (checks will report it)"; }
rm -f coq_build.err
echo setup done
