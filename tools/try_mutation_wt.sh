#!/bin/sh
# try_mutation_wt.sh <patch.diff> <check ids...>: apply a seeded change to a scratch worktree of /repo
# (never to /repo itself), run the given checks (quick) against it with evidence/replays redirected,
# print one line per check (CAUGHT / MISSED), and remove the worktree.  Safe to run concurrently.
P="$(readlink -f "$1")"; shift
W=$(mktemp -d /tmp/pvmut.XXXXXX); rmdir "$W"
O=$(mktemp -d /tmp/pvmutout.XXXXXX)
sh /verif/tools/mk_worktree.sh "$W" >/dev/null || exit 2
git -C "$W" apply "$P" || { echo "PATCH-DOES-NOT-APPLY"; git -C /repo worktree remove --force "$W"; rm -rf "$O"; exit 2; }
cd /verif
for c in "$@"; do
  out=$(VERIF_REPO="$W" VERIF_OUT="$O" timeout 1800 ./check $c quick 2>&1); rc=$?
  v=$(echo "$out" | grep -c "^VIOLATION")
  if [ $rc -ne 0 ] && [ $v -gt 0 ]; then
     f=$(echo "$out" | grep "^VIOLATION" | head -1 | sed 's/.*replay=\([^ ]*\).*/\1/')
     echo "$c CAUGHT $(echo "$out" | grep "^VIOLATION" | head -1 | grep -o 'no-failing-input-found')"
     python3 -c "import json,sys; r=json.load(open('$f')); print('     ', r['kind'], '|', str(r.get('case'))[:160], '|', (r.get('detail') or '')[:300].replace(chr(10),' '))"
  else echo "$c MISSED (exit $rc)"; echo "$out" | tail -3; fi
done
( flock 9; git -C /repo worktree remove --force "$W" ) 9>/tmp/pv-worktree.lock; rm -rf "$O"
# Params.v may have been regenerated from the mutated tree: restore it from /repo
python3 /verif/tools/gen_params.py >/dev/null
