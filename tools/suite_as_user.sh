#!/bin/sh
# suite_as_user.sh [tree]: run the repository's own test suite as an unprivileged user (uid 65534) on a scratch copy
# of the tree (default /repo), because several tests refuse to run as root.  Prints the totals; removes the copy.
T="${1:-/repo}"
D=$(mktemp -d /var/tmp/pv-suite.XXXXXX)
rsync -a --exclude .git "$T"/ "$D"/
grep -rlI "$T" "$D" 2>/dev/null | while read f; do sed -i "s#$T#$D#g" "$f"; done
rm -f "$D"/src/pdsh/*.o "$D"/src/common/*.o "$D"/src/modules/*.o "$D"/src/modules/*.lo "$D"/src/pdsh/pdsh
chown -R 65534:65534 "$D"; chmod 755 "$D"
setpriv --reuid=65534 --regid=65534 --clear-groups env HOME="$D" sh -c "cd $D && make -j8 >/dev/null 2>&1; make check 2>&1" > "$D.log" 2>&1
grep -E "^# (TOTAL|PASS|FAIL|ERROR|SKIP|XFAIL)" "$D.log" | tr '\n' ' '; echo
grep -E "^(FAIL|ERROR)" "$D.log" | head -20
rm -rf "$D" "$D.log"
