#!/bin/sh
# try_mutation.sh <patch.diff> <check ids...>: apply a seeded change to /repo, run the given checks (quick),
# print one line per check (CAUGHT / MISSED), and restore /repo.
P="$1"; shift
cd /repo && git diff --quiet || { echo "/repo not clean"; exit 2; }
git -C /repo apply "$P" || { echo "PATCH-DOES-NOT-APPLY"; exit 2; }
cd /verif
for c in "$@"; do
  out=$(timeout 1500 ./check $c quick 2>&1); rc=$?
  v=$(echo "$out" | grep -c "^VIOLATION")
  if [ $rc -ne 0 ] && [ $v -gt 0 ]; then
     echo "$c CAUGHT ($(echo "$out" | grep "^VIOLATION" | head -1 | sed 's/.*replay=//'))"
     f=$(echo "$out" | grep "^VIOLATION" | head -1 | sed 's/.*replay=\([^ ]*\).*/\1/')
     python3 -c "import json,sys; r=json.load(open('$f')); print('     ', r['kind'], '|', (r.get('detail') or '')[:200].replace(chr(10),' '))"
  else echo "$c MISSED (exit $rc)"; fi
done
git -C /repo checkout -q -- .
rm -f /verif/replays/*.json
