#!/bin/sh
# apply_fix.sh <slug>: apply fixes/<slug>.diff to /repo and commit it with fixes/<slug>.msg (one "fix:" commit)
set -e
S="$1"
cd /repo
git diff --quiet || { echo "/repo has uncommitted changes"; exit 2; }
git apply --3way /verif/fixes/$S.diff 2>/dev/null || git apply /verif/fixes/$S.diff
git add -u
git commit -q -F /verif/fixes/$S.msg
git log --oneline -1
