#!/usr/bin/env python3
"""import_seeded.py <PROP> <k> <confirm-line> <caught-by...>: copy a confirmed seeded change from the mutation
agent's worktree (/tmp/mw-<PROP>/_mut/<k>) to /verif/seeded/<PROP>-<k>/ with a completed meta.json."""
import sys, os, json, shutil
prop, k, confirm = sys.argv[1], sys.argv[2], sys.argv[3]
caught = sys.argv[4:]
src = "/tmp/mw-%s/_mut/%s" % (prop, k)
dst = "/verif/seeded/%s-%s" % (prop, k)
os.makedirs(dst, exist_ok=True)
for fn in os.listdir(src):
    p = os.path.join(src, fn)
    if os.path.isfile(p) and os.path.getsize(p) < 200000:
        shutil.copy(p, dst)
meta = json.load(open(os.path.join(src, "meta.json")))
meta["confirmed"] = {"ran": "tools/confirm_mutation.sh /tmp/mw-%s %s (scratch worktree: build, make check per-test results, demo.sh on clean and changed tree)" % (prop, k),
                     "result": confirm}
meta["checks"] = {"ran": "tools/try_mutation_wt.sh patch.diff <check> (scratch worktree of /repo with the change applied, quick tier)",
                  "caught_by": [c for c in caught if not c.startswith("missed:")], "missed_by": [c[7:] for c in caught if c.startswith("missed:")]}
json.dump(meta, open(os.path.join(dst, "meta.json"), "w"), indent=1)
print(dst)
