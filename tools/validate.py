#!/opt/veriftools/pyvenv/bin/python3
import json, sys, glob, jsonschema
ok = True
def v(path, schema):
    global ok
    try:
        jsonschema.validate(json.load(open(path)), json.load(open(schema)))
    except Exception as e:
        ok = False
        print("INVALID", path, str(e)[:300])
v("/verif/MANIFEST.json", "/root/.vp/MANIFEST.schema.json")
for f in glob.glob("/verif/evidence/*.json"):
    v(f, "/root/.vp/EVIDENCE.schema.json")
print("all valid" if ok else "FAILED")
