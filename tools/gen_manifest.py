#!/usr/bin/env python3
"""Regenerate MANIFEST.json from the table below (kept in one place so that it is always valid)."""
import json, os
V = os.path.dirname(os.path.dirname(os.path.abspath(__file__)))
props = [json.loads(l) for l in open(os.path.join(V, "properties.jsonl"))]

COMMON_NOTE = ("Trusted: Coq 8.16.1 kernel (no native_compute), no axioms of ours (Print Assumptions per theorem is in the evidence), "
               "extraction via ExtrOcamlBasic + ocamlfind ocamlopt + ocaml/prelude.ml, tools/gen_params.py (constants only), "
               "the C/Python correspondence harness and generators, sanitizers as fault detectors. ")

CLAIMED = {
 "C01": dict(engine="hl", section="6 C01",
   text="Theorem C01_expansion (Coq): for every well-formed expression tree the model of hostlist_create + opt.c's second-bracket pass + iteration yields exactly the mathematical expansion (unbounded: any number of words, ranges, widths). The model is tied to /repo on every run by running the extracted model and the implementation (hostlist.c included into an ASan/UBSan harness) on generated trees and by an independent Python expander (S).",
   note=COMMON_NOTE + "libc strtoul/snprintf/isdigit are modelled; domain D01 (numbers < 10^15, names within the code's fixed buffers) is part of the theorem statement.",
   technique="Coq proof of model = spec + extracted-model correspondence check"),
 "C13": dict(engine="cbuf", section="6 C13",
   text="Coq refinement proof: a ring-buffer model of cbuf.c (index level, growth, three overwrite modes, line operations, descriptor writes with arbitrary short reads) satisfies the C's own validity invariant on every operation history and refines a plain FIFO with exact drop accounting. Tied to /repo by running extracted model and cbuf.c (read(2) scripted) on generated operation histories, step by step, plus an independent FIFO oracle.",
   note=COMMON_NOTE + "pdsh's NDEBUG build of cbuf.c; realloc keeps old contents; replay/rewind/copy/move not modelled (never called by pdsh).",
   technique="Coq invariant + refinement proof, extracted-model correspondence on op histories"),
 "C14": dict(engine="hl", section="6 C14",
   text="Coq proof over an explicit caller buffer in which every store is bounds-checked: ranged_string and deranged_string never store past the size given for any list and any size; the expanded form is exactly the comma-joined expansion when it fits (length reported) and a terminated prefix otherwise. Correspondence: every buffer size 1..len+2 for generated lists into exact-size heap buffers under ASan; the full text is parsed back.",
   note=COMMON_NOTE + "snprintf modelled; the compressed form's round trip is established by the correspondence/oracle run, not by a theorem (stated in DESIGN).",
   technique="Coq proof (bounds-checked buffer model) + all-sizes correspondence under ASan"),
 "C15": dict(engine="hl", section="6 C15",
   text="Coq theorems for every byte string: an accepted range is ordered and within MAX_RANGE (no wrap-around), ranges larger than the limit are refused however large the numbers, unbalanced/reversed/non-numeric input fails, the parse never reaches an out-of-contract state, and the number of hosts is bounded by MAX_RANGE per byte typed. Correspondence: labelled malformed inputs + grammar-biased random strings + words around the fixed buffers, implementation under ASan/UBSan with a per-case time limit.",
   note=COMMON_NOTE + "libc strtoul modelled incl. saturation; memory safety of the C itself is observed by ASan, not proved.",
   technique="Coq proof on the parser model + sanitizer-backed correspondence check"),
 "C08": dict(engine="out+sched+exec", section="6 C08",
   text="Coq theorems: the -S aggregation equals max(max code, 254 if any host failed) for every outcome vector and is invariant under permutation; it is 0 iff every command ran and succeeded; a signalled child never counts as success; without -S the status is 0. Tied to /repo three ways: _extract_rc and the whole output path on marker lines (unit harness vs extracted model), the aggregation through the whole program under the controlled scheduler over outcome vectors in all orders, and real children through the exec transport.",
   note=COMMON_NOTE + "atoi modelled for codes that fit an int; in-band status requires the remote shell to survive (protocol limitation).",
   technique="Coq proof (aggregation = max, order independence) + three correspondence runs"),
 "C03": dict(engine="sched", section="6 C03",
   text="Coq theorems on the dispatcher/worker transition system of dsh.c (every lock, unlock, wait, signal and wake-up is a step; spurious wake-ups allowed wherever the dispatcher is parked), for every n >= 1, fanout >= 1 and every admitted event sequence: each target is created/connected/destroyed at most once and in that order, only real targets are started, the exit event implies every target was started exactly once, torn down and has signalled completion (threadcount 0), every reachable non-exited state has an enabled non-spurious step (no lost wake-up, no deadlock), and every run is at most 12n+8+3*spurious steps long. Tied to /repo by trace acceptance: the whole unmodified pdsh program runs under a controlled scheduler (link-time --wrap of pthread_*/poll/read/...) on sampled schedules with injected spurious wake-ups, its event trace must be accepted step by step by the extracted transition function, and the same runs are judged by counting connects/destroys per host inside the scripted transport.",
   note=COMMON_NOTE + "Interleavings are at wrapped-call granularity (a data race between two plain loads/stores is invisible); glibc/pthread semantics are modelled by the transition system; the theorem is about the model, the tie is trace acceptance on sampled schedules.",
   technique="Coq invariant/termination proof on an executable LTS + trace acceptance of the real program under a controlled scheduler"),
 "C04": dict(engine="sched", section="6 C04",
   text="Coq invariant proof on the same transition system, for every n >= 1, fanout f >= 1 and every admitted event sequence including spurious wake-ups: in-flight connections <= started-and-not-finished workers <= f and 0 <= threadcount <= f; progress: with room and targets left the next create is reachable by scheduling steps only; the variant without the re-check after a wake-up is refuted by a computed witness (the defect repaired by 7bd1d3a). Tied to /repo by trace acceptance of the real program under the controlled scheduler with spurious wake-ups injected at every cond_wait and by the measured peak of connections inside the scripted transport.",
   note=COMMON_NOTE + "Same limits as C03: wrapped-call granularity, sampled schedules.",
   technique="Coq invariant proof on an executable LTS + trace acceptance and peak measurement on the real program under a controlled scheduler"),
 "C18": dict(engine="args", section="6 C18",
   text="Coq theorems on a model of opt_default/opt_env/opt_args/opt_verify restricted to fanout, the two timeouts, remote user, transport, misc modules and remote pdcp path, for every environment and every option list (any order, any repetition): whatever pdsh runs with is valid (fanout >= 1, timeouts >= 0, known transport); each setting is the last command-line occurrence, else the environment value, else the default; non-numeric/zero/negative/overflowing fanout, malformed numeric environment values, negative timeouts, over-long user names and unknown transports are refused. Tied to /repo by running the rebuilt pdsh binary (-q dump, exit status, no contact) and the extracted model on generated env x argv combinations, with an independent Python statement of the precedence rule as oracle.",
   note=COMMON_NOTE + "getopt and libc strtoul/atoi are modelled (atoi leniency for -t/-u is carried exactly); only the settings named by the property are modelled.",
   technique="Coq proof on the settings model + extracted-model correspondence against the real binary"),
 "C07": dict(engine="sched", section="6 C07",
   text="Coq theorems on a timed transition system of the whole dsh() run (dispatcher, one worker per target following _rsh_thread through every fault branch, the watchdog's unlocked scan with its kill decisions, both mutexes, the integer clock), for every number of targets, fanout >= 1, every assignment of {ok, refuse, hang in connect, hang mid-command} to the hosts, every time-out setting and every admitted event sequence: each target is created, connected and torn down at most once and in order, exit implies every target - failed or not - was started once, torn down once and signalled completion (no fault path skips or repeats the epilogue), failing hosts neither leak nor double-release fanout slots (by a proved simulation onto the C03/C04 protocol system); on runs where time advances only while every thread is blocked, a worker hanging un-signalled in connect() or in the read loop is never seen later than stamp + timeout + WDOG_POLL (deadline invariant, attained by a computed example), the watchdog selects a slot only when it is strictly overdue, and command timeout 0 never abandons. Tied to /repo by running the whole unmodified pdsh program under the controlled scheduler with a virtual clock and a scripted transport over generated fault assignments, accepting every event trace with the extracted transition function (calm-ness of each clock tick included) and judging isolation, reporting on stderr, deadlines (not early, not late) and termination on the observed behaviour.",
   note=COMMON_NOTE + "Interleavings at wrapped-call granularity; time is the code's integer time(); a SIGALRM takes effect when the worker is inside connect()/poll() (between two polls the next watchdog round re-sends it, which the model folds into 'inside the read loop'); termination is argued from exit_after_all + deadline, a bound on the run length is not proved; the transport is scripted, a remote process ignoring SIGTERM is outside the fault alphabet; -k (fail-fast) is excluded by the property.",
   technique="Coq invariant + simulation proofs on an executable timed LTS + trace acceptance of the real program under a controlled scheduler with virtual clock and fault scripts"),
}

checks, na = [], []
for p in props:
    pid = p["id"]
    if pid in CLAIMED:
        c = CLAIMED[pid]
        checks.append({"property_id": pid, "quick_cmd": "./check %s quick" % pid, "thorough_cmd": "./check %s thorough" % pid,
                       "evidence_file": "evidence/%s.json" % pid, "replay_cmd_template": "./check %s quick --replay {path}" % pid,
                       "engine": c["engine"],
                       "level_claimed": {"category": "proof", "text": c["text"], "design_ref": "DESIGN.md section " + c["section"]},
                       "level_note": c["note"], "technique": c["technique"]})
    else:
        na.append({"property_id": pid, "reason": "not claimed yet: the check for this property is still being built (order of work in DESIGN.md section 9); machine-checked proof is applicable to it"})
m = {"version": 1, "setup_cmd": "./setup.sh",
     "hooks": {"guard": "CHAOS_PDSH_VERIF",
               "enable": "harnesses compile /repo sources with -DCHAOS_PDSH_VERIF; no hook commit is needed so far (statics are reached by #include of the .c file, libc calls by macro/--wrap)",
               "baseline_off_cmd": "make -C /repo check", "source_commits": [], "add_only": True},
     "engines": [
         {"name": "hl", "path": "harness/hl_harness.c", "serves_properties": ["C01", "C14", "C15"], "kind_free_text": "hostlist.c #included into an ASan/UBSan line-protocol harness; extracted Coq model runner ocaml/hl_runner.ml"},
         {"name": "out", "path": "harness/dsh_unit_harness.c", "serves_properties": ["C05", "C06", "C08"], "kind_free_text": "dsh.c #included, per-host output path driven by a scripted descriptor with stdio calls captured (read/close/fputs wrapped at link time); extracted Coq model runner ocaml/dsh_runner.ml"},
         {"name": "sched", "path": "sched/sched.c", "serves_properties": ["C03", "C04", "C07", "C08", "C20"], "kind_free_text": "the whole unmodified pdsh program under a token scheduler interposed with -Wl,--wrap on pthread_*/poll/read/sleep/time/fputs/exit; scripted transport module sched/simrcmd.c loaded by pdsh's own loader; traces validated by the extracted Coq transition system"},
         {"name": "exec", "path": "lib/realeng.py", "serves_properties": ["C08"], "kind_free_text": "the real pdsh binary rebuilt out of tree with a scratch module directory, real children through the exec module"},
         {"name": "cbuf", "path": "harness/cbuf_harness.c", "serves_properties": ["C13"], "kind_free_text": "cbuf.c #included with read(2) scripted; extracted Coq model runner ocaml/cbuf_runner.ml"},
         {"name": "args", "path": "lib/realeng.py", "serves_properties": ["C18", "C10"], "kind_free_text": "the real pdsh binary rebuilt out of tree (scratch module dir) run with -q / -Q / -R exec on generated env, argv and file trees; extracted Coq model runner ocaml/args_runner.ml; harness/wcoll_harness.c for read_wcoll"}],
     "checks": checks, "not_applicable": na,
     "notes": "Genuine defects repaired in /repo are listed in KNOWN_FINDINGS.json (status fixed) with their witnesses under corpus/, which every run replays first."}
json.dump(m, open(os.path.join(V, "MANIFEST.json"), "w"), indent=1)
print("claimed:", sorted(CLAIMED))
