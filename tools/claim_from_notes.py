#!/usr/bin/env python3
"""claim_from_notes.py <notes-file> [section]: paste the JSON manifest entries found in a helper's notes into tools/gen_manifest.py"""
import re, json, sys
p = '/verif/tools/gen_manifest.py'
s = open(p).read()
notes = open(sys.argv[1]).read()
blocks = re.findall(r'```json\n(\{\n? ?"property_id".*?\n\})\n```', notes, re.S)
for b in blocks:
    j = json.loads(b)
    pid = j['property_id']
    if ('"%s": dict(' % pid) in s:
        print("already claimed", pid); continue
    entry = ' "%s": dict(engine=%r, section="6 %s",\n   text=%r,\n   note=%r,\n   technique=%r),' % (
        pid, j['engine'], pid, j['level_claimed']['text'], j['level_note'], j['technique'])
    s = s.replace('\n}\n\nchecks, na', '\n' + entry + '\n}\n\nchecks, na', 1)
    print("claimed", pid)
open(p, 'w').write(s)
