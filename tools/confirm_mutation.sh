#!/bin/sh
# confirm_mutation.sh <worktree> <k>: confirm that seeded change k of a mutation agent compiles, keeps the test
# suite at its baseline, and that its demonstration fails with the change and passes without it.
W="$1"; K="$2"; M="$W/_mut/$K"
cd "$W" || exit 2
git checkout -q -- . 2>/dev/null
make -j8 >/dev/null 2>&1
bash "$M/demo.sh" "$W" >/tmp/demo_clean.$$ 2>&1; C=$?
git apply "$M/patch.diff" || { echo "PATCH-DOES-NOT-APPLY"; exit 2; }
if make -j8 >/tmp/build.$$ 2>&1; then B=ok; else B=FAIL; fi
T=$(make check 2>&1 | grep -E "^(PASS|FAIL|ERROR)" | cut -d: -f1 | sort | uniq -c | tr -s ' \n' ' ')
bash "$M/demo.sh" "$W" >/tmp/demo_mut.$$ 2>&1; D=$?
git checkout -q -- .
make -j8 >/dev/null 2>&1
echo "build=$B tests=[$T] demo_clean_exit=$C demo_mutated_exit=$D"
rm -f /tmp/demo_clean.$$ /tmp/demo_mut.$$ /tmp/build.$$
