#!/bin/sh
# run_muts.sh <PROP> <checks...> : confirm and try the 4 seeded changes of a mutation worktree
P=$1; shift
cd /verif
for k in ${KS:-1 2 3 4}; do
  [ -d /tmp/mw-$P/_mut/$k ] || continue
  c=$(sh tools/confirm_mutation.sh /tmp/mw-$P $k 2>&1 | tail -1)
  echo "== $P/$k CONFIRM $c"
  tools/try_mutation_wt.sh /tmp/mw-$P/_mut/$k/patch.diff "$@" 2>&1 | cut -c1-420
done
