#!/bin/sh
# mk_worktree.sh <dir>: scratch git worktree of /repo with its (untracked) build files,
# relocated so that `make && make check` work inside it.  Serialised by a lock file:
# concurrent `git worktree add` calls on one repository race.
set -e
D="$1"
(
  flock 9
  git -C /repo worktree prune >/dev/null 2>&1 || true
  git -C /repo worktree add -q "$D" HEAD
) 9>/tmp/pv-worktree.lock
rsync -a --exclude .git /repo/ "$D"/
grep -rlI "/repo" "$D" --exclude-dir=.git --exclude=.git 2>/dev/null | while read f; do sed -i "s#/repo#$D#g" "$f"; done
rm -f "$D"/src/pdsh/*.o "$D"/src/common/*.o "$D"/src/modules/*.o "$D"/src/modules/*.lo "$D"/src/pdsh/pdsh
echo "$D ready"
