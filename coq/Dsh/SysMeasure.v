(* No livelock: between two events of the environment (a clock tick, a spurious wake-up of the dispatcher, the arrival
   of a signal) the threads of pdsh can take only finitely many steps - an explicit measure of the state decreases
   with every other event.  With SysLive.no_deadlock (some thread can step unless a host hangs) and
   SysClock.clock_bound (the clock is bounded on maximal-progress runs) this closes the termination argument:
   no infinite run without environment events, and boundedly many ticks. *)
From PV Require Import Dsh.Sys Dsh.SysFacts Dsh.SysLive.
From Coq Require Import ZifyBool.
Local Open Scope Z_scope.

(* steps a worker can still take on its own, by program counter (the poll loop re-arms once per watchdog signal) *)
Definition rank (w : wk) : Z :=
  match pc w with
  | PNone => 18 | PCreated => 17 | PWantA => 16 | PHoldA => 15 | PConn0 => 14 | PInConn => 13
  | PWantB => 12 | PHoldB => 11
  | PPoll => if eintr w then 10 else 9
  | PTerm => if reported w then 7 else 8
  | PWantC => 6 | PHoldC => 5 | PFlush => 4 | PTorn => 3 | PHold0 => 2 | PSig => 1 | PExit => 0
  end.
Fixpoint ranks (l : list wk) : Z := match l with [] => 0 | w :: r => rank w + ranks r end.

Lemma rank_range w : 0 <= rank w <= 18.
Proof. unfold rank. destruct (pc w), (eintr w), (reported w); lia. Qed.
Lemma ranks_nonneg l : 0 <= ranks l.
Proof. induction l as [|h t IH]; cbn [ranks]; [lia|]. pose proof (rank_range h). lia. Qed.
Lemma ranks_updw l i x o : nth_error l i = Some o -> ranks (updw l i x) = ranks l - rank o + rank x.
Proof.
  revert i. induction l as [|h t IH]; intros [|j] H; cbn [nth_error updw ranks] in *; try discriminate.
  - inversion H; subst. lia.
  - rewrite (IH j H). lia.
Qed.
Lemma rank_cancel1 w : rank (cancel1 w) = rank w.
Proof. unfold cancel1. destruct (ts w); reflexivity. Qed.
Lemma ranks_map_cancel l : ranks (map cancel1 l) = ranks l.
Proof. induction l as [|h t IH]; cbn [map ranks]; [reflexivity|]. rewrite IH, rank_cancel1. reflexivity. Qed.

Section Measure.
Variable c : cfg.
Hypothesis Hf : 1 <= f c.
Hypothesis Hwd : 0 < WDOG.

Definition dmeas (x : dpc) (i : nat) : Z :=
  let r := Z.of_nat (ntgt c - i) in
  match x with
  | DLock => 4 * r + 9 | DCheck => 4 * r + 8 | DWait => 4 * r + 7 | DWoken => 4 * r + 9 | DUnlock => 4 * r + 6
  | FLock => 4 | FCheck => 3 | FWait => 2 | FWoken => 4 | DDone => 1 | DExited => 0
  end.
Definition wdmeas (s : gst) : Z :=
  let n := Z.of_nat (length (ws s)) in
  match wd s with
  | WdSleep u => if u <=? now s then n + 2 else 0
  | WdKilling j => Z.max 0 (n - Z.of_nat j) + 1
  end.
Definition spmeas (s : gst) : Z :=
  let n := Z.of_nat (length (ws s)) in
  (match pend s with Some _ => n + 5 | None => 0 end) +
  match sp s with
  | SIdle | SGone => 0
  | SAbortL => n + 4 | SAbortH k => Z.max 0 (n - Z.of_nat k) + 3 | SAbortU => 1
  | SListM => 3 | SListL => 2 | SListH => 1 | SCancelL => 2 | SCancelH => 1
  end.
Definition mu (s : gst) : Z := 4 * ranks (ws s) + dmeas (d s) (idx s) + 5 * wdmeas s + spmeas s.

Lemma mu_nonneg s : 0 <= mu s.
Proof.
  unfold mu, dmeas, wdmeas, spmeas. pose proof (ranks_nonneg (ws s)).
  destruct (d s), (wd s) as [u|j], (pend s), (sp s); try destruct (u <=? now s); lia.
Qed.

Ltac rk :=
  repeat match goal with
         | Hn : nth_error (ws ?s0) ?i = Some ?w |- context [ranks (updw (ws ?s0) ?i ?x)] => rewrite (ranks_updw (ws s0) i x w Hn)
         end;
  rewrite ?updw_length, ?map_length, ?ranks_map_cancel;
  unfold rank; cbn [pc eintr reported set_pc set_ts ts start conn failed];
  repeat match goal with Hp : pc _ = _ |- _ => rewrite Hp in * end.

Lemma scan_bound s1 k : match wd_scan c s1 k with WdSleep u => now s1 < u | WdKilling j => (k <= j)%nat end.
Proof.
  unfold wd_scan. destruct (first_from (killable c s1) (ws s1) k) as [j|] eqn:E; [|lia].
  destruct (first_from_some _ _ _ _ E) as (Hle & _). exact Hle.
Qed.

Ltac eqs :=
  repeat match goal with
         | H : wd ?s = _ |- context [wd ?s] => rewrite H
         | H : d ?s = _ |- context [d ?s] => rewrite H
         | H : sp ?s = _ |- context [sp ?s] => rewrite H
         | H : pend ?s = _ |- context [pend ?s] => rewrite H
         | H : (_ <=? _) = _ |- _ => rewrite H
         end.
Ltac scan :=
  match goal with |- context [wd_scan c ?x ?k] =>
    let SB := fresh "SB" in pose proof (scan_bound x k) as SB; destruct (wd_scan c x k); cbn [now setw ws] in SB end.
Ltac ifs := repeat match goal with |- context [if ?b then _ else _] => destruct b eqn:? end.

Lemma mu_step s e s' : InvM c s -> step c s e = Some s' -> is_env e = false -> mu s' < mu s.
Proof.
  intros IM H He. pose proof (M_none _ _ IM) as N. unfold next_idx in N.
  pose proof (ranks_nonneg (ws s)) as Rn.
  inv_step H; try discriminate He; unfold mu, dmeas, wdmeas, spmeas;
    cbn [ws d idx wd sp pend now setw setw1 setd setsp tc m0 m1 last exited]; rk; eqs.
  all: try lia.
  all: try (scan; eqs; ifs; try lia).
  1: { destruct (first_from_some _ _ _ _ Heqo) as (Hle & (w1 & Hw1 & _) & _). rewrite (nth_error_nth_wk _ _ _ Hw1).
       assert (Hp : pc w1 = PNone) by (eapply N; [exact Hw1|exact Hle]).
       rewrite (ranks_updw _ _ _ _ Hw1). unfold rank. cbn [pc set_pc]. rewrite Hp. lia. }
  all: try (destruct (sp s); lia).
  all: try (destruct (eintr w); try destruct (reported w); lia).
  all: try (destruct (d s); cbn [wake]; lia).
  all: try (match goal with Hn : nth_error (ws _) _ = Some ?w0 |- _ => apply nth_error_lt in Hn; unfold blocked in *; destruct (pc w0); try discriminate end;
            try destruct (sp s); lia).
  destruct (first_from_some _ _ _ _ Heqo) as (Hle & (w1 & Hw1 & _) & _). apply nth_error_lt in Hw1. lia.
Qed.

(* every run without environment events from a consistent state is no longer than the measure of that state *)
Fixpoint no_env (es : list ev) : bool := match es with [] => true | e :: r => negb (is_env e) && no_env r end.

Theorem no_livelock s es s' : InvM c s -> run c s es = Some s' -> no_env es = true -> Z.of_nat (length es) <= mu s - mu s'.
Proof.
  revert s. induction es as [|e r IH]; intros s IM Hr Hn; cbn [run no_env length] in *.
  - inversion Hr; subst. lia.
  - destruct (step c s e) as [s1|] eqn:E; [|discriminate]. apply andb_prop in Hn as [He Hn].
    assert (He' : is_env e = false) by (destruct (is_env e); [discriminate|reflexivity]).
    pose proof (mu_step _ _ _ IM E He') as Hd.
    destruct r as [|e2 r2].
    + cbn [run] in Hr. inversion Hr; subst. cbn [length]. lia.
    + assert (Hex : exited s1 = None).
      { cbn [run] in Hr. unfold step in Hr. destruct (exited s1); [discriminate|reflexivity]. }
      assert (IM1 : InvM c s1) by (eapply invM_step; eauto).
      specialize (IH s1 IM1 Hr Hn). rewrite Nat2Z.inj_succ. lia.
Qed.

Corollary no_livelock_reachable t0 es1 s es s' : run c (init c t0) es1 = Some s -> exited s = None ->
  run c s es = Some s' -> no_env es = true -> Z.of_nat (length es) <= mu s.
Proof.
  intros R1 Hex R2 Hn. assert (IM : InvM c s) by (eapply invM_run; [| |exact Hex]; [|exact R1]; apply invM_init; exact Hf).
  pose proof (no_livelock _ _ _ IM R2 Hn). pose proof (mu_nonneg s'). lia.
Qed.


End Measure.
