(* dsh(): do the labels keep the domain part of the host names?  The loop over the target list remembers the domain
   (the text from the first '.') of the first dotted target and raises the flag as soon as a later dotted target has a
   different one (compared exactly, strcmp); -K raises it unconditionally (err_no_strip_domain).  Definitions and the
   characterisation: the flag is up iff two targets have different domains. *)
From PV Require Export Base.Bytes.
Local Open Scope N_scope.

(* strchr(host, '.'): the suffix starting at the first dot *)
Fixpoint domain_of (h : bytes) : option bytes :=
  match h with
  | [] => None
  | c :: r => if c =? c_dot then Some h else domain_of r
  end.

(* the loop: `first' is the remembered domain *)
Fixpoint dom_scan (first : option bytes) (l : list bytes) : bool :=
  match l with
  | [] => false
  | h :: r =>
    match domain_of h, first with
    | None, _ => dom_scan first r
    | Some d, None => dom_scan (Some d) r
    | Some d, Some d0 => if beq d d0 then dom_scan first r else true
    end
  end.

Definition domain_in_label (optK : bool) (targets : list bytes) : bool := optK || dom_scan None targets.

Definition two_domains (l : list bytes) : Prop :=
  exists a b da db, In a l /\ In b l /\ domain_of a = Some da /\ domain_of b = Some db /\ da <> db.

Lemma dom_scan_some d0 l : dom_scan (Some d0) l = true <-> exists b db, In b l /\ domain_of b = Some db /\ db <> d0.
Proof.
  induction l as [|h r IH]; cbn [dom_scan].
  - split; [discriminate|]. intros (b & db & [] & _).
  - destruct (domain_of h) as [d|] eqn:Eh.
    + destruct (beq d d0) eqn:Eb.
      * apply beq_eq in Eb. subst d. rewrite IH. split.
        -- intros (b & db & Hb & Hd & Hn). exists b, db. split; [right; exact Hb|split; assumption].
        -- intros (b & db & [<-|Hb] & Hd & Hn); [congruence|]. exists b, db. split; [exact Hb|split; assumption].
      * split; [intros _|reflexivity]. apply beq_neq in Eb. exists h, d. split; [left; reflexivity|split; assumption].
    + rewrite IH. split.
      * intros (b & db & Hb & Hd & Hn). exists b, db. split; [right; exact Hb|split; assumption].
      * intros (b & db & [<-|Hb] & Hd & Hn); [congruence|]. exists b, db. split; [exact Hb|split; assumption].
Qed.

Lemma dom_scan_none l : dom_scan None l = true <-> two_domains l.
Proof.
  induction l as [|h r IH]; cbn [dom_scan].
  - split; [discriminate|]. intros (a & b & da & db & [] & _).
  - destruct (domain_of h) as [d|] eqn:Eh.
    + rewrite dom_scan_some. split.
      * intros (b & db & Hb & Hd & Hn). exists h, b, d, db. split; [left; reflexivity|]. split; [right; exact Hb|]. split; [exact Eh|]. split; [exact Hd|congruence].
      * intros (a & b & da & db & Ha & Hb & Hda & Hdb & Hn).
        destruct Ha as [<-|Ha], Hb as [<-|Hb].
        -- congruence.
        -- exists b, db. split; [exact Hb|]. split; [exact Hdb|]. congruence.
        -- exists a, da. split; [exact Ha|]. split; [exact Hda|]. congruence.
        -- destruct (beq da d) eqn:E.
           ++ apply beq_eq in E. subst da. exists b, db. split; [exact Hb|]. split; [exact Hdb|]. congruence.
           ++ apply beq_neq in E. exists a, da. split; [exact Ha|]. split; [exact Hda|exact E].
    + rewrite IH. split.
      * intros (a & b & da & db & Ha & Hb & R). exists a, b, da, db. split; [right; exact Ha|]. split; [right; exact Hb|exact R].
      * intros (a & b & da & db & Ha & Hb & Hda & Hdb & Hn).
        destruct Ha as [<-|Ha]; [congruence|]. destruct Hb as [<-|Hb]; [congruence|].
        exists a, b, da, db. split; [exact Ha|]. split; [exact Hb|]. split; [exact Hda|]. split; [exact Hdb|exact Hn].
Qed.

(* the labels keep the domain exactly when -K was given or two targets lie in different domains: in particular the
   flag does not depend on the order of the targets, and targets without a dot never raise it *)
Theorem domain_in_label_spec optK l : domain_in_label optK l = true <-> optK = true \/ two_domains l.
Proof. unfold domain_in_label. rewrite orb_true_iff, dom_scan_none. reflexivity. Qed.
