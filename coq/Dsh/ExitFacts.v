From Coq Require Import Permutation.
From PV Require Import Dsh.Exit.
Local Open Scope Z_scope.

Lemma agg_step_cases F acc h : 0 <= F ->
  (if is_failed h && (acc <? F) then F else acc) = (if is_failed h then Z.max acc F else acc).
Proof. intros. destruct (is_failed h); cbn [andb]; [|reflexivity]. destruct (acc <? F) eqn:E; lia. Qed.

Lemma agg_fold l : forall acc, 0 <= acc ->
  fold_left agg_step l acc =
  Z.max acc (Z.max (fold_right Z.max 0 (map hrc l)) (if existsb is_failed l then Z.of_N RC_FAILED else 0)).
Proof.
  assert (Hf : 0 <= Z.of_N RC_FAILED) by lia.
  set (F := Z.of_N RC_FAILED) in *.
  induction l as [|h l IH]; intros acc Hacc; cbn [fold_left map fold_right existsb].
  - lia.
  - assert (Hs : agg_step acc h = Z.max (if is_failed h then Z.max acc F else acc) (hrc h)).
    { unfold agg_step. fold F. rewrite agg_step_cases by auto. clearbody F.
      set (a := if is_failed h then Z.max acc F else acc).
      destruct (a <? hrc h) eqn:E; lia. }
    rewrite IH by (rewrite Hs; clearbody F; destruct (is_failed h); lia).
    rewrite Hs. set (m := fold_right Z.max 0 (map hrc l)). clearbody F m.
    destruct (is_failed h); cbn [orb]; destruct (existsb is_failed l); lia.
Qed.

Lemma fold_max_nonneg l : 0 <= fold_right Z.max 0 l.
Proof. induction l; cbn [fold_right]; lia. Qed.

Theorem aggregate_is_max l : aggregate l = spec_max l.
Proof. unfold aggregate, spec_max. rewrite agg_fold by lia. pose proof (fold_max_nonneg (map hrc l)). lia. Qed.

Lemma spec_max_perm l l' : Permutation l l' -> spec_max l = spec_max l'.
Proof.
  intro P. unfold spec_max.
  assert (E1 : fold_right Z.max 0 (map hrc l) = fold_right Z.max 0 (map hrc l')).
  { induction P as [|x a b P IH|x y a|a b c P1 IH1 P2 IH2]; cbn [map fold_right]; lia. }
  assert (E2 : existsb is_failed l = existsb is_failed l').
  { clear E1. induction P as [|x a b P IH|x y a|a b c P1 IH1 P2 IH2]; cbn [existsb]; try congruence.
    destruct (is_failed x), (is_failed y); reflexivity. }
  now rewrite E1, E2.
Qed.

Theorem aggregate_order_independent l l' : Permutation l l' -> aggregate l = aggregate l'.
Proof. intro P. rewrite !aggregate_is_max. now apply spec_max_perm. Qed.

Lemma fold_max_zero l : Forall (fun x => 0 <= x) l -> fold_right Z.max 0 l = 0 -> Forall (fun x => x = 0) l.
Proof. induction 1 as [|x l Hx Hl IH]; cbn [fold_right]; intro H; constructor.
  - pose proof (fold_max_nonneg l). lia.
  - apply IH. pose proof (fold_max_nonneg l). lia. Qed.

(* with -S the status is 0 only if every command on every target ran and succeeded *)
Theorem zero_iff_all_succeeded l : Forall (fun h => 0 <= hrc h) l ->
  (aggregate l = 0 <-> Forall (fun h => hrc h = 0 /\ is_failed h = false) l).
Proof.
  intro Hn. rewrite aggregate_is_max. unfold spec_max.
  assert (Hf : 0 < Z.of_N RC_FAILED) by (vm_compute; reflexivity).
  pose proof (fold_max_nonneg (map hrc l)) as Hm.
  split.
  - intro H. destruct (existsb is_failed l) eqn:E; [lia|].
    assert (Hz : fold_right Z.max 0 (map hrc l) = 0) by lia.
    apply fold_max_zero in Hz; [|now apply Forall_map].
    rewrite Forall_map in Hz. apply Forall_forall. intros h Hh. split.
    + eapply Forall_forall in Hz; eauto.
    + destruct (is_failed h) eqn:Eh; auto.
      assert (existsb is_failed l = true) by (apply existsb_exists; eauto). congruence.
  - intro H. assert (E : existsb is_failed l = false).
    { destruct (existsb is_failed l) eqn:E; auto. apply existsb_exists in E as (h & Hh & Eh).
      eapply Forall_forall in H; eauto. destruct H; congruence. }
    rewrite E. assert (Hz : fold_right Z.max 0 (map hrc l) = 0).
    { clear -H. induction H as [|h l [Hh _] Hl IH]; cbn [map fold_right]; lia. }
    lia.
Qed.

(* a command that terminates abnormally never counts as success *)
Theorem signaled_never_zero sig inband : 0 < sig -> 0 <= inband -> host_rc inband (exec_destroy_rc (Signaled sig)) <> 0.
Proof. unfold host_rc, exec_destroy_rc. intros. destruct (inband =? 0) eqn:E; destruct (0 <? 128 + sig) eqn:E2; cbn [andb]; lia. Qed.

(* without -S the status does not depend on the remote codes *)
Theorem no_S_zero l : exit_status false l = 0.
Proof. reflexivity. Qed.

(* codes 0..255 and RC_FAILED fit the exit byte: the status is the maximum itself *)
Theorem exit_status_exact l : Forall (fun h => 0 <= hrc h <= 255) l -> exit_status true l = spec_max l.
Proof.
  intro H. unfold exit_status. rewrite aggregate_is_max. apply Z.mod_small.
  unfold spec_max. assert (Z.of_N RC_FAILED <= 255) by (vm_compute; discriminate).
  assert (0 <= fold_right Z.max 0 (map hrc l) <= 255).
  { clear -H. induction H as [|h l Hh Hl IH]; cbn [map fold_right]; lia. }
  destruct (existsb is_failed l); lia.
Qed.

(* ---- -k ---- *)
(* with -k pdsh's status is 0 exactly when every host was reached and every command returned 0 (with or without -S) *)
Theorem k_zero_iff_all_succeeded optS l : Forall (fun h => 0 <= hrc h <= 255) l ->
  (exit_k optS true l = 0 <-> Forall (fun h => hrc h = 0 /\ is_failed h = false) l).
Proof.
  intros Hr. unfold exit_k. cbn [andb]. destruct (existsb kfail l) eqn:E.
  - split; [discriminate|]. intros Hall. apply existsb_exists in E as (h & Hh & Hk).
    eapply Forall_forall in Hall; eauto. destruct Hall as [H0 Hf]. unfold kfail in Hk. rewrite Hf, H0 in Hk. discriminate.
  - assert (Hall : Forall (fun h => hrc h = 0 /\ is_failed h = false) l).
    { apply Forall_forall. intros h Hh. destruct (kfail h) eqn:Ek.
      - assert (existsb kfail l = true) by (apply existsb_exists; eauto). congruence.
      - unfold kfail in Ek. apply orb_false_elim in Ek as [Ef El]. eapply Forall_forall in Hr; eauto. split; [lia|exact Ef]. }
    split; [intros _; exact Hall|]. intros _. destruct optS; [|reflexivity].
    rewrite exit_status_exact by exact Hr. rewrite <- aggregate_is_max.
    apply zero_iff_all_succeeded; [|exact Hall]. eapply Forall_impl; [|exact Hr]. cbn. lia.
Qed.

(* ... and any failure makes it non-zero: 1, whatever the codes *)
Theorem k_failure_is_one optS l h : In h l -> kfail h = true -> exit_k optS true l = 1.
Proof. intros Hh Hk. unfold exit_k. cbn [andb]. assert (E : existsb kfail l = true) by (apply existsb_exists; eauto). rewrite E. reflexivity. Qed.

(* the in-band status exists only if it was asked for; -k alone asks for it *)
Theorem status_seen_iff_requested optS optk code : seen_inband (getstat optS optk) code = if optS || optk then code else 0.
Proof. reflexivity. Qed.

(* a command that fails in-band (exit code > 0, reported only through the status line) under -k alone: pdsh ends with 1 *)
Theorem k_alone_sees_inband_failure code rest : 0 < code -> run_exit false true ((false, (code, 0)) :: rest) = 1.
Proof.
  intros Hc. unfold run_exit. cbn [map fst snd getstat orb].
  eapply k_failure_is_one; [left; reflexivity|].
  unfold kfail, host_result, seen_inband, host_rc, is_failed. cbn [hs hrc]. destruct (code =? 0) eqn:E; cbn [andb orb]; lia.
Qed.
