(* Transition system of the fanout protocol of src/pdsh/dsh.c: the dispatcher loop of dsh()
   and the epilogue of the worker threads, at the granularity of the calls the controlled
   scheduler observes (lock, unlock, cond_wait, wake-up, pthread_create, connect, destroy,
   cond_signal).  What happens between two such calls under threadcount_mutex (reading and
   updating threadcount) is folded into the adjacent step; workers touch threadcount only
   while holding the mutex, so this loses no interleaving.
   `recheck` says whether the room check is re-evaluated after a wake-up (while) or not (if). *)
From Coq Require Export List ZArith Lia Bool Arith.
Export ListNotations.
Local Open Scope Z_scope.

Inductive wpc := WNone | WStart | WConn | WTorn | WHold | WSig | WExit.
Inductive dpc := DLock | DCheck | DWait | DWoken | DGo | DUnlock    (* dispatch loop *)
               | FLock | FCheck | FWait | FWoken | DDone | DExited. (* final drain, exit *)
Inductive owner := Free | ByD | ByW (i : nat).

Record st := mkst { idx : nat; tc : Z; mtx : owner; d : dpc; w : list wpc }.

(* observable events *)
Inductive ev :=
| ELockD | EWaitD | EWokenD | ECreate (i : nat) | EUnlockD
| EConn (i : nat) | EDestroy (i : nat) | ELockW (i : nat) | ESignal (i : nat) | EUnlockW (i : nat)
| ESpur | EExit.

Fixpoint upd (l : list wpc) (i : nat) (x : wpc) : list wpc :=
  match l, i with [], _ => [] | _ :: t, O => x :: t | h :: t, S j => h :: upd t j x end.

Section Sys.
Variable n : nat.       (* number of targets *)
Variable f : Z.         (* fanout *)
Variable recheck : bool.

Definition init : st := mkst 0 0 Free DLock (repeat WNone n).

Definition wake (x : dpc) : dpc := match x with DWait => DWoken | FWait => FWoken | y => y end.

Definition step (s : st) (e : ev) : option st :=
  match e with
  | ELockD =>
    match mtx s, d s with
    | Free, DLock => Some (mkst (idx s) (tc s) ByD DCheck (w s))
    | Free, FLock => Some (mkst (idx s) (tc s) ByD FCheck (w s))
    | _, _ => None
    end
  | EWaitD =>
    match d s with
    | DCheck => if f <=? tc s then Some (mkst (idx s) (tc s) Free DWait (w s)) else None
    | FCheck => if 0 <? tc s then Some (mkst (idx s) (tc s) Free FWait (w s)) else None
    | _ => None
    end
  | EWokenD =>
    match mtx s, d s with
    | Free, DWoken => Some (mkst (idx s) (tc s) ByD (if recheck then DCheck else DGo) (w s))
    | Free, FWoken => Some (mkst (idx s) (tc s) ByD FCheck (w s))
    | _, _ => None
    end
  | ECreate i =>
    (* room check passed (or skipped after a wake-up when not rechecking), then pthread_create
       and threadcount++ under the mutex *)
    let go := match d s with DCheck => negb (f <=? tc s) | DGo => true | _ => false end in
    if go && Nat.eqb i (idx s) && Nat.ltb i n
    then Some (mkst (idx s) (tc s + 1) (mtx s) DUnlock (upd (w s) i WStart))
    else None
  | EUnlockD =>
    match d s with
    | DUnlock => Some (mkst (S (idx s)) (tc s) Free (if Nat.ltb (S (idx s)) n then DLock else FLock) (w s))
    | FCheck => if 0 <? tc s then None else Some (mkst (idx s) (tc s) Free DDone (w s))
    | _ => None
    end
  | EConn i =>
    match nth_error (w s) i with
    | Some WStart => Some (mkst (idx s) (tc s) (mtx s) (d s) (upd (w s) i WConn))
    | _ => None end
  | EDestroy i =>
    match nth_error (w s) i with
    | Some WConn => Some (mkst (idx s) (tc s) (mtx s) (d s) (upd (w s) i WTorn))
    | _ => None end
  | ELockW i =>
    match nth_error (w s) i, mtx s with
    | Some WTorn, Free => Some (mkst (idx s) (tc s) (ByW i) (d s) (upd (w s) i WHold))
    | _, _ => None end
  | ESignal i =>
    (* threadcount-- and pthread_cond_signal, both under the mutex *)
    match nth_error (w s) i with
    | Some WHold => Some (mkst (idx s) (tc s - 1) (mtx s) (wake (d s)) (upd (w s) i WSig))
    | _ => None end
  | EUnlockW i =>
    match nth_error (w s) i with
    | Some WSig => Some (mkst (idx s) (tc s) Free (d s) (upd (w s) i WExit))
    | _ => None end
  | ESpur =>
    match d s with
    | DWait => Some (mkst (idx s) (tc s) (mtx s) DWoken (w s))
    | FWait => Some (mkst (idx s) (tc s) (mtx s) FWoken (w s))
    | _ => None end
  | EExit => match d s with DDone => Some (mkst (idx s) (tc s) (mtx s) DExited (w s)) | _ => None end
  end.

Fixpoint run (s : st) (es : list ev) : option st :=
  match es with [] => Some s | e :: r => match step s e with Some s' => run s' r | None => None end end.

(* like run, but reports how many events were accepted before the first rejected one *)
Fixpoint accept (s : st) (es : list ev) (k : nat) : st * nat * bool :=
  match es with
  | [] => (s, k, true)
  | e :: r => match step s e with Some s' => accept s' r (S k) | None => (s, k, false) end
  end.

(* observables *)
Definition wpc_eqb (a b : wpc) : bool :=
  match a, b with
  | WNone, WNone | WStart, WStart | WConn, WConn | WTorn, WTorn | WHold, WHold | WSig, WSig | WExit, WExit => true
  | _, _ => false end.
Definition cnt (p : wpc -> bool) (l : list wpc) : Z := Z.of_nat (length (filter p l)).
(* connection initiated and not yet torn down *)
Definition inflight (s : st) : Z := cnt (fun x => wpc_eqb x WConn) (w s).
(* command started (thread created) and not yet torn down *)
Definition started (s : st) : Z := cnt (fun x => wpc_eqb x WStart || wpc_eqb x WConn) (w s).
Definition count_spur (es : list ev) : nat := length (filter (fun e => match e with ESpur => true | _ => false end) es).
Definition is_external (e : ev) : bool := match e with EConn _ | EDestroy _ | ESpur => true | _ => false end.
End Sys.
