(* A numeric bound on the duration of every run: with positive connect and command time-outs, on runs in
   which time advances only when no thread can take a step ("threads are fast compared with seconds"),
   the clock never passes  t0 + (2 * targets + 1) * (max time-out + watchdog period),  whatever the hosts
   do (refuse, hang in connect, hang mid-command) and whatever interrupts arrive.  Together with
   SysLive.no_deadlock (some thread can step unless a host hangs) this is "one unresponsive host cannot
   stall the run" in numbers: every tick is charged to a hung host that is within its deadline, and each
   worker takes at most two stamps. *)
From PV Require Import Dsh.Sys Dsh.SysFacts Dsh.SysLive.
From Coq Require Import ZifyBool.
Local Open Scope Z_scope.

Definition st1 (x : Z) : Z := if x =? -1 then 0 else 1.
Definition nstw (w : wk) : Z := st1 (start w) + st1 (conn w).
Fixpoint nst (l : list wk) : Z := match l with [] => 0 | w :: r => nstw w + nst r end.

Lemma nstw_range w : 0 <= nstw w <= 2.
Proof. unfold nstw, st1. destruct (start w =? -1), (conn w =? -1); lia. Qed.
Lemma nst_range l : 0 <= nst l <= 2 * Z.of_nat (length l).
Proof. induction l as [|h t IH]; cbn [nst length]; [lia|]. pose proof (nstw_range h). lia. Qed.
Lemma nst_updw l i x o : nth_error l i = Some o -> nst (updw l i x) = nst l - nstw o + nstw x.
Proof.
  revert i. induction l as [|h t IH]; intros [|j] H; cbn [nth_error updw nst] in *; try discriminate.
  - inversion H; subst. lia.
  - rewrite (IH j H). lia.
Qed.
Lemma nstw_cancel1 w : nstw (cancel1 w) = nstw w.
Proof. unfold cancel1. destruct (ts w); reflexivity. Qed.
Lemma nst_map_cancel l : nst (map cancel1 l) = nst l.
Proof. induction l as [|h t IH]; cbn [map nst]; [reflexivity|]. rewrite IH, nstw_cancel1. reflexivity. Qed.
Lemma nst_repeat0 n : nst (repeat wk0 n) = 0.
Proof. induction n; cbn [repeat nst]; [reflexivity|]. rewrite IHn. reflexivity. Qed.

Lemma ev_eq_tick (e : ev) : e = ETick \/ e <> ETick.
Proof. destruct e; (left; reflexivity) || (right; discriminate). Qed.

Section Clock.
Variable c : cfg.
Hypothesis Hf : 1 <= f c.
Hypothesis Htc : 0 < tconn c.
Hypothesis Htm : 0 < tcmd c.
Variable t0 : Z.
Hypothesis Ht0 : 0 <= t0.

Definition TMAX : Z := Z.max (tconn c) (tcmd c).
Definition B : Z := TMAX + WDOG.
Lemma B_pos : 0 < B. Proof. unfold B, TMAX. pose proof WDOG_nonneg. lia. Qed.

(* which stamps a worker has taken, by program counter; the thread state inside connect() / the read loop *)
Definition before_start (p : wpc) : bool := match p with PNone | PCreated => true | _ => false end.
Definition before_conn (p : wpc) : bool :=
  match p with PNone | PCreated | PWantA | PHoldA | PConn0 | PInConn | PWantB => true | _ => false end.
Definition PT (s : gst) (w : wk) : Prop :=
  (before_start (pc w) = true -> start w = -1) /\ (before_start (pc w) = false -> 0 <= start w) /\
  (before_conn (pc w) = true -> conn w = -1) /\
  start w <= now s /\ conn w <= now s /\
  match pc w with
  | PHoldA | PConn0 | PInConn => conn_ts w
  | PHoldB => ts w = TReading \/ ts w = TCanceled
  | PPoll => ts w = TReading
  | _ => True
  end.

Record InvP (s : gst) : Prop := {
  P_now : 0 <= now s;
  P_len : length (ws s) = ntgt c;
  P_wk : forall i w, nth_error (ws s) i = Some w -> PT s w;
  (* every stamp was taken no later than t0 + (stamps so far) * B; the clock is within one more B *)
  P_stamp : forall i w, nth_error (ws s) i = Some w -> start w <= t0 + nst (ws s) * B /\ conn w <= t0 + nst (ws s) * B;
}.

Ltac upd_cases :=
  repeat match goal with
         | H : nth_error (updw _ _ _) _ = Some _ |- _ => apply nth_updw_inv in H; destruct H as [[? ?]|[? H]]; subst
         end.

Lemma PT_cancel1 s w : PT s w -> PT s (cancel1 w).
Proof.
  unfold PT, cancel1, conn_ts. intros H. destruct (ts w) eqn:E; cbn [pc ts start conn set_ts]; try exact H;
    destruct H as (H1 & H2 & H3 & H4 & H5 & H6); repeat split; auto; destruct (pc w); auto; try rewrite E in H6; intuition congruence.
Qed.

Lemma PT_tick s w : PT s w ->
  PT (mkg (idx s) (tc s) (m0 s) (m1 s) (d s) (ws s) (now s + 1) (wd s) (sp s) (pend s) (last s) (exited s)) w.
Proof. unfold PT. cbn [now]. intros (H1 & H2 & H3 & H4 & H5 & H6). repeat split; auto; lia. Qed.

Lemma PT_later s s' w : now s <= now s' -> PT s w -> PT s' w.
Proof. unfold PT. intros Hle (H1 & H2 & H3 & H4 & H5 & H6). repeat split; auto; lia. Qed.

Lemma tick_fields s s' : step c s ETick = Some s' -> ws s' = ws s /\ now s' = now s + 1.
Proof. unfold step. destruct (exited s); [discriminate|]. intros H. inversion H; subst. split; reflexivity. Qed.

Lemma PT_same s s' w : now s' = now s -> PT s w -> PT s' w.
Proof. unfold PT. intros ->. auto. Qed.

Definition CB (s : gst) : Prop := now s <= t0 + (nst (ws s) + 1) * B.

Lemma invP_same s s' : InvP s -> ws s' = ws s -> now s' = now s -> InvP s' /\ nst (ws s) <= nst (ws s').
Proof.
  intros [A1 A2 A3 A4] Hw Hn. split; [|rewrite Hw; lia].
  constructor; rewrite ?Hw, ?Hn; auto. intros i w H. eapply PT_same; [exact Hn|]. apply (A3 _ _ H).
Qed.

Lemma invP_upd s s' i w w' : InvP s -> CB s -> nth_error (ws s) i = Some w -> ws s' = updw (ws s) i w' -> now s' = now s ->
  PT s w' ->
  ((start w' = start w /\ conn w' = conn w) \/
   (nstw w' = nstw w + 1 /\ (start w' = start w \/ start w' = now s) /\ (conn w' = conn w \/ conn w' = now s))) ->
  InvP s' /\ nst (ws s) <= nst (ws s').
Proof.
  intros [A1 A2 A3 A4] Hcb Hn Hw Hnow Hpt Hst. unfold CB in Hcb. pose proof B_pos as Bp.
  assert (Hnst : nst (ws s') = nst (ws s) - nstw w + nstw w') by (rewrite Hw; apply nst_updw; exact Hn).
  assert (Hle : nst (ws s) <= nst (ws s')).
  { rewrite Hnst. destruct Hst as [[E1 E2]|[E _]]; [unfold nstw; rewrite E1, E2|]; lia. }
  split; [|exact Hle].
  constructor.
  - rewrite Hnow. exact A1.
  - rewrite Hw, updw_length. exact A2.
  - intros j x Hx. rewrite Hw in Hx. apply nth_updw_inv in Hx. destruct Hx as [[-> ->]|[_ Hx]]; (eapply PT_same; [exact Hnow|]); [exact Hpt|apply (A3 _ _ Hx)].
  - intros j x Hx. rewrite Hw in Hx. apply nth_updw_inv in Hx. destruct Hx as [[-> ->]|[_ Hx]].
    + destruct (A4 _ _ Hn) as [S1 S2]. destruct Hst as [[E1 E2]|[E [E1 E2]]].
      * rewrite E1, E2. nia.
      * assert (nst (ws s') = nst (ws s) + 1) by lia. destruct E1 as [->| ->], E2 as [->| ->]; nia.
    + destruct (A4 _ _ Hx) as [S1 S2]. nia.
Qed.

Lemma invP_cancel s s' : InvP s -> ws s' = map cancel1 (ws s) -> now s' = now s -> InvP s' /\ nst (ws s) <= nst (ws s').
Proof.
  intros [A1 A2 A3 A4] Hw Hn. split; [|rewrite Hw, nst_map_cancel; lia].
  constructor; rewrite ?Hw, ?Hn, ?map_length, ?nst_map_cancel; auto.
  - intros i w H. rewrite nth_error_map_wk in H. destruct (nth_error (ws s) i) as [w1|] eqn:E; [|discriminate]. inversion H; subst.
    eapply PT_same; [exact Hn|]. apply PT_cancel1. apply (A3 _ _ E).
  - intros i w H. rewrite nth_error_map_wk in H. destruct (nth_error (ws s) i) as [w1|] eqn:E; [|discriminate]. inversion H; subst.
    destruct (A4 _ _ E) as [S1 S2]. unfold cancel1. destruct (ts w1); cbn [start conn set_ts]; auto.
Qed.

Lemma now_step s e s' : step c s e = Some s' -> e <> ETick -> now s' = now s.
Proof. intros H Hne. inv_step H; try reflexivity. congruence. Qed.

Ltac pt_new Hn I :=
  let Hpt := fresh "Hpt" in
  pose proof (P_wk _ I _ _ Hn) as Hpt; unfold PT, conn_ts in *; cbn [pc ts start conn eintr failed reported set_pc set_ts] in *;
  repeat match goal with Hp : pc _ = _ |- _ => rewrite Hp in * end;
  cbn [before_start before_conn] in *.

Ltac prem :=
  repeat match goal with
         | H : true = true -> _ |- _ => specialize (H eq_refl)
         | H : false = false -> _ |- _ => specialize (H eq_refl)
         | H : false = true -> _ |- _ => clear H
         end.
Ltac solve_pt I :=
  match goal with Hpt : _ /\ _ |- _ => destruct Hpt as (H1 & H2 & H3 & H4 & H5 & H6) end; prem; pose proof (P_now _ I);
  repeat split; intros; try discriminate; try lia; auto; try (intuition congruence).
Ltac solve_st I :=
  first [ left; split; reflexivity
        | right; match goal with Hpt : _ /\ _ |- _ => destruct Hpt as (H1 & H2 & H3 & H4 & H5 & H6) end; prem; pose proof (P_now _ I);
          unfold nstw, st1; cbn [start conn];
          repeat match goal with |- context [?x =? -1] => destruct (x =? -1) eqn:? end;
          (split; [lia|split; auto]) ].

Lemma invP_step s e s' : InvM c s -> InvP s -> CB s -> step c s e = Some s' -> e <> ETick -> InvP s' /\ nst (ws s) <= nst (ws s').
Proof.
  intros IM I Hcb H Hne. pose proof (M_none _ _ IM) as N. unfold next_idx in N.
  inv_step H; try congruence;
    try (apply invP_same; [assumption|reflexivity|reflexivity]).
  all: try (eapply invP_cancel; [eassumption|reflexivity|reflexivity]).
  1: { (* ECreate: the slot had no thread yet *)
    destruct (first_from_some _ _ _ _ Heqo) as (Hle & (w1 & Hw1 & _) & _). rewrite (nth_error_nth_wk _ _ _ Hw1).
    assert (Hp : pc w1 = PNone) by (eapply N; [exact Hw1|exact Hle]).
    eapply (invP_upd s _ n w1); [eassumption|eassumption|exact Hw1|reflexivity|reflexivity| |left; split; reflexivity].
    pt_new Hw1 I. solve_pt I. }
  all: match goal with Hn : nth_error (ws ?s0) ?i = Some ?w |- InvP ?s1 /\ _ =>
         eapply (invP_upd s0 s1 i w); [eassumption|eassumption|exact Hn|reflexivity|reflexivity| |]; pt_new Hn I end.
  all: try solve [solve_pt I].
  all: try solve [solve_st I].
  destruct Hpt as (H1 & H2 & H3 & H4 & H5 & [H6|H6]); [|rewrite H6 in Heqb; discriminate]. prem. repeat split; intros; try discriminate; auto.
Qed.

(* maximal progress: the clock ticks only when no thread can take a step (and, as in SysFacts.urun, the watchdog
   is asleep and not due) *)
Inductive murun : gst -> list ev -> gst -> Prop :=
| mu_nil s : murun s [] s
| mu_snoc s es s1 e s2 : murun s es s1 -> step c s1 e = Some s2 ->
    (e = ETick -> calm s1 = true /\ ~ can_move c s1) -> murun s (es ++ [e]) s2.

Lemma murun_urun s es s' : murun s es s' -> urun c s es s'.
Proof. induction 1 as [|s es s1 e s2 _ IH Hs Ht]; [constructor|]. econstructor; eauto. intros He. apply (Ht He). Qed.

Lemma invP_init : InvP (init c t0) /\ CB (init c t0).
Proof.
  pose proof B_pos. split; [constructor|]; cbn [init ws now].
  - exact Ht0.
  - apply repeat_length.
  - intros i w Hn. apply nth_error_In, repeat_spec in Hn. subst. unfold PT. cbn. repeat split; intros; try discriminate; try lia; auto.
  - intros i w Hn. apply nth_error_In, repeat_spec in Hn. subst. rewrite nst_repeat0. cbn. lia.
  - unfold CB. cbn [init ws now]. rewrite nst_repeat0. lia.
Qed.

Lemma step_exited_none s e s' : step c s e = Some s' -> exited s = None.
Proof. unfold step. destruct (exited s); [discriminate|reflexivity]. Qed.

Lemma hung_is_due s i w : PT s w -> eintr w = false ->
  ((pc w = PInConn /\ behof c i = BHangConn) \/ (pc w = PPoll /\ behof c i = BHangRead)) ->
  exists t, hang_due c i w = Some t /\ (t = start w + tconn c \/ t = conn w + tcmd c).
Proof.
  unfold PT, hang_due, conn_ts. intros (H1 & H2 & H3 & H4 & H5 & H6) He [[Hp Hb]|[Hp Hb]]; rewrite Hp in *; rewrite Hb, He; cbn [before_start before_conn negb andb] in *.
  - specialize (H2 eq_refl). destruct H6 as [-> | ->].
    + destruct (0 <? tconn c) eqn:E; [|lia]. eexists; split; [reflexivity|left; reflexivity].
    + destruct (0 <? tconn c) eqn:E; [|lia]. destruct (start w =? -1) eqn:E1; [lia|]. eexists; split; [reflexivity|left; reflexivity].
  - rewrite H6. destruct (0 <? tcmd c) eqn:E; [|lia]. eexists; split; [reflexivity|right; reflexivity].
Qed.

Theorem clock_inv es s : murun (init c t0) es s -> InvP s /\ CB s.
Proof.
  remember (init c t0) as s0 eqn:E0. induction 1 as [|s0 es s1 e s2 U IH Hs Ht]; subst; [apply invP_init|].
  destruct (IH eq_refl) as [I Hcb]. pose proof B_pos as Bp.
  pose proof (step_exited_none _ _ _ Hs) as Hex.
  assert (IM : InvM c s1).
  { eapply invM_run; [| |exact Hex]; [|apply urun_run, murun_urun; exact U]. apply invM_init. exact Hf. }
  destruct (ev_eq_tick e) as [->|Hne].
  - destruct (Ht eq_refl) as [Hcalm Hblk].
    destruct (tick_fields _ _ Hs) as [Hws Hnow].
    assert (I2 : InvP s2).
    { destruct I as [A1 A2 A3 A4]. constructor; rewrite ?Hws, ?Hnow; auto; [lia|]. intros i w Hn. apply (PT_later s1); [lia|]. apply (A3 _ _ Hn). }
    split; [exact I2|].
    destruct (no_deadlock_inv c Hf s1 IM Hex) as [Hm|(i & w & Hn & He & Hp)]; [contradiction|].
    destruct (hung_is_due s1 i w (P_wk _ I _ _ Hn) He Hp) as (t & Hd & Ht').
    assert (U2 : urun c (init c t0) (es ++ [ETick]) s2).
    { apply murun_urun. econstructor; [exact U|exact Hs|exact Ht]. }
    assert (Hn2 : nth_error (ws s2) i = Some w) by (rewrite Hws; exact Hn).
    pose proof (deadline c t0 _ _ i w t U2 Hn2 Hd) as Hdl.
    destruct (P_stamp _ I _ _ Hn) as [S1 S2]. unfold CB. rewrite Hws. unfold B, TMAX in *. destruct Ht' as [-> | ->]; lia.
  - destruct (invP_step _ _ _ IM I Hcb Hs Hne) as [I2 Hle]. split; [exact I2|].
    unfold CB in *. rewrite (now_step _ _ _ Hs Hne). nia.
Qed.

(* the bound in numbers: the clock never passes t0 + (2 N + 1) (max time-out + watchdog period) *)
Theorem clock_bound es s : murun (init c t0) es s -> now s <= t0 + (2 * Z.of_nat (ntgt c) + 1) * B.
Proof.
  intros U. destruct (clock_inv _ _ U) as [I Hcb]. unfold CB in Hcb. pose proof (nst_range (ws s)) as R. rewrite (P_len _ I) in R.
  pose proof B_pos. nia.
Qed.

(* ---------------------------------------------------------------------------------------- *)
(* "no thread can take a step" implies Sys.calm: the second conjunct of murun's tick condition is the real one *)
Ltac mv ev0 Hex := exists ev0; eexists; split; [unfold step; rewrite Hex|reflexivity].

Lemma worker_moves_or_calm s i w : InvM c s -> exited s = None -> nth_error (ws s) i = Some w -> calm_pc w = false -> can_move c s.
Proof.
  intros I Hex Hn Hc. unfold calm_pc in Hc. destruct (pc w) eqn:Ep; try discriminate Hc.
  - mv (EStart i) Hex. rewrite Hn, Ep. reflexivity.
  - eapply want1; eauto. intros Hm. unfold step. rewrite Hex, Hn, Hm, Ep. discriminate.
  - mv (EUnlock1 i) Hex. rewrite Hn, Ep. reflexivity.
  - mv (EConnBegin i) Hex. rewrite Hn, Ep. reflexivity.
  - destruct (eintr w) eqn:Ee; [|discriminate Hc]. destruct (behof c i) eqn:Eb.
    + mv (EConnOk i) Hex. rewrite Hn, Ep, Eb. reflexivity.
    + mv (EConnRefused i) Hex. rewrite Hn, Ep, Eb. reflexivity.
    + mv (EConnIntr i) Hex. rewrite Hn, Ep, Eb, Ee. reflexivity.
    + mv (EConnOk i) Hex. rewrite Hn, Ep, Eb. reflexivity.
  - eapply want1; eauto. intros Hm. unfold step. rewrite Hex, Hn, Hm, Ep. discriminate.
  - mv (EUnlock1 i) Hex. rewrite Hn, Ep. reflexivity.
  - destruct (eintr w) eqn:Ee; [|discriminate Hc].
    exists (EPollIntr i). unfold step. rewrite Hex, Hn, Ep, Ee.
    destruct ((0 <? tcmd c) && (conn w + tcmd c <? now s)); eexists; split; reflexivity.
  - destruct (reported w) eqn:Er.
    + mv (ERSigW i) Hex. rewrite Hn, Ep, Er. reflexivity.
    + mv (EReport i) Hex. rewrite Hn, Ep, Er. reflexivity.
  - eapply want1; eauto. intros Hm. unfold step. rewrite Hex, Hn, Hm, Ep. discriminate.
  - mv (EUnlock1 i) Hex. rewrite Hn, Ep. reflexivity.
  - mv (EDestroy i) Hex. rewrite Hn, Ep. reflexivity.
  - destruct (m0 s) eqn:Em.
    + mv (ELock0 i) Hex. rewrite Hn, Em, Ep. reflexivity.
    + eapply m0_holder_moves; eauto; congruence.
    + eapply m0_holder_moves; eauto; congruence.
    + eapply m0_holder_moves; eauto; congruence.
  - mv (ESignal i) Hex. rewrite Hn, Ep. reflexivity.
  - mv (EUnlock0 i) Hex. rewrite Hn, Ep. reflexivity.
Qed.

(* the watchdog's scan position always names a slot *)
Definition InvK (s : gst) : Prop := forall j, wd s = WdKilling j -> (j < length (ws s))%nat.

Lemma scan_in_range s1 k j : wd_scan c s1 k = WdKilling j -> (j < length (ws s1))%nat.
Proof.
  unfold wd_scan. destruct (first_from (killable c s1) (ws s1) k) as [j'|] eqn:E; [|discriminate].
  intros H. inversion H; subst. destruct (first_from_some _ _ _ _ E) as (_ & (w1 & Hw1 & _) & _). eapply nth_error_lt; eauto.
Qed.

Lemma invK_step s e s' : InvK s -> step c s e = Some s' -> InvK s'.
Proof.
  intros K H. unfold InvK in *.
  inv_step H; cbn [wd ws setw setw1 setd setsp]; rewrite ?updw_length, ?map_length; try exact K.
  all: intros j Hj; apply scan_in_range in Hj; cbn [ws setw] in Hj; rewrite ?updw_length in Hj; exact Hj.
Qed.

Lemma invK_run s es s' : InvK s -> run c s es = Some s' -> InvK s'.
Proof.
  revert s. induction es as [|e r IH]; intros s K Hr; cbn [run] in Hr; [inversion Hr; subst; exact K|].
  destruct (step c s e) as [s1|] eqn:E; [|discriminate]. eapply IH; [eapply invK_step; eauto|exact Hr].
Qed.

Lemma blocked_calm s : InvM c s -> InvK s -> exited s = None -> ~ can_move c s -> calm s = true.
Proof.
  intros I K Hex Hb. unfold calm. destruct (wd s) as [u|j] eqn:Ew.
  - destruct (now s <? u) eqn:Eu.
    + cbn [andb]. apply forallb_forall. intros w Hin. destruct (calm_pc w) eqn:Ec; [reflexivity|].
      exfalso. apply Hb. apply In_nth_error in Hin. destruct Hin as [i Hn]. eapply worker_moves_or_calm; eauto.
    + exfalso. apply Hb. mv EWdWake Hex. rewrite Ew. destruct (u <=? now s) eqn:E2; [reflexivity|lia].
  - exfalso. apply Hb. specialize (K _ Ew). destruct (nth_error (ws s) j) as [w|] eqn:En.
    + mv (EWdKill j) Hex. rewrite Ew, Nat.eqb_refl, En. reflexivity.
    + apply nth_error_None in En. lia.
Qed.

(* maximal progress in its plain form: the clock ticks only when no thread can take a step *)
Inductive mprun : gst -> list ev -> gst -> Prop :=
| mp_nil s : mprun s [] s
| mp_snoc s es s1 e s2 : mprun s es s1 -> step c s1 e = Some s2 -> (e = ETick -> ~ can_move c s1) -> mprun s (es ++ [e]) s2.

Lemma mprun_murun es s : mprun (init c t0) es s -> murun (init c t0) es s.
Proof.
  remember (init c t0) as s0 eqn:E0. induction 1 as [|s0 es s1 e s2 U IH Hs Ht]; subst; [constructor|].
  specialize (IH eq_refl). econstructor; [exact IH|exact Hs|]. intros He. split; [|exact (Ht He)].
  pose proof (step_exited_none _ _ _ Hs) as Hex. pose proof (urun_run _ _ _ _ (murun_urun _ _ _ IH)) as R.
  apply blocked_calm; [| |exact Hex|exact (Ht He)].
  - eapply invM_run; [| |exact Hex]; [|exact R]. apply invM_init. exact Hf.
  - eapply invK_run; [|exact R]. intros j Hj. cbn in Hj. discriminate.
Qed.

Theorem clock_bound_mp es s : mprun (init c t0) es s -> now s <= t0 + (2 * Z.of_nat (ntgt c) + 1) * B.
Proof. intros U. apply (clock_bound es). apply mprun_murun. exact U. Qed.

(* the executable test of "no thread can take a step" used by the trace acceptor is sound *)
Lemma ev_in_cands s e s' : step c s e = Some s' -> is_env e = false -> In e (cands s).
Proof.
  intros H He. unfold cands.
  assert (G : forall i (g : nat -> ev), (i < length (ws s))%nat ->
              In (g i) [ECreate i; EStart i; ELock1 i; EUnlock1 i; EConnBegin i; EConnOk i; EConnRefused i; EConnIntr i; EPollIntr i;
                        EReport i; ERSigW i; EDestroy i; ELock0 i; ESignal i; EUnlock0 i; EWdKill i; ERSigS i] ->
              In (g i) ([ELockD; EWaitD; EWokenD; EUnlockD; EExit; EWdWake; ESigTake; ESigMark; ELock1S; EUnlock1S; EExitS; ELock0S; EUnlock0S; ERaise] ++
                        flat_map (fun i => [ECreate i; EStart i; ELock1 i; EUnlock1 i; EConnBegin i; EConnOk i; EConnRefused i; EConnIntr i; EPollIntr i;
                                            EReport i; ERSigW i; EDestroy i; ELock0 i; ESignal i; EUnlock0 i; EWdKill i; ERSigS i])
                                 (seq 0 (length (ws s))))).
  { intros i g Hi Hin. apply in_or_app. right. apply in_flat_map. exists i. split; [apply in_seq; lia|exact Hin]. }
  inv_step H; try discriminate He; try (apply in_or_app; left; cbn; tauto).
  all: match goal with |- In (?g ?i) _ => apply (G i g); [|cbn; tauto] end.
  all: try match goal with Hn : nth_error (ws _) _ = Some _ |- _ => apply nth_error_lt in Hn; exact Hn end.
  all: match goal with Hf : first_from _ _ _ = Some _ |- _ =>
         destruct (first_from_some _ _ _ _ Hf) as (_ & (w1 & Hw1 & _) & _); apply nth_error_lt in Hw1; exact Hw1 end.
Qed.

Lemma blockedb_sound s : blockedb c s = true -> ~ can_move c s.
Proof.
  unfold blockedb. intros Hb (e & s' & Hs & He). rewrite forallb_forall in Hb.
  specialize (Hb e (ev_in_cands _ _ _ Hs He)). rewrite Hs in Hb. discriminate.
Qed.

Lemma cands_not_env s e : In e (cands s) -> is_env e = false.
Proof.
  unfold cands. intros H. apply in_app_or in H as [H|H].
  - cbn in H. repeat (destruct H as [<-|H]; [reflexivity|]). destruct H.
  - apply in_flat_map in H as (i & _ & H). cbn in H. repeat (destruct H as [<-|H]; [reflexivity|]). destruct H.
Qed.

Lemma can_move_dec s : can_move c s \/ ~ can_move c s.
Proof.
  destruct (blockedb c s) eqn:Eb; [right; apply blockedb_sound; exact Eb|left].
  unfold blockedb in Eb. assert (Hx : existsb (fun e => match step c s e with None => false | Some _ => true end) (cands s) = true).
  { clear -Eb. induction (cands s) as [|e r IH]; cbn [forallb existsb] in *; [discriminate|].
    destruct (step c s e); cbn [andb orb] in *; [reflexivity|]. apply IH. exact Eb. }
  apply existsb_exists in Hx as (e & Hin & He). destruct (step c s e) as [s'|] eqn:Es; [|discriminate].
  exists e, s'. split; [exact Es|apply (cands_not_env _ _ Hin)].
Qed.

(* an executable version of murun *)
Fixpoint murunb (s : gst) (es : list ev) : option gst :=
  match es with
  | [] => Some s
  | e :: r => if is_tick e && negb (calm s && blockedb c s) then None
              else match step c s e with Some s' => murunb s' r | None => None end
  end.
Lemma murun_cons s e s1 es s' : step c s e = Some s1 -> (e = ETick -> calm s = true /\ ~ can_move c s) -> murun s1 es s' -> murun s (e :: es) s'.
Proof.
  intros Hs Ht U. induction U as [s1|s1 es s2 e' s3 U IH Hs' Ht'].
  - change [e] with ([] ++ [e]). eapply mu_snoc; eauto. constructor.
  - change (e :: es ++ [e']) with ((e :: es) ++ [e']). eapply mu_snoc; eauto.
Qed.
Lemma murunb_murun s es s' : murunb s es = Some s' -> murun s es s'.
Proof.
  revert s. induction es as [|e r IH]; intros s H; cbn [murunb] in H.
  - inversion H; subst. constructor.
  - destruct (is_tick e && negb (calm s && blockedb c s)) eqn:E; [discriminate|].
    destruct (step c s e) as [s1|] eqn:Es; [|discriminate]. eapply murun_cons; [exact Es| |apply IH; exact H].
    intros ->. cbn [is_tick andb] in E. destruct (calm s) eqn:Ec; [|discriminate]. destruct (blockedb c s) eqn:Eb; [|discriminate].
    split; [reflexivity|apply blockedb_sound; exact Eb].
Qed.

End Clock.
