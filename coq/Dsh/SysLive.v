(* No deadlock in the timed dsh system, signals thread included: in every reachable state that has
   not exited some thread can take a step (other than a clock tick, a spurious wake-up or a signal
   arriving), unless a host hangs inside connect()/poll() - and then it is exactly that host pdsh
   is waiting for (C07's deadline bounds that wait when the matching time-out is positive). *)
From PV Require Import Dsh.Sys Dsh.SysFacts Dsh.SysSig.
From Coq Require Import ZifyBool.
Local Open Scope Z_scope.

Definition live (p : wpc) : bool :=
  match p with PNone | PSig | PExit => false | _ => true end.
Definition nlive (l : list wk) : Z := Z.of_nat (length (filter (fun w => live (pc w)) l)).

Lemma nlive_updw l i x o : nth_error l i = Some o ->
  nlive (updw l i x) = nlive l - (if live (pc o) then 1 else 0) + (if live (pc x) then 1 else 0).
Proof.
  unfold nlive. revert i. induction l as [|h t IH]; intros [|j] H; cbn [nth_error updw filter] in *; try discriminate.
  - inversion H; subst. destruct (live (pc o)), (live (pc x)); cbn [length]; lia.
  - specialize (IH j H). destruct (live (pc h)); cbn [length]; lia.
Qed.
Lemma nlive_pos_ex l : 0 < nlive l -> exists i w, nth_error l i = Some w /\ live (pc w) = true.
Proof.
  unfold nlive. induction l as [|h t IH]; cbn [filter length]; [lia|].
  destruct (live (pc h)) eqn:E.
  - intros _. exists 0%nat, h. split; auto.
  - intros H. destruct (IH H) as (i & w & Hi & Hw). exists (S i), w. split; auto.
Qed.
Lemma nlive_ge1 l i w : nth_error l i = Some w -> live (pc w) = true -> 1 <= nlive l.
Proof.
  unfold nlive. revert i. induction l as [|h t IH]; intros [|i] H Hl; cbn [nth_error filter] in *; try discriminate.
  - inversion H; subst. rewrite Hl. cbn [length]. lia.
  - specialize (IH i H Hl). destruct (live (pc h)); cbn [length]; lia.
Qed.
Lemma nlive_map_cancel1 l : nlive (map cancel1 l) = nlive l.
Proof.
  unfold nlive. induction l as [|h t IH]; cbn [map filter]; [reflexivity|].
  replace (pc (cancel1 h)) with (pc h) by (unfold cancel1; destruct (ts h); reflexivity).
  destruct (live (pc h)); cbn [length]; lia.
Qed.
Lemma nlive_repeat k : nlive (repeat wk0 k) = 0.
Proof. unfold nlive. induction k; cbn; auto. Qed.

Section Live.
Variable c : cfg.
Hypothesis Hf : 1 <= f c.

Definition d_holds (x : dpc) : bool := match x with DCheck | DUnlock | FCheck => true | _ => false end.
Definition hold0pc (p : wpc) : bool := match p with PHold0 | PSig => true | _ => false end.
Definition next_idx (s : gst) : nat := match d s with DUnlock => S (idx s) | _ => idx s end.

Record InvM (s : gst) : Prop := {
  M_m0d : m0 s = ByD -> d_holds (d s) = true;
  M_m0w : forall i, m0 s = ByW i -> exists w, nth_error (ws s) i = Some w /\ hold0pc (pc w) = true;
  M_m0s : m0 s = ByS -> sp s = SCancelH;
  M_m1w : forall i, m1 s = ByW i -> exists w, nth_error (ws s) i = Some w /\ holdpc (pc w) = true;
  M_m1s : m1 s = ByS -> sholds (sp s) = true;
  M_m1d : m1 s <> ByD;
  M_tc : tc s = nlive (ws s);
  M_none : forall i w, nth_error (ws s) i = Some w -> (next_idx s <= i)%nat -> pc w = PNone;
  M_wait : (d s = DWait -> f c <= tc s) /\ (d s = FWait -> 0 < tc s);
  M_exit : d s <> DExited;
  M_len : length (ws s) = ntgt c;
  M_bound : 0 <= tc s <= f c
}.

Lemma invM_init t0 : InvM (init c t0).
Proof.
  constructor; cbn; try discriminate; try (intros; discriminate).
  - symmetry. apply nlive_repeat.
  - intros i w H _. apply nth_error_In, repeat_spec in H. subst. reflexivity.
  - split; discriminate.
  - apply repeat_length.
  - lia.
Qed.

Ltac upd_cases :=
  repeat match goal with
         | H : nth_error (updw _ _ _) _ = Some _ |- _ => apply nth_updw_inv in H; destruct H as [[? ?]|[? H]]; subst
         end.

Ltac t_none N :=
  let ix := fresh "ix" in let wx := fresh "wx" in let Hn := fresh "Hn" in let Hle := fresh "Hle" in
  intros ix wx Hn Hle; try rewrite nth_error_map_wk in Hn; upd_cases;
  try (match goal with Hw : nth_error (ws _) ?j = Some ?w, Hp : pc ?w = _ |- _ =>
         let Y := fresh in assert (Y : pc w = PNone) by (eapply N; [exact Hw|lia]); congruence end);
  try (eapply N; [eassumption|lia]).
Ltac t_tc :=
  match goal with Hw : nth_error (ws _) ?j = Some ?w, Hp : pc ?w = _ |- _ =>
    rewrite (nlive_updw _ _ _ _ Hw); cbn [pc set_pc live]; rewrite Hp; cbn [live]; lia end.
Ltac t_hold A2 B1 :=
  let i0 := fresh "i0" in let Hm := fresh "Hm" in let w0 := fresh "w0" in let Hn0 := fresh "Hn0" in let Hh0 := fresh "Hh0" in
  let Hne := fresh "Hne" in
  intros i0 Hm;
  first [destruct (A2 _ Hm) as (w0 & Hn0 & Hh0) | destruct (B1 _ Hm) as (w0 & Hn0 & Hh0)];
  match goal with Hw : nth_error (ws _) ?j = Some ?w |- _ =>
    destruct (Nat.eq_dec i0 j) as [->|Hne];
    [ rewrite Hw in Hn0; inversion Hn0; subst; eexists; split; [apply nth_updw_same; eapply nth_error_lt; eauto|];
      cbn [pc set_pc hold0pc holdpc] in *;
      try (match goal with Hp : pc _ = _ |- _ => rewrite Hp in Hh0 end); try discriminate; try exact Hh0; reflexivity
    | eexists; split; [rewrite nth_updw_other by auto; exact Hn0|exact Hh0] ] end.

Lemma invM_step s e s' : InvM s -> step c s e = Some s' -> exited s' = None -> InvM s'.
Proof.
  intros [A1 A2 A3 B1 B2 B3 T N W X L Bd] H Hex'. unfold next_idx in *.
  inv_step H; try discriminate Hex'; clear Hex'; constructor; unfold next_idx;
    cbn [m0 m1 d sp ws tc idx exited setw setw1 setd setsp d_holds sholds];
    rewrite ?updw_length, ?map_length;
    auto; try discriminate; try (intros; discriminate); try congruence.
  all: try match goal with Heqo : first_from not_canceled _ _ = Some ?n |- _ =>
             let Hle := fresh "Hle" in let w1 := fresh "w1" in let Hw1 := fresh "Hw1" in let Hp1 := fresh "Hp1" in
             destruct (first_from_some _ _ _ _ Heqo) as (Hle & (w1 & Hw1 & _) & _);
             rewrite ?(nth_error_nth_wk _ _ _ Hw1);
             assert (Hp1 : pc w1 = PNone) by (eapply N; [exact Hw1|lia]) end.
  all: try solve [t_none N].
  all: try solve [t_tc].
  all: try solve [split; intros; try discriminate; try lia; destruct W; auto].
  all: try solve [t_hold A2 B1].
  all: try solve [intros i0 Heq; inversion Heq; subst; eexists; split; [apply nth_updw_same; eapply nth_error_lt; eauto|reflexivity]].
  all: try solve [intro Hm0; specialize (A3 Hm0); congruence].
  all: try solve [destruct (d s); cbn [wake d_holds] in *; auto; try discriminate; try (split; intros; discriminate); try (split; intros; destruct W; try discriminate; lia)].
  all: try solve [rewrite nlive_map_cancel1; exact T].
  all: try solve [match goal with Hw : nth_error (ws _) ?j = Some ?w |- _ = nlive _ =>
                    rewrite (nlive_updw _ _ _ _ Hw); cbn [pc]; destruct (live (pc w)); lia end].
  all: try solve [intros ix wx Hn Hge; apply nth_error_lt in Hn; lia].
  all: try solve [intros ix wx Hn Hge; upd_cases; [lia|eapply N; [eassumption|lia]]].
  all: try solve [intros ix wx Hn Hge; upd_cases; cbn [pc set_pc] in *;
                  [match goal with Hw : nth_error (ws _) ?j = Some ?w |- _ => pose proof (N _ _ Hw) as Y end;
                   destruct (d s); cbn [wake] in *; try (specialize (Y Hge); congruence); try (assert (pc w = PNone) by (apply Y; lia); congruence)
                  |destruct (d s); cbn [wake] in *; eapply N; eauto]].
  all: try solve [lia].
  all: try solve [match goal with Hw : nth_error (ws _) ?j = Some ?w, Hp : pc ?w = PHold0 |- _ =>
                    assert (1 <= nlive (ws s)) by (eapply nlive_ge1; [exact Hw|rewrite Hp; reflexivity]); lia end].
  - intros i Hm. destruct (B1 _ Hm) as (w0 & Hn0 & Hh0). exists (cancel1 w0). rewrite nth_error_map_wk, Hn0. split; [reflexivity|].
    rewrite holdpc_cancel1. exact Hh0.
  - intros i w Hn Hge. rewrite nth_error_map_wk in Hn. destruct (nth_error (ws s) i) as [w1|] eqn:E; cbn in Hn; [|discriminate].
    inversion Hn; subst. replace (pc (cancel1 w1)) with (pc w1) by (unfold cancel1; destruct (ts w1); reflexivity). eapply N; eauto.
Qed.

Lemma invM_run s es s' : InvM s -> run c s es = Some s' -> exited s' = None -> InvM s'.
Proof.
  revert s. induction es as [|e r IH]; intros s H Hr Hex; cbn [run] in Hr; [inversion Hr; subst; exact H|].
  destruct (step c s e) as [s1|] eqn:E; [|discriminate].
  assert (Hex1 : exited s1 = None).
  { destruct r as [|e2 r2]; cbn [run] in Hr; [inversion Hr; subst; exact Hex|].
    unfold step in Hr. destruct (exited s1); [discriminate|reflexivity]. }
  eapply IH; [eapply invM_step; eauto|exact Hr|exact Hex].
Qed.

(* ---------------------------------------------------------------------------------------- *)
Definition is_env (e : ev) : bool := match e with ETick | ESpur | ESigArrive _ => true | _ => false end.
Definition can_move (s : gst) : Prop := exists e s', step c s e = Some s' /\ is_env e = false.
Definition hung_worker (s : gst) : Prop := exists i w, nth_error (ws s) i = Some w /\ eintr w = false /\
  ((pc w = PInConn /\ behof c i = BHangConn) \/ (pc w = PPoll /\ behof c i = BHangRead)).

Ltac mv ev0 Hex := exists ev0; eexists; split; [unfold step; rewrite Hex|reflexivity].

Lemma m1_holder_moves s : InvM s -> exited s = None -> m1 s <> Free -> can_move s.
Proof.
  intros I Hex Hm. destruct (m1 s) as [| |i|] eqn:E; [congruence|exfalso; eapply M_m1d; eauto| |].
  - destruct (M_m1w _ I _ E) as (w & Hn & Hh).
    destruct (pc w) eqn:Ep; cbn in Hh; try discriminate; mv (EUnlock1 i) Hex; rewrite Hn, Ep; reflexivity.
  - pose proof (M_m1s _ I E) as Hh. destruct (sp s) as [| |k| | | | | | |] eqn:Es; cbn in Hh; try discriminate.
    + destruct (first_from is_reading (ws s) k) as [j|] eqn:Ef.
      * mv (ERSigS j) Hex. rewrite Es, Ef, Nat.eqb_refl. reflexivity.
      * mv EUnlock1S Hex. rewrite Es, Ef. reflexivity.
    + mv EUnlock1S Hex. rewrite Es. reflexivity.
Qed.

Lemma d_holder_moves s : exited s = None -> d_holds (d s) = true -> can_move s.
Proof.
  intros Hex Hd. destruct (d s) eqn:Ed; cbn in Hd; try discriminate.
  - destruct (f c <=? tc s) eqn:Eb.
    + mv EWaitD Hex. rewrite Ed, Eb. reflexivity.
    + destruct (first_from not_canceled (ws s) (idx s)) as [j|] eqn:Ef.
      * mv (ECreate j) Hex. rewrite Ed, Eb, Ef, Nat.eqb_refl. reflexivity.
      * mv EUnlockD Hex. rewrite Ed, Eb, Ef. reflexivity.
  - mv EUnlockD Hex. rewrite Ed. reflexivity.
  - destruct (0 <? tc s) eqn:Eb.
    + mv EWaitD Hex. rewrite Ed, Eb. reflexivity.
    + mv EUnlockD Hex. rewrite Ed, Eb. reflexivity.
Qed.

Lemma m0_holder_moves s : InvM s -> exited s = None -> m0 s <> Free -> can_move s.
Proof.
  intros I Hex Hm. destruct (m0 s) as [| |i|] eqn:E; [congruence| | |].
  - apply d_holder_moves; [exact Hex|]. apply (M_m0d _ I E).
  - destruct (M_m0w _ I _ E) as (w & Hn & Hh). destruct (pc w) eqn:Ep; cbn in Hh; try discriminate.
    + mv (ESignal i) Hex. rewrite Hn, Ep. reflexivity.
    + mv (EUnlock0 i) Hex. rewrite Hn, Ep. reflexivity.
  - pose proof (M_m0s _ I E) as Hs. mv EUnlock0S Hex. rewrite Hs. reflexivity.
Qed.

Lemma want1 s i w : InvM s -> exited s = None -> nth_error (ws s) i = Some w ->
  (m1 s = Free -> step c s (ELock1 i) <> None) -> can_move s.
Proof.
  intros I Hex Hn H. destruct (m1 s) eqn:E.
  - destruct (step c s (ELock1 i)) as [s'|] eqn:Es; [|exfalso; apply H; auto]. exists (ELock1 i), s'. split; auto.
  - eapply m1_holder_moves; eauto; congruence.
  - eapply m1_holder_moves; eauto; congruence.
  - eapply m1_holder_moves; eauto; congruence.
Qed.

Lemma worker_moves s i w : InvM s -> exited s = None -> nth_error (ws s) i = Some w -> live (pc w) = true ->
  can_move s \/ hung_worker s.
Proof.
  intros I Hex Hn Hl. destruct (pc w) eqn:Ep; cbn in Hl; try discriminate.
  - left. mv (EStart i) Hex. rewrite Hn, Ep. reflexivity.
  - left. eapply want1; eauto. intros Hm. unfold step. rewrite Hex, Hn, Hm, Ep. discriminate.
  - left. mv (EUnlock1 i) Hex. rewrite Hn, Ep. reflexivity.
  - left. mv (EConnBegin i) Hex. rewrite Hn, Ep. reflexivity.
  - destruct (behof c i) eqn:Eb.
    + left. mv (EConnOk i) Hex. rewrite Hn, Ep, Eb. reflexivity.
    + left. mv (EConnRefused i) Hex. rewrite Hn, Ep, Eb. reflexivity.
    + destruct (eintr w) eqn:Ee.
      * left. mv (EConnIntr i) Hex. rewrite Hn, Ep, Eb, Ee. reflexivity.
      * right. exists i, w. split; [exact Hn|]. split; [exact Ee|]. left. split; assumption.
    + left. mv (EConnOk i) Hex. rewrite Hn, Ep, Eb. reflexivity.
  - left. eapply want1; eauto. intros Hm. unfold step. rewrite Hex, Hn, Hm, Ep. discriminate.
  - left. mv (EUnlock1 i) Hex. rewrite Hn, Ep. reflexivity.
  - destruct (behof c i) eqn:Eb.
    1,2,3: left; eapply want1; eauto; intros Hm; unfold step; rewrite Hex, Hn, Hm, Ep, Eb; discriminate.
    destruct (eintr w) eqn:Ee.
    + left. exists (EPollIntr i). unfold step. rewrite Hex, Hn, Ep, Ee.
      destruct ((0 <? tcmd c) && (conn w + tcmd c <? now s)); eexists; split; reflexivity.
    + right. exists i, w. split; [exact Hn|]. split; [exact Ee|]. right. split; assumption.
  - destruct (reported w) eqn:Er.
    + left. mv (ERSigW i) Hex. rewrite Hn, Ep, Er. reflexivity.
    + left. mv (EReport i) Hex. rewrite Hn, Ep, Er. reflexivity.
  - left. eapply want1; eauto. intros Hm. unfold step. rewrite Hex, Hn, Hm, Ep. discriminate.
  - left. mv (EUnlock1 i) Hex. rewrite Hn, Ep. reflexivity.
  - left. mv (EDestroy i) Hex. rewrite Hn, Ep. reflexivity.
  - left. destruct (m0 s) eqn:Em.
    + mv (ELock0 i) Hex. rewrite Hn, Em, Ep. reflexivity.
    + eapply m0_holder_moves; eauto; congruence.
    + eapply m0_holder_moves; eauto; congruence.
    + eapply m0_holder_moves; eauto; congruence.
  - left. mv (ESignal i) Hex. rewrite Hn, Ep. reflexivity.
Qed.

(* in every state that has not exited some thread can move, or pdsh is waiting for a host that
   hangs inside connect() / the read loop with no signal pending *)
Theorem no_deadlock_inv s : InvM s -> exited s = None -> can_move s \/ hung_worker s.
Proof.
  intros I Hex. pose proof (M_wait _ I) as [W1 W2]. pose proof (M_tc _ I) as T.
  assert (Hw : 0 < tc s -> can_move s \/ hung_worker s).
  { intros Hp. rewrite T in Hp. destruct (nlive_pos_ex _ Hp) as (i & w & Hn & Hl). eapply worker_moves; eauto. }
  assert (Hm0 : forall e, (m0 s = Free -> step c s e <> None) -> is_env e = false -> can_move s).
  { intros e H He. destruct (m0 s) eqn:Em.
    - destruct (step c s e) as [s'|] eqn:Es; [|exfalso; apply H; auto]. exists e, s'. split; auto.
    - eapply m0_holder_moves; eauto; congruence.
    - eapply m0_holder_moves; eauto; congruence.
    - eapply m0_holder_moves; eauto; congruence. }
  destruct (d s) eqn:Ed.
  - left. apply (Hm0 ELockD); [|reflexivity]. intros Hm. unfold step. rewrite Hex, Hm, Ed. discriminate.
  - left. apply d_holder_moves; [exact Hex|rewrite Ed; reflexivity].
  - apply Hw. specialize (W1 eq_refl). lia.
  - left. apply (Hm0 EWokenD); [|reflexivity]. intros Hm. unfold step. rewrite Hex, Hm, Ed. discriminate.
  - left. apply d_holder_moves; [exact Hex|rewrite Ed; reflexivity].
  - left. apply (Hm0 ELockD); [|reflexivity]. intros Hm. unfold step. rewrite Hex, Hm, Ed. discriminate.
  - left. apply d_holder_moves; [exact Hex|rewrite Ed; reflexivity].
  - apply Hw. exact (W2 eq_refl).
  - left. apply (Hm0 EWokenD); [|reflexivity]. intros Hm. unfold step. rewrite Hex, Hm, Ed. discriminate.
  - left. mv EExit Hex. rewrite Ed. reflexivity.
  - exfalso. apply (M_exit _ I). exact Ed.
Qed.

Lemma inflight_le_nlive l : Z.of_nat (length (filter (fun w => wpc_inflight (pc w)) l)) <= nlive l.
Proof.
  unfold nlive. induction l as [|h t IH]; cbn [filter length]; [lia|].
  destruct (pc h); cbn [wpc_inflight live]; cbn [length]; lia.
Qed.

(* the fanout bound with interrupts, cancellations, faults and time-outs all in the picture *)
Theorem bound_always t0 es s : run c (init c t0) es = Some s -> exited s = None -> inflight s <= f c /\ 0 <= tc s <= f c.
Proof.
  intros Hr Hex. assert (I : InvM s) by (eapply invM_run; eauto; apply invM_init).
  pose proof (M_bound _ I). pose proof (M_tc _ I). pose proof (inflight_le_nlive (ws s)). unfold inflight. lia.
Qed.

Theorem no_deadlock t0 es s : run c (init c t0) es = Some s -> exited s = None -> can_move s \/ hung_worker s.
Proof. intros Hr Hex. apply no_deadlock_inv; [|exact Hex]. eapply invM_run; eauto. apply invM_init. Qed.
End Live.
