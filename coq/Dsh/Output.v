(* Model of the per-host output path of src/pdsh/dsh.c on top of the cbuf model:
   _handle_rcmd_stdout/_stderr -> _do_output -> cbuf_write_from_fd(-1) -> _flush_lines
   (cbuf_peek_line 1 1, cbuf_read, _extract_rc, one out()/err() call per line) and, at the
   end, _flush_output.  The result keeps the boundaries of the stdio calls. *)
From PV Require Export Cbuf.CbufDefs.
Local Open Scope N_scope.

Definition RC_MAGIC : bytes := [88;88;82;69;84;67;79;68;69;58]. (* "XXRETCODE:" *)

(* strstr: position of the first occurrence *)
Fixpoint find_sub (needle hay : bytes) : option nat :=
  if is_prefix needle hay then Some O
  else match hay with
       | [] => None
       | _ :: r => match find_sub needle r with Some k => Some (S k) | None => None end
       end.

(* atoi: blanks, optional sign, digits (values kept exact; the C truncates to int) *)
Definition atoi (s : bytes) : Z :=
  let s1 := drop_while is_space s in
  let '(neg, s2) := match s1 with 43 :: r => (false, r) | 45 :: r => (true, r) | _ => (false, s1) end in
  let v := Z.of_N (fold_left (fun acc d => 10 * acc + (d - 48)) (take_while is_digit s2) 0) in
  if neg then (- v)%Z else v.

(* C strings stop at the first NUL *)
Definition cstr (s : bytes) : bytes := take_while (fun b => negb (b =? 0)) s.

(* _extract_rc(buf): returns the code and the edited line (as a C string) *)
Definition extract_rc (line : bytes) : Z * bytes :=
  let l := cstr line in
  match find_sub RC_MAGIC l with
  | None => (0%Z, l)
  | Some k =>
    let ret := atoi (skipn (k + length RC_MAGIC) l) in
    let ends_nl := match rev l with 10 :: _ => true | _ => false end in
    (ret, if ends_nl && negb (Nat.eqb k 0) then firstn k l ++ [10] else firstn k l)
  end.

(* err.c %S: the label of a host *)
Definition label (keep_domain : bool) (host : bytes) : bytes :=
  let h := firstn (N.to_nat LINEBUFSIZE - 1) host in
  match h with
  | c :: _ => if negb (is_digit c) && negb keep_domain
              then fst (split_at 46 h) else h
  | [] => h
  end.

Record octx := mkoctx { labels : bool; keepdom : bool; host : bytes; read_rc : bool }.

Definition emit (x : octx) (text : bytes) : bytes :=
  if labels x then label (keepdom x) (host x) ++ [58; 32] ++ text else text.

(* _flush_lines: returns buffer, last rc computed (None: no line seen), calls *)
Fixpoint flush_lines (fuel : nat) (x : octx) (c : cbuf) (rc : option Z) (acc : list bytes)
  : cbuf * option Z * list bytes :=
  match fuel with
  | O => (c, rc, acc)
  | S f =>
    let '(n, _) := peek_line c 1 1 in
    if n =? 0 then (c, rc, acc)
    else
      let '(c1, buf) := read c n in
      match buf with
      | [] => (c1, rc, acc)
      | _ =>
        let '(rc1, text) := if read_rc x then (let '(r, t) := extract_rc buf in (Some r, t)) else (rc, cstr buf) in
        flush_lines f x c1 rc1 (match text with [] => acc | _ => acc ++ [emit x text] end)
      end
  end.

(* one _handle_rcmd_std{out,err}: result code as the C's rc (-1, 0, >0) *)
Definition do_output (x : octx) (c : cbuf) (s : list fdev) (rc : option Z)
  : cbuf * list fdev * option Z * list bytes * Z :=
  match write_from_fd c s None with
  | (c1, s1, WErr) => (c1, s1, rc, [], 1%Z)            (* EAGAIN: try again later *)
  | (c1, s1, WEof) =>
    let '(c2, rc2, calls) := flush_lines (S (N.to_nat (used c1))) x c1 rc [] in (c2, s1, rc2, calls, 0%Z)
  | (c1, s1, WOk n _) =>
    let '(c2, rc2, calls) := flush_lines (S (N.to_nat (used c1))) x c1 rc [] in (c2, s1, rc2, calls, Z.of_N n)
  end.

Fixpoint handle_loop (fuel : nat) (x : octx) (c : cbuf) (s : list fdev) (rc : option Z) (acc : list bytes)
  : cbuf * option Z * list bytes :=
  match fuel with
  | O => (c, rc, acc)
  | S f =>
    let '(c1, s1, rc1, calls, r) := do_output x c s rc in
    if (r <=? 0)%Z then (c1, rc1, acc ++ calls) else handle_loop f x c1 s1 rc1 (acc ++ calls)
  end.

(* _flush_output (after the fix: label and first chunk in one call) *)
Fixpoint flush_tail (fuel : nat) (x : octx) (c : cbuf) (labeled : bool) (acc : list bytes) : list bytes :=
  match fuel with
  | O => acc
  | S f =>
    let '(c1, buf) := read c (FLUSH_CHUNK - 1) in
    match buf with
    | [] => acc
    | _ => let text := cstr buf in
           flush_tail f x c1 true (acc ++ [if labels x && negb labeled then emit x text else text])
    end
  end.

Definition flush_output (x : octx) (c : cbuf) : list bytes :=
  let '(c1, _, calls) := flush_lines (S (N.to_nat (used c))) (mkoctx (labels x) (keepdom x) (host x) false) c None [] in
  flush_tail (S (N.to_nat (used c1))) x c1 false calls.

Fixpoint script_size (s : list fdev) : nat :=
  match s with [] => O | Avail b :: r => S (length b) + script_size r | _ :: r => S (script_size r) end.

(* the whole life of one stream: returns (rc of the last line seen, list of stdio calls) *)
Definition run_stream (x : octx) (s : list fdev) : option Z * list bytes :=
  match create CBUF_MINSIZE CBUF_MAXSIZE with
  | None => (None, [])
  | Some c0 =>
    let '(c1, rc, calls) := handle_loop (S (S (script_size s))) x c0 s None [] in
    (rc, calls ++ flush_output x c1)
  end.
