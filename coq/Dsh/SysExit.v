(* Which targets end in state FAILED (what the -S loop of dsh() raises to RC_FAILED): exactly those
   whose connect was refused or interrupted by the connect time-out, or whose command was interrupted
   by the command time-out.  Links the timed system (Dsh/Sys.v) to the exit-status model (Dsh/Exit.v). *)
From PV Require Import Dsh.Sys Dsh.SysFacts Dsh.SysSig Dsh.SysLive.
From Coq Require Import ZifyBool.
Local Open Scope Z_scope.

Definition settled (p : wpc) : bool := match p with PHoldC | PFlush | PTorn | PHold0 | PSig | PExit => true | _ => false end.
Definition may_fail (p : wpc) : bool := match p with PTerm | PWantC => true | x => settled x end.

Section E.
Variable c : cfg.
Hypothesis Hf : 1 <= f c.

Ltac upd_cases :=
  repeat match goal with
         | H : nth_error (updw _ _ _) _ = Some _ |- _ => apply nth_updw_inv in H; destruct H as [[? ?]|[? H]]; subst
         end.

Definition wok (w : wk) : Prop :=
  (failed w = true -> may_fail (pc w) = true) /\
  (settled (pc w) = true -> ts w = if failed w then TFailed else TDone).

Lemma wok_cancel1 w : wok w -> wok (cancel1 w).
Proof.
  unfold wok, cancel1. intros [H1 H2]. destruct (ts w) eqn:E; cbn [pc ts failed set_ts]; rewrite ?E; auto.
  - split; [exact H1|]. intros Hs. specialize (H2 Hs). destruct (failed w); discriminate.
  - split; [exact H1|]. intros Hs. specialize (H2 Hs). destruct (failed w); discriminate.
Qed.

Definition allwok (s : gst) : Prop := forall i w, nth_error (ws s) i = Some w -> wok w.

Lemma wok_step s e s' : InvM c s -> allwok s -> step c s e = Some s' -> allwok s'.
Proof.
  intros IM H Hs. unfold allwok in *. pose proof (M_none _ _ IM) as N. unfold next_idx in N.
  inv_step Hs; cbn [ws setw setw1 setd setsp]; intros ix wx Hn; try rewrite nth_error_map_wk in Hn; upd_cases;
    try (eapply H; eassumption).
  all: try solve [match goal with Hw : nth_error (ws _) _ = Some ?w |- _ =>
                    destruct (H _ _ Hw) as [K1 K2]; unfold wok; cbn [pc ts failed set_pc may_fail settled] in *;
                    repeat match goal with Hp : pc w = _ |- _ => rewrite Hp in * end; cbn [may_fail settled] in *;
                    split; intros; try discriminate; try reflexivity; auto;
                    try (destruct (failed w) eqn:Ef; try reflexivity; try (specialize (K1 eq_refl); discriminate)) end].
  - (* ECreate: the slot had no thread yet *)
    destruct (first_from_some _ _ _ _ Heqo) as (Hle & (w1 & Hw1 & _) & _). rewrite (nth_error_nth_wk _ _ _ Hw1).
    assert (Hp : pc w1 = PNone) by (eapply N; [exact Hw1|cbn; exact Hle]).
    destruct (H _ _ Hw1) as [K1 K2]. unfold wok. cbn [pc ts failed set_pc may_fail settled]. rewrite Hp in K1. cbn in K1.
    split; [intros Hfl; specialize (K1 Hfl); discriminate|discriminate].
  - (* cancel *)
    destruct (nth_error (ws s) ix) as [w1|] eqn:E; cbn in Hn; [|discriminate]. inversion Hn; subst. apply wok_cancel1. eapply H; eauto.
Qed.

Lemma allwok_init t0 : allwok (init c t0).
Proof. intros i w H. apply nth_error_In, repeat_spec in H. subst. split; cbn; discriminate. Qed.

Lemma allwok_run_gen s es s' : exited s = None -> InvM c s -> allwok s -> run c s es = Some s' -> allwok s'.
Proof.
  revert s. induction es as [|e r IH]; intros s Hex IM H Hr; cbn [run] in Hr; [inversion Hr; subst; exact H|].
  destruct (step c s e) as [s1|] eqn:E; [|discriminate].
  pose proof (wok_step _ _ _ IM H E) as H1.
  destruct (exited s1) eqn:Ex1.
  - destruct r as [|e2 r2]; cbn [run] in Hr; [inversion Hr; subst; exact H1|]. unfold step in Hr. rewrite Ex1 in Hr. discriminate.
  - eapply IH; eauto. eapply invM_step; eauto.
Qed.

(* every worker that has updated its final status is FAILED exactly when it took a failure branch, DONE otherwise *)
Theorem final_status t0 es s i w : run c (init c t0) es = Some s -> nth_error (ws s) i = Some w -> settled (pc w) = true ->
  ts w = if failed w then TFailed else TDone.
Proof.
  intros Hr Hn Hs. assert (A : allwok s) by (eapply allwok_run_gen; eauto using invM_init, allwok_init; reflexivity).
  destruct (A _ _ Hn) as [_ K]. exact (K Hs).
Qed.

(* ... and the failure branches are: connect refused, connect interrupted by the connect time-out, command interrupted
   by the command time-out (the only events that set the flag) *)
Definition fail_event (i : nat) (e : ev) : bool :=
  match e with EConnRefused j | EConnIntr j | EPollIntr j => Nat.eqb i j | _ => false end.

Lemma failed_needs_event_step s e s' i w' : step c s e = Some s' -> nth_error (ws s') i = Some w' -> failed w' = true ->
  fail_event i e = true \/ exists w, nth_error (ws s) i = Some w /\ failed w = true.
Proof.
  intros Hs Hn Hfl.
  inv_step Hs; cbn [ws setw setw1 setd setsp] in Hn; try rewrite nth_error_map_wk in Hn; upd_cases; cbn [failed set_pc] in Hfl;
    try (right; eexists; split; [eassumption|exact Hfl]);
    try (left; cbn [fail_event]; apply Nat.eqb_refl); try discriminate.
  - destruct (first_from_some _ _ _ _ Heqo) as (_ & (w1 & Hw1 & _) & _). rewrite (nth_error_nth_wk _ _ _ Hw1) in Hfl.
    right. exists w1. split; assumption.
  - right. eexists. split; [eassumption|]. destruct (failed w); [reflexivity|discriminate].
  - destruct (nth_error (ws s) i) as [w1|] eqn:E; cbn in Hn; [|discriminate]. inversion Hn; subst.
    right. exists w1. split; [reflexivity|]. unfold cancel1 in Hfl. destruct (ts w1); exact Hfl.
Qed.

Theorem failed_needs_event t0 es s i w : run c (init c t0) es = Some s -> nth_error (ws s) i = Some w -> failed w = true ->
  existsb (fail_event i) es = true.
Proof.
  intros Hr. assert (G : forall s0, (forall w0, nth_error (ws s0) i = Some w0 -> failed w0 = false) -> run c s0 es = Some s ->
                         nth_error (ws s) i = Some w -> failed w = true -> existsb (fail_event i) es = true).
  { clear Hr. revert w. induction es as [|e r IH]; intros w s0 H0 Hr Hn Hfl; cbn [run existsb] in *.
    - inversion Hr; subst. rewrite (H0 _ Hn) in Hfl. discriminate.
    - destruct (step c s0 e) as [s1|] eqn:E; [|discriminate].
      destruct (fail_event i e) eqn:Ef; [reflexivity|]. cbn [orb]. apply (IH w s1); [|exact Hr|exact Hn|exact Hfl].
      intros w1 Hn1. destruct (failed w1) eqn:F1; [|reflexivity].
      destruct (failed_needs_event_step _ _ _ _ _ E Hn1 F1) as [X|(w0 & Hw0 & Fw0)]; [congruence|].
      rewrite (H0 _ Hw0) in Fw0. discriminate. }
  apply (G (init c t0)); [|exact Hr].
  intros w0 Hn0. apply nth_error_In, repeat_spec in Hn0. subst. reflexivity.
Qed.
End E.
