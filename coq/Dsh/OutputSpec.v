(* S-side of C05/C06: what a host's stream must be emitted as. Independent of the buffer. *)
From PV Require Export Base.Bytes Generated.Params.
Local Open Scope N_scope.

(* complete lines (each including its newline) and the unterminated rest *)
Fixpoint split_lines_acc (s cur : bytes) : list bytes * bytes :=
  match s with
  | [] => ([], rev cur)
  | b :: r => if b =? 10 then let '(ls, t) := split_lines_acc r [] in (rev (10 :: cur) :: ls, t)
              else split_lines_acc r (b :: cur)
  end.
Definition split_lines (s : bytes) : list bytes * bytes := split_lines_acc s [].

(* cut into pieces of k bytes (k > 0) *)
Fixpoint chunks_f (fuel : nat) (k : nat) (s : bytes) : list bytes :=
  match fuel with
  | O => []
  | S f => match s with [] => [] | _ => firstn k s :: chunks_f f k (skipn k s) end
  end.
Definition chunks (k : nat) (s : bytes) : list bytes := chunks_f (length s) k s.

(* the records of one stream: one per complete line, then the tail in pieces of
   FLUSH_CHUNK-1 bytes, the first of which carries the label *)
Definition records (lab : bytes -> bytes) (s : bytes) : list bytes :=
  let '(ls, t) := split_lines s in
  map lab ls ++ match chunks (N.to_nat FLUSH_CHUNK - 1) t with [] => [] | c :: cs => lab c :: cs end.

(* the payload of a list of records once the label is stripped *)
Definition line_ok (limit : N) (l : bytes) : Prop := N.of_nat (length l) <= limit.
