(* Timed transition system of the whole dsh() run of src/pdsh/dsh.c: dispatcher, per-target
   workers (_rsh_thread) with scripted host behaviours (faults), the watchdog (_wdog), the
   signals thread (_signals_thread with _handle_sigint/_handle_sigtstp/_cancel_pending_threads)
   and the two mutexes, at the granularity of the calls the controlled scheduler observes.
   Time is the integer time() of the code; ETick advances it.  Everything a thread does
   between two observed calls is folded into the adjacent step (no other thread can run in
   between under the scheduler, and on real threads those stretches touch shared state only
   under the mutex shown).  Output bytes are not part of this system (C05/C06 own them).
   Used by C07 (faults/time-outs) and C20 (interrupts).  Definitions only. *)
From Coq Require Export List ZArith Lia Bool Arith.
From PV Require Export Generated.Params.
Export ListNotations.
Local Open Scope Z_scope.

Inductive beh := BOk | BRefuse | BHangConn | BHangRead.
Inductive tst := TNew | TRcmd | TReading | TDone | TFailed | TCanceled.

(* worker program counter; the comments give the next observed call *)
Inductive wpc :=
| PNone      (* thread not created *)
| PCreated   (* created; START takes the start stamp *)
| PWantA     (* lock thd_mutex to set state RCMD *)
| PHoldA     (* unlock *)
| PConn0     (* rcmd_connect entered: CONNBEGIN *)
| PInConn    (* inside connect(): returns ok / refused / EINTR, or hangs *)
| PWantB     (* _update_connect_state: lock thd_mutex *)
| PHoldB     (* unlock *)
| PPoll      (* poll/read loop *)
| PTerm      (* command timeout: rcmd_signal(SIGTERM) *)
| PWantC     (* update status: lock thd_mutex *)
| PHoldC     (* unlock *)
| PFlush     (* flush output, rcmd_destroy *)
| PTorn      (* lock threadcount_mutex *)
| PHold0     (* threadcount--, cond_signal *)
| PSig       (* unlock *)
| PExit.

Record wk := mkwk { pc : wpc; ts : tst; start : Z; conn : Z; eintr : bool; failed : bool; reported : bool }.
Definition wk0 : wk := mkwk PNone TNew (-1) (-1) false false false.   (* _thd_init: start = connect = (time_t) -1 *)

Inductive dpc := DLock | DCheck | DWait | DWoken | DUnlock | FLock | FCheck | FWait | FWoken | DDone | DExited.
Inductive wdpc := WdSleep (until : Z) | WdKilling (i : nat).
Inductive sgn := SInt | STstp.
Inductive spc := SIdle | SAbortL | SAbortH (k : nat) | SAbortU | SListM | SListL | SListH | SCancelL | SCancelH | SGone.
Inductive own := Free | ByD | ByW (i : nat) | ByS.

Record cfg := mkcfg { ntgt : nat; f : Z; tconn : Z; tcmd : Z; batch : bool; behs : list beh }.

Record gst := mkg {
  idx : nat; tc : Z; m0 : own; m1 : own; d : dpc; ws : list wk;
  now : Z; wd : wdpc; sp : spc; pend : option sgn; last : Z; exited : option Z }.

Inductive ev :=
(* dispatcher *)
| ELockD | EWaitD | EWokenD | ECreate (i : nat) | EUnlockD | EExit
(* worker i *)
| EStart (i : nat) | ELock1 (i : nat) | EUnlock1 (i : nat) | EConnBegin (i : nat)
| EConnOk (i : nat) | EConnRefused (i : nat) | EConnIntr (i : nat)
| EPollIntr (i : nat) | EReport (i : nat) | ERSigW (i : nat) | EDestroy (i : nat)
| ELock0 (i : nat) | ESignal (i : nat) | EUnlock0 (i : nat)
(* watchdog *)
| EWdWake | EWdKill (i : nat)
(* signals thread *)
| ESigArrive (sg : sgn) | ESigTake | ESigMark | ELock1S | ERSigS (i : nat) | EUnlock1S | EExitS | ELock0S | EUnlock0S | ERaise
(* environment *)
| ETick | ESpur.

Definition WDOG : Z := Z.of_N WDOG_POLL.
Definition INTR : Z := Z.of_N INTR_TIME.

Fixpoint updw (l : list wk) (i : nat) (x : wk) : list wk :=
  match l, i with [], _ => [] | _ :: t, O => x :: t | h :: t, S j => h :: updw t j x end.

Definition set_pc (w : wk) (p : wpc) : wk := mkwk p (ts w) (start w) (conn w) (eintr w) (failed w) (reported w).
Definition set_ts (w : wk) (t : tst) : wk := mkwk (pc w) t (start w) (conn w) (eintr w) (failed w) (reported w).

Definition tst_eqb (a b : tst) : bool :=
  match a, b with TNew,TNew | TRcmd,TRcmd | TReading,TReading | TDone,TDone | TFailed,TFailed | TCanceled,TCanceled => true | _,_ => false end.

Section Sys.
Variable c : cfg.

Definition behof (i : nat) : beh := nth i (behs c) BOk.

Definition init (t0 : Z) : gst :=
  mkg 0 0 Free Free DLock (repeat wk0 (ntgt c)) t0 (WdSleep t0) SIdle None 0 None.

(* _thd_connect_timeout / _thd_command_timeout as the watchdog evaluates them *)
Definition killable (s : gst) (w : wk) : bool :=
  match ts w with
  | TRcmd => (0 <? tconn c) && (start w + tconn c <? now s)
  | TCanceled =>   (* cancelled while connecting: still inside connect(); never started: start = -1 *)
    (0 <? tconn c) && negb (start w =? -1) && (start w + tconn c <? now s)
  | TReading => (0 <? tcmd c) && (conn w + tcmd c <? now s)
  | _ => false
  end.

(* first index >= k (scanning at most fuel slots) whose worker satisfies p *)
Fixpoint first_from (p : wk -> bool) (l : list wk) (k : nat) : option nat :=
  match l with
  | [] => None
  | w :: r => match k with
              | O => if p w then Some O else option_map S (first_from p r O)
              | S k' => option_map S (first_from p r k')
              end
  end.

(* the watchdog continues its scan from slot k: either it decides to signal slot j, or it
   reaches the end and goes to sleep for WDOG_POLL seconds *)
Definition wd_scan (s : gst) (k : nat) : wdpc :=
  match first_from (killable s) (ws s) k with
  | Some j => WdKilling j
  | None => WdSleep (now s + WDOG)
  end.

Definition blocked (w : wk) : bool := match pc w with PInConn | PPoll => true | _ => false end.

Definition wake (x : dpc) : dpc := match x with DWait => DWoken | FWait => FWoken | y => y end.

Definition setw (s : gst) (i : nat) (w : wk) : gst :=
  mkg (idx s) (tc s) (m0 s) (m1 s) (d s) (updw (ws s) i w) (now s) (wd s) (sp s) (pend s) (last s) (exited s).
Definition setw1 (s : gst) (i : nat) (w : wk) (o : own) : gst :=
  mkg (idx s) (tc s) (m0 s) o (d s) (updw (ws s) i w) (now s) (wd s) (sp s) (pend s) (last s) (exited s).
Definition setd (s : gst) (i : nat) (t : Z) (o : own) (x : dpc) : gst :=
  mkg i t o (m1 s) x (ws s) (now s) (wd s) (sp s) (pend s) (last s) (exited s).
Definition setsp (s : gst) (x : spc) : gst :=
  mkg (idx s) (tc s) (m0 s) (m1 s) (d s) (ws s) (now s) (wd s) x (pend s) (last s) (exited s).

Definition not_canceled (w : wk) : bool := negb (tst_eqb (ts w) TCanceled).
Definition is_reading (w : wk) : bool := tst_eqb (ts w) TReading.
Definition cancel1 (w : wk) : wk :=
  match ts w with TNew | TRcmd => set_ts w TCanceled | _ => w end.

Definition step (s : gst) (e : ev) : option gst :=
  match exited s with Some _ => None | None =>
  match e with
  (* ---------------- dispatcher ---------------- *)
  | ELockD =>
    match m0 s, d s with
    | Free, DLock => Some (setd s (idx s) (tc s) ByD DCheck)
    | Free, FLock => Some (setd s (idx s) (tc s) ByD FCheck)
    | _, _ => None
    end
  | EWaitD =>
    match d s with
    | DCheck => if f c <=? tc s then Some (setd s (idx s) (tc s) Free DWait) else None
    | FCheck => if 0 <? tc s then Some (setd s (idx s) (tc s) Free FWait) else None
    | _ => None
    end
  | EWokenD =>
    match m0 s, d s with
    | Free, DWoken => Some (setd s (idx s) (tc s) ByD DCheck)
    | Free, FWoken => Some (setd s (idx s) (tc s) ByD FCheck)
    | _, _ => None
    end
  | ECreate i =>
    (* room, skip cancelled slots, pthread_create, threadcount++ (all under threadcount_mutex) *)
    match d s with
    | DCheck =>
      if negb (f c <=? tc s) then
        match first_from not_canceled (ws s) (idx s) with
        | Some j => if Nat.eqb i j
                    then Some (mkg j (tc s + 1) (m0 s) (m1 s) DUnlock (updw (ws s) j (set_pc (nth j (ws s) wk0) PCreated))
                                   (now s) (wd s) (sp s) (pend s) (last s) (exited s))
                    else None
        | None => None
        end
      else None
    | _ => None
    end
  | EUnlockD =>
    match d s with
    | DUnlock => Some (setd s (S (idx s)) (tc s) Free (if Nat.ltb (S (idx s)) (ntgt c) then DLock else FLock))
    | DCheck =>  (* every remaining slot was cancelled: leave the loop *)
      if negb (f c <=? tc s) then
        match first_from not_canceled (ws s) (idx s) with
        | None => Some (setd s (ntgt c) (tc s) Free FLock)
        | Some _ => None
        end
      else None
    | FCheck => if 0 <? tc s then None else Some (setd s (idx s) (tc s) Free DDone)
    | _ => None
    end
  | EExit =>
    match d s with
    | DDone => Some (mkg (idx s) (tc s) (m0 s) (m1 s) DExited (ws s) (now s) (wd s) SGone (pend s) (last s) (Some 0))
    | _ => None
    end
  (* ---------------- worker i ---------------- *)
  | EStart i =>
    match nth_error (ws s) i with
    | Some w => match pc w with
                | PCreated => Some (setw s i (mkwk PWantA (ts w) (now s) (conn w) (eintr w) (failed w) (reported w)))
                | _ => None end
    | None => None
    end
  | ELock1 i =>
    match nth_error (ws s) i, m1 s with
    | Some w, Free =>
      match pc w with
      | PWantA => Some (setw1 s i (mkwk PHoldA TRcmd (start w) (conn w) (eintr w) (failed w) (reported w)) (ByW i))
      | PWantB => Some (setw1 s i (mkwk PHoldB (if tst_eqb (ts w) TCanceled then TCanceled else TReading)
                                        (start w) (now s) (eintr w) (failed w) (reported w)) (ByW i))
      | PPoll =>   (* both streams reached end of file: the loop ends *)
        match behof i with
        | BHangRead => None
        | _ => Some (setw1 s i (mkwk PHoldC TDone (start w) (conn w) (eintr w) (failed w) (reported w)) (ByW i))
        end
      | PWantC => Some (setw1 s i (mkwk PHoldC (if failed w then TFailed else TDone)
                                        (start w) (conn w) (eintr w) (failed w) (reported w)) (ByW i))
      | _ => None
      end
    | _, _ => None
    end
  | EUnlock1 i =>
    match nth_error (ws s) i with
    | Some w =>
      match pc w with
      | PHoldA => Some (setw1 s i (set_pc w PConn0) Free)
      | PHoldB => Some (setw1 s i (set_pc w (if tst_eqb (ts w) TCanceled then PWantC else PPoll)) Free)
      | PHoldC => Some (setw1 s i (set_pc w PFlush) Free)
      | _ => None
      end
    | None => None
    end
  | EConnBegin i =>
    match nth_error (ws s) i with
    | Some w => match pc w with
                | PConn0 => Some (setw s i (mkwk PInConn (ts w) (start w) (conn w) false (failed w) (reported w)))
                | _ => None end
    | None => None
    end
  | EConnOk i =>
    match nth_error (ws s) i with
    | Some w => match pc w, behof i with
                | PInConn, (BOk | BHangRead) => Some (setw s i (mkwk PWantB (ts w) (start w) (conn w) false (failed w) (reported w)))
                | _, _ => None end
    | None => None
    end
  | EConnRefused i =>
    match nth_error (ws s) i with
    | Some w => match pc w, behof i with
                | PInConn, BRefuse => Some (setw s i (mkwk PWantC (ts w) (start w) (conn w) false true true))
                | _, _ => None end
    | None => None
    end
  | EConnIntr i =>
    match nth_error (ws s) i with
    | Some w => match pc w, behof i with
                | PInConn, BHangConn =>
                  if eintr w then Some (setw s i (mkwk PWantC (ts w) (start w) (conn w) false true true)) else None
                | _, _ => None end
    | None => None
    end
  | EPollIntr i =>
    match nth_error (ws s) i with
    | Some w => match pc w with
                | PPoll =>
                  if eintr w then
                    if (0 <? tcmd c) && (conn w + tcmd c <? now s)
                    then Some (setw s i (mkwk PTerm (ts w) (start w) (conn w) false true false))
                    else Some (setw s i (mkwk PPoll (ts w) (start w) (conn w) false (failed w) (reported w)))
                  else None
                | _ => None end
    | None => None
    end
  | EReport i =>   (* err("%S: command timeout") *)
    match nth_error (ws s) i with
    | Some w => match pc w with
                | PTerm => if reported w then None
                           else Some (setw s i (mkwk PTerm (ts w) (start w) (conn w) (eintr w) (failed w) true))
                | _ => None end
    | None => None
    end
  | ERSigW i =>
    match nth_error (ws s) i with
    | Some w => match pc w with
                | PTerm => if reported w then Some (setw s i (set_pc w PWantC)) else None
                | _ => None end
    | None => None
    end
  | EDestroy i =>
    match nth_error (ws s) i with
    | Some w => match pc w with PFlush => Some (setw s i (set_pc w PTorn)) | _ => None end
    | None => None
    end
  | ELock0 i =>
    match nth_error (ws s) i, m0 s with
    | Some w, Free =>
      match pc w with
      | PTorn => Some (mkg (idx s) (tc s) (ByW i) (m1 s) (d s) (updw (ws s) i (set_pc w PHold0)) (now s) (wd s) (sp s) (pend s) (last s) (exited s))
      | _ => None end
    | _, _ => None
    end
  | ESignal i =>
    match nth_error (ws s) i with
    | Some w => match pc w with
                | PHold0 => Some (mkg (idx s) (tc s - 1) (m0 s) (m1 s) (wake (d s)) (updw (ws s) i (set_pc w PSig)) (now s) (wd s) (sp s) (pend s) (last s) (exited s))
                | _ => None end
    | None => None
    end
  | EUnlock0 i =>
    match nth_error (ws s) i with
    | Some w => match pc w with
                | PSig => Some (mkg (idx s) (tc s) Free (m1 s) (d s) (updw (ws s) i (set_pc w PExit)) (now s) (wd s) (sp s) (pend s) (last s) (exited s))
                | _ => None end
    | None => None
    end
  (* ---------------- watchdog ---------------- *)
  | EWdWake =>
    match wd s with
    | WdSleep u => if u <=? now s
                   then Some (mkg (idx s) (tc s) (m0 s) (m1 s) (d s) (ws s) (now s) (wd_scan s O) (sp s) (pend s) (last s) (exited s))
                   else None
    | _ => None
    end
  | EWdKill i =>
    match wd s with
    | WdKilling j =>
      if Nat.eqb i j then
        match nth_error (ws s) i with
        | Some w =>
          let w' := if blocked w then mkwk (pc w) (ts w) (start w) (conn w) true (failed w) (reported w) else w in
          let s1 := setw s i w' in
          Some (mkg (idx s1) (tc s1) (m0 s1) (m1 s1) (d s1) (ws s1) (now s1) (wd_scan s1 (S i)) (sp s1) (pend s1) (last s1) (exited s1))
        | None => None
        end
      else None
    | _ => None
    end
  (* ---------------- signals thread ---------------- *)
  | ESigArrive sg =>
    match pend s, sp s with
    | None, SGone => None
    | None, _ => Some (mkg (idx s) (tc s) (m0 s) (m1 s) (d s) (ws s) (now s) (wd s) (sp s) (Some sg) (last s) (exited s))
    | Some _, _ => None
    end
  | ESigTake =>
    match sp s, pend s with
    | SIdle, Some SInt =>
      if batch c then Some (mkg (idx s) (tc s) (m0 s) (m1 s) (d s) (ws s) (now s) (wd s) SAbortL None (last s) (exited s))
      else if INTR <? now s - last s
      then Some (mkg (idx s) (tc s) (m0 s) (m1 s) (d s) (ws s) (now s) (wd s) SListM None (last s) (exited s))
      else Some (mkg (idx s) (tc s) (m0 s) (m1 s) (d s) (ws s) (now s) (wd s) SAbortL None (last s) (exited s))
    | SIdle, Some STstp =>
      if INTR <? now s - last s
      then None  (* raise(SIGSTOP): see ERaise *)
      else Some (mkg (idx s) (tc s) (m0 s) (m1 s) (d s) (ws s) (now s) (wd s) SCancelL None (last s) (exited s))
    | _, _ => None
    end
  | ESigMark =>   (* the two notices are out: *last_intrp = time(NULL) *)
    match sp s with
    | SListM => Some (mkg (idx s) (tc s) (m0 s) (m1 s) (d s) (ws s) (now s) (wd s) SListL (pend s) (now s) (exited s))
    | _ => None
    end
  | ERaise =>
    match sp s, pend s with
    | SIdle, Some STstp =>
      if INTR <? now s - last s
      then Some (mkg (idx s) (tc s) (m0 s) (m1 s) (d s) (ws s) (now s) (wd s) SIdle None (last s) (exited s))
      else None
    | _, _ => None
    end
  | ELock1S =>
    match m1 s, sp s with
    | Free, SAbortL => Some (mkg (idx s) (tc s) (m0 s) ByS (d s) (ws s) (now s) (wd s) (SAbortH O) (pend s) (last s) (exited s))
    | Free, SListL => Some (mkg (idx s) (tc s) (m0 s) ByS (d s) (ws s) (now s) (wd s) SListH (pend s) (last s) (exited s))
    | _, _ => None
    end
  | ERSigS i =>
    match sp s with
    | SAbortH k => match first_from is_reading (ws s) k with
                   | Some j => if Nat.eqb i j then Some (setsp s (SAbortH (S j))) else None
                   | None => None end
    | _ => None
    end
  | EUnlock1S =>
    match sp s with
    | SAbortH k => match first_from is_reading (ws s) k with
                   | None => Some (mkg (idx s) (tc s) (m0 s) Free (d s) (ws s) (now s) (wd s) SAbortU (pend s) (last s) (exited s))
                   | Some _ => None end
    | SListH => Some (mkg (idx s) (tc s) (m0 s) Free (d s) (ws s) (now s) (wd s) SIdle (pend s) (last s) (exited s))
    | _ => None
    end
  | EExitS =>
    match sp s with
    | SAbortU => Some (mkg (idx s) (tc s) (m0 s) (m1 s) (d s) (ws s) (now s) (wd s) SGone (pend s) (last s) (Some 1))
    | _ => None
    end
  | ELock0S =>
    match m0 s, sp s with
    | Free, SCancelL => Some (mkg (idx s) (tc s) ByS (m1 s) (d s) (map cancel1 (ws s)) (now s) (wd s) SCancelH (pend s) (last s) (exited s))
    | _, _ => None
    end
  | EUnlock0S =>
    match sp s with
    | SCancelH => Some (mkg (idx s) (tc s) Free (m1 s) (d s) (ws s) (now s) (wd s) SIdle (pend s) (last s) (exited s))
    | _ => None
    end
  (* ---------------- environment ---------------- *)
  | ETick => Some (mkg (idx s) (tc s) (m0 s) (m1 s) (d s) (ws s) (now s + 1) (wd s) (sp s) (pend s) (last s) (exited s))
  | ESpur =>
    match d s with
    | DWait => Some (setd s (idx s) (tc s) (m0 s) DWoken)
    | FWait => Some (setd s (idx s) (tc s) (m0 s) FWoken)
    | _ => None
    end
  end end.

Fixpoint run (s : gst) (es : list ev) : option gst :=
  match es with [] => Some s | e :: r => match step s e with Some s' => run s' r | None => None end end.

(* the next target the dispatcher would start (used by the trace acceptor to name threads) *)
Definition next_target (s : gst) : option nat := first_from not_canceled (ws s) (idx s).

(* "every thread is blocked": the watchdog sleeps and is not due, and every worker is either not
   created, inside connect()/poll() with no signal pending, or gone.  Time advancing only in such
   states is the maximal-progress reading of "threads are fast compared with seconds". *)
Definition calm_pc (w : wk) : bool :=
  match pc w with
  | PNone | PExit => true
  | PInConn | PPoll => negb (eintr w)
  | _ => false
  end.
Definition calm (s : gst) : bool :=
  match wd s with WdSleep u => now s <? u | WdKilling _ => false end && forallb calm_pc (ws s).

(* the stamp + timeout of a worker that hangs un-signalled in a state the watchdog covers *)
Definition hang_due (i : nat) (w : wk) : option Z :=
  match pc w, behof i, ts w with
  | PInConn, BHangConn, TRcmd => if negb (eintr w) && (0 <? tconn c) then Some (start w + tconn c) else None
  | PInConn, BHangConn, TCanceled =>   (* cancelled by ^C ^Z while connecting: the connect timeout still applies *)
    if negb (eintr w) && (0 <? tconn c) && negb (start w =? -1) then Some (start w + tconn c) else None
  | PPoll, BHangRead, TReading => if negb (eintr w) && (0 <? tcmd c) then Some (conn w + tcmd c) else None
  | _, _, _ => None
  end.

(* "no thread can take a step": every event other than the environment's (clock tick, spurious wake-up, signal arrival)
   is refused.  The candidates are finitely many: the index-free events and, per slot, the events that name it. *)
Definition cands (s : gst) : list ev :=
  [ELockD; EWaitD; EWokenD; EUnlockD; EExit; EWdWake; ESigTake; ESigMark; ELock1S; EUnlock1S; EExitS; ELock0S; EUnlock0S; ERaise] ++
  flat_map (fun i => [ECreate i; EStart i; ELock1 i; EUnlock1 i; EConnBegin i; EConnOk i; EConnRefused i; EConnIntr i; EPollIntr i;
                      EReport i; ERSigW i; EDestroy i; ELock0 i; ESignal i; EUnlock0 i; EWdKill i; ERSigS i])
           (seq 0 (length (ws s))).
Definition blockedb (s : gst) : bool :=
  forallb (fun e => match step s e with None => true | Some _ => false end) (cands s).

(* observables *)
Definition wpc_inflight (p : wpc) : bool :=
  match p with PInConn | PWantB | PHoldB | PPoll | PTerm | PWantC | PHoldC | PFlush => true | _ => false end.
Definition inflight (s : gst) : Z := Z.of_nat (length (filter (fun w => wpc_inflight (pc w)) (ws s))).
End Sys.
