(* Model of how pdsh computes its exit status (dsh.c worker epilogue and the -S loop of
   dsh(), main.c's return, execcmd.c's exec_destroy). *)
From PV Require Export Base.Bytes Generated.Params.
Local Open Scope Z_scope.

Inductive hstate := HDone | HFailed | HCanceled.
Record hres := mkhres { hs : hstate; hrc : Z }.

(* worker epilogue: a->rc is what the marker line said (0 if none); the transport's own
   status is used only when that is 0 *)
Definition host_rc (inband drc : Z) : Z := if (inband =? 0) && (0 <? drc) then drc else inband.

(* exec_destroy: the wait status of the child (after the fix: death by signal is 128+sig) *)
Inductive wstatus := Exited (code : Z) | Signaled (sig : Z).
Definition exec_destroy_rc (st : wstatus) : Z := match st with Exited c => c | Signaled s => 128 + s end.

Definition is_failed (h : hres) : bool := match hs h with HFailed => true | _ => false end.

(* the -S loop of dsh(), in array order (after the fix: a failed host only ever raises) *)
Definition agg_step (rc : Z) (h : hres) : Z :=
  let rc1 := if is_failed h && (rc <? Z.of_N RC_FAILED) then Z.of_N RC_FAILED else rc in
  if rc1 <? hrc h then hrc h else rc1.
Definition aggregate (l : list hres) : Z := fold_left agg_step l 0.

(* main(): return dsh(); the process exit status is the low byte *)
Definition exit_status (ret_remote_rc : bool) (l : list hres) : Z :=
  (if ret_remote_rc then aggregate l else 0) mod 256.

(* S: the largest return code, raised to RC_FAILED if any host failed *)
Definition spec_max (l : list hres) : Z :=
  Z.max (fold_right Z.max 0 (map hrc l)) (if existsb is_failed l then Z.of_N RC_FAILED else 0).

(* ---- the status request and -k (fail-fast) ----
   dsh(): the suffix ";echo XXRETCODE:$?" is appended to the command when -S or -k is given; a remote shell prints the
   status line only if it was asked to.  _rsh_thread(): with -k, a worker whose host failed or whose return code is
   positive forwards SIGTERM to the others and ends pdsh with status 1, before the -S loop is ever reached. *)
Definition getstat (optS optk : bool) : bool := optS || optk.
Definition seen_inband (gs : bool) (code : Z) : Z := if gs then code else 0.
Definition kfail (h : hres) : bool := is_failed h || (0 <? hrc h).
Definition exit_k (optS optk : bool) (l : list hres) : Z :=
  if optk && existsb kfail l then 1 else exit_status optS l.

(* one host of a scripted run: could it be reached and did its command run to the end (fails = false), the code its
   command exits with, the status the transport reports at teardown *)
Definition host_result (gs fails : bool) (code drc : Z) : hres :=
  mkhres (if fails then HFailed else HDone) (host_rc (seen_inband gs code) drc).
Definition run_exit (optS optk : bool) (hosts : list (bool * (Z * Z))) : Z :=
  exit_k optS optk (map (fun h => host_result (getstat optS optk) (fst h) (fst (snd h)) (snd (snd h))) hosts).
