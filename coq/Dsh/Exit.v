(* Model of how pdsh computes its exit status (dsh.c worker epilogue and the -S loop of
   dsh(), main.c's return, execcmd.c's exec_destroy). *)
From PV Require Export Base.Bytes Generated.Params.
Local Open Scope Z_scope.

Inductive hstate := HDone | HFailed | HCanceled.
Record hres := mkhres { hs : hstate; hrc : Z }.

(* worker epilogue: a->rc is what the marker line said (0 if none); the transport's own
   status is used only when that is 0 *)
Definition host_rc (inband drc : Z) : Z := if (inband =? 0) && (0 <? drc) then drc else inband.

(* exec_destroy: the wait status of the child (after the fix: death by signal is 128+sig) *)
Inductive wstatus := Exited (code : Z) | Signaled (sig : Z).
Definition exec_destroy_rc (st : wstatus) : Z := match st with Exited c => c | Signaled s => 128 + s end.

Definition is_failed (h : hres) : bool := match hs h with HFailed => true | _ => false end.

(* the -S loop of dsh(), in array order (after the fix: a failed host only ever raises) *)
Definition agg_step (rc : Z) (h : hres) : Z :=
  let rc1 := if is_failed h && (rc <? Z.of_N RC_FAILED) then Z.of_N RC_FAILED else rc in
  if rc1 <? hrc h then hrc h else rc1.
Definition aggregate (l : list hres) : Z := fold_left agg_step l 0.

(* main(): return dsh(); the process exit status is the low byte *)
Definition exit_status (ret_remote_rc : bool) (l : list hres) : Z :=
  (if ret_remote_rc then aggregate l else 0) mod 256.

(* S: the largest return code, raised to RC_FAILED if any host failed *)
Definition spec_max (l : list hres) : Z :=
  Z.max (fold_right Z.max 0 (map hrc l)) (if existsb is_failed l then Z.of_N RC_FAILED else 0).
