(* Termination in numbers: with positive time-outs, a maximal-progress run (SysClock.mprun: the clock ticks only when no
   thread can take a step) in which the dispatcher is never woken spuriously and no signal arrives has at most
        (2N+1) * (max time-out + watchdog period) * (83 N + 29) + 83 N + 28
   events, whatever the hosts do.  Proof: the potential (ticks still allowed) * (M + 1) + mu decreases with every event -
   mu decreases with every event of pdsh itself (SysMeasure.mu_step), a tick uses up one of the boundedly many ticks
   (SysClock.clock_bound_mp) and can raise mu to at most M.  With SysLive.no_deadlock (a state that has not exited can
   always be left, by a thread or by a tick) every such run therefore ends, and ends exited. *)
From PV Require Import Dsh.Sys Dsh.SysFacts Dsh.SysLive Dsh.SysClock Dsh.SysMeasure.
From Coq Require Import ZifyBool.
Local Open Scope Z_scope.

Fixpoint quiet_env (es : list ev) : bool :=
  match es with
  | [] => true
  | (ESpur | ESigArrive _) :: _ => false
  | _ :: r => quiet_env r
  end.

Lemma quiet_env_app a b : quiet_env (a ++ b) = quiet_env a && quiet_env b.
Proof. induction a as [|e r IH]; cbn [app quiet_env]; [reflexivity|]. destruct e; cbn [andb]; auto. Qed.

Lemma ranks_le l : ranks l <= 18 * Z.of_nat (length l).
Proof. induction l as [|h t IH]; cbn [ranks length]; [lia|]. pose proof (rank_range h). lia. Qed.

Section Term.
Variable c : cfg.
Hypothesis Hf : 1 <= f c.
Hypothesis Htc : 0 < tconn c.
Hypothesis Htm : 0 < tcmd c.
Hypothesis Hwd : 0 < WDOG.
Variable t0 : Z.
Hypothesis Ht0 : 0 <= t0.

Definition N : Z := Z.of_nat (ntgt c).
Definition M : Z := 83 * N + 28.
Definition TT : Z := (2 * N + 1) * B c.

Lemma mu_le s : length (ws s) = ntgt c -> mu c s <= M.
Proof.
  intros Hl. unfold mu, dmeas, wdmeas, spmeas, M, N. pose proof (ranks_le (ws s)) as R. rewrite Hl in *.
  assert (Z.of_nat (ntgt c - idx s) <= Z.of_nat (ntgt c)) by lia.
  destruct (d s), (wd s) as [u|j], (pend s), (sp s); try destruct (u <=? now s); lia.
Qed.

Definition phi (s : gst) : Z := (t0 + TT - now s) * (M + 1) + mu c s.

Lemma len_step s e s' : step c s e = Some s' -> length (ws s') = length (ws s).
Proof. intros H. inv_step H; cbn [ws setw setw1 setd setsp]; rewrite ?updw_length, ?map_length; reflexivity. Qed.

Theorem steps_bounded es s : mprun c (init c t0) es s -> quiet_env es = true ->
  Z.of_nat (length es) + phi s <= TT * (M + 1) + M.
Proof.
  intros U. remember (init c t0) as s0 eqn:E0. induction U as [|s0 es s1 e s2 U IH Hs Ht]; subst; intros Hq.
  - cbn [length]. unfold phi. cbn [init now]. assert (mu c (init c t0) <= M) by (apply mu_le; cbn; apply repeat_length). lia.
  - rewrite quiet_env_app in Hq. apply andb_prop in Hq as [Hq1 Hq2]. specialize (IH eq_refl Hq1).
    rewrite app_length. cbn [length]. rewrite Nat.add_1_r, Nat2Z.inj_succ.
    pose proof (step_exited_none _ _ _ _ Hs) as Hex.
    pose proof (urun_run _ _ _ _ (murun_urun _ _ _ _ (mprun_murun c Hf t0 _ _ U))) as R.
    assert (IM : InvM c s1) by (eapply invM_run; [| |exact Hex]; [|exact R]; apply invM_init; exact Hf).
    assert (Hl : length (ws s1) = ntgt c).
    { clear -R. assert (G : forall es s a, run c a es = Some s -> length (ws s) = length (ws a)).
      { induction es0 as [|x r IHr]; intros s a Hr; cbn [run] in Hr; [inversion Hr; reflexivity|].
        destruct (step c a x) as [a1|] eqn:E; [|discriminate]. rewrite (IHr _ _ Hr). eapply len_step; eauto. }
      rewrite (G _ _ _ R). cbn. apply repeat_length. }
    destruct (ev_eq_tick e) as [->|Hne].
    + destruct (tick_fields _ _ _ Hs) as [Hws Hnow].
      assert (mu c s2 <= M) by (apply mu_le; rewrite Hws; exact Hl).
      pose proof (mu_nonneg c s1). unfold phi in *. rewrite Hnow. nia.
    + assert (He : is_env e = false) by (destruct e; try reflexivity; try congruence; discriminate Hq2).
      pose proof (mu_step c Hwd _ _ _ IM Hs He) as Hd.
      unfold phi in *. rewrite (now_step _ _ _ _ Hs Hne). lia.
Qed.

Theorem run_length_bounded es s : mprun c (init c t0) es s -> quiet_env es = true ->
  Z.of_nat (length es) <= TT * (M + 1) + M.
Proof.
  intros U Hq. pose proof (steps_bounded _ _ U Hq) as H.
  pose proof (clock_bound_mp c Hf Htc Htm t0 Ht0 _ _ U) as Hc. pose proof (mu_nonneg c s) as Hm.
  assert (0 <= phi s). { unfold phi, TT, N. assert (0 <= M + 1) by (unfold M, N; lia). nia. }
  lia.
Qed.

(* ... and a run that has not exited can always be extended (by a thread of pdsh, or by a tick when none can move) *)
Theorem run_extensible es s : mprun c (init c t0) es s -> exited s = None ->
  exists e s', mprun c (init c t0) (es ++ [e]) s' /\ match e with ESpur | ESigArrive _ => False | _ => True end.
Proof.
  intros U Hex. destruct (can_move_dec c s) as [(e & s' & Hs & He)|Hn].
  - exists e, s'. split; [econstructor; [exact U|exact Hs|]|destruct e; try exact I; discriminate He].
    intros ->. discriminate He.
  - exists ETick. eexists. split; [econstructor; [exact U| |intros _; exact Hn]|exact I].
    unfold step. rewrite Hex. reflexivity.
Qed.

End Term.
