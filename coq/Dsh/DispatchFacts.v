(* C03/C04 proofs about the fanout protocol transition system. *)
From PV Require Import Dsh.Dispatch.
Local Open Scope Z_scope.
