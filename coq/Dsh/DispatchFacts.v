(* C03/C04 proofs about the fanout protocol transition system. *)
From PV Require Import Dsh.Dispatch.
Local Open Scope Z_scope.

(* ---------------------------------------------------------------------------------------- *)
(* lists of worker pcs *)

Lemma cnt_upd p l i x o : nth_error l i = Some o ->
  cnt p (upd l i x) = cnt p l - (if p o then 1 else 0) + (if p x then 1 else 0).
Proof.
  unfold cnt. revert i. induction l as [|h t IH]; intros [|j] H; cbn [nth_error upd filter] in *; try discriminate.
  - inversion H; subst. destruct (p o), (p x); cbn [length]; lia.
  - specialize (IH j H). destruct (p h); cbn [length]; lia.
Qed.
Lemma upd_length l i x : length (upd l i x) = length l.
Proof. revert i; induction l; intros [|j]; simpl; auto. Qed.
Lemma nth_upd_same l i x : (i < length l)%nat -> nth_error (upd l i x) i = Some x.
Proof. revert i; induction l; intros [|j] H; simpl in *; try lia; auto. apply IHl; lia. Qed.
Lemma nth_upd_other l i j x : i <> j -> nth_error (upd l i x) j = nth_error l j.
Proof. revert i j; induction l; intros [|i] [|j] H; simpl; auto; try congruence. Qed.
Lemma cnt_le p q l : (forall x, p x = true -> q x = true) -> cnt p l <= cnt q l.
Proof. unfold cnt; intros H; induction l as [|h t IH]; cbn [filter length]; [lia|].
  destruct (p h) eqn:E; [rewrite (H _ E)|destruct (q h)]; cbn [length]; lia. Qed.
Lemma cnt_nonneg p l : 0 <= cnt p l. Proof. unfold cnt; lia. Qed.
Lemma cnt_repeat_false p x k : p x = false -> cnt p (repeat x k) = 0.
Proof. intros H. unfold cnt. induction k; cbn [repeat filter]; [reflexivity|]. rewrite H. exact IHk. Qed.
Lemma cnt_repeat_true p x k : p x = true -> cnt p (repeat x k) = Z.of_nat k.
Proof. intros H. unfold cnt. induction k; cbn [repeat filter]; [reflexivity|]. rewrite H. cbn [length]. lia. Qed.
Lemma cnt_pos_ex p l : 0 < cnt p l -> exists i x, nth_error l i = Some x /\ p x = true.
Proof.
  unfold cnt. induction l as [|h t IH]; cbn [filter length]; [lia|].
  destruct (p h) eqn:E.
  - intros _. exists 0%nat, h. split; auto.
  - intros H. destruct (IH H) as (i & x & Hi & Hx). exists (S i), x. split; auto.
Qed.
Lemma cnt_ex_pos p l i x : nth_error l i = Some x -> p x = true -> 0 < cnt p l.
Proof.
  unfold cnt. revert i. induction l as [|h t IH]; intros [|i] H Hp; cbn [nth_error filter] in *; try discriminate.
  - inversion H; subst. rewrite Hp. cbn [length]. lia.
  - specialize (IH i H Hp). destruct (p h); cbn [length]; lia.
Qed.
Lemma nth_upd_inv l k y j z : nth_error (upd l k y) j = Some z ->
  (j = k /\ z = y) \/ (j <> k /\ nth_error l j = Some z).
Proof.
  intros H. destruct (Nat.eq_dec k j) as [<-|Hne].
  - left. assert (k < length l)%nat.
    { rewrite <- (upd_length l k y). apply nth_error_Some. congruence. }
    rewrite nth_upd_same in H by auto. inversion H; auto.
  - right. rewrite nth_upd_other in H by auto. auto.
Qed.

Lemma nth_upd l k y x i : nth_error l k = Some x ->
  nth i (upd l k y) WNone = if Nat.eqb i k then y else nth i l WNone.
Proof.
  revert k i. induction l as [|h t IH]; intros [|k] [|i] H; cbn [nth_error upd nth Nat.eqb] in *; try discriminate; auto.
Qed.

(* weights of the worker pcs: the number of steps a slot can still cause *)
Definition wgt (x : wpc) : Z :=
  match x with WNone => 7 | WStart => 7 | WConn => 6 | WTorn => 5 | WHold => 4 | WSig => 1 | WExit => 0 end.
Definition sumw (l : list wpc) : Z := fold_right (fun x a => wgt x + a) 0 l.
Lemma sumw_upd l i x o : nth_error l i = Some o -> sumw (upd l i x) = sumw l - wgt o + wgt x.
Proof.
  revert i. induction l as [|h t IH]; intros [|j] H; cbn [nth_error upd sumw fold_right] in *; try discriminate.
  - inversion H; subst. lia.
  - specialize (IH j H). unfold sumw in IH. lia.
Qed.
Lemma sumw_nonneg l : 0 <= sumw l.
Proof. induction l as [|h t IH]; cbn [sumw fold_right]; [lia|]. unfold sumw in IH. destruct h; cbn [wgt]; lia. Qed.
Lemma sumw_repeat x k : sumw (repeat x k) = wgt x * Z.of_nat k.
Proof. induction k; cbn [repeat sumw fold_right]; [lia|]. unfold sumw in IHk. lia. Qed.

(* weights for draining the worker epilogues: steps left until the mutex is given back *)
Definition wgt2 (x : wpc) : Z := match x with WTorn => 3 | WHold => 2 | WSig => 1 | _ => 0 end.
Definition sume (l : list wpc) : Z := fold_right (fun x a => wgt2 x + a) 0 l.
Lemma sume_upd l i x o : nth_error l i = Some o -> sume (upd l i x) = sume l - wgt2 o + wgt2 x.
Proof.
  revert i. induction l as [|h t IH]; intros [|j] H; cbn [nth_error upd sume fold_right] in *; try discriminate.
  - inversion H; subst. lia.
  - specialize (IH j H). unfold sume in IH. lia.
Qed.
Lemma wgt2_nonneg x : 0 <= wgt2 x. Proof. destruct x; cbn; lia. Qed.
Lemma sume_nonneg l : 0 <= sume l.
Proof. induction l as [|h t IH]; cbn [sume fold_right]; [lia|]. unfold sume in IH. pose proof (wgt2_nonneg h). lia. Qed.
Lemma sume_ge l i x : nth_error l i = Some x -> wgt2 x <= sume l.
Proof.
  revert i. induction l as [|h t IH]; intros [|j] H; cbn [nth_error sume fold_right] in *; try discriminate.
  - inversion H; subst. pose proof (sume_nonneg t). unfold sume in *. lia.
  - specialize (IH j H). pose proof (wgt2_nonneg h). unfold sume in *. lia.
Qed.
Lemma sume_pos_ex l : 0 < sume l -> exists i x, nth_error l i = Some x /\ 0 < wgt2 x.
Proof.
  induction l as [|h t IH]; cbn [sume fold_right]; [lia|]. intros H.
  destruct (Z_lt_le_dec 0 (wgt2 h)).
  - exists 0%nat, h. split; auto.
  - destruct IH as (i & x & Hi & Hx); [unfold sume; lia|]. exists (S i), x. split; auto.
Qed.
Lemma sume_zero_live l : sume l = 0 ->
  cnt (fun x => match x with WStart | WConn | WTorn | WHold => true | _ => false end) l =
  cnt (fun x => wpc_eqb x WStart || wpc_eqb x WConn) l.
Proof.
  unfold cnt. induction l as [|h t IH]; cbn [sume fold_right filter]; [reflexivity|]. intros H.
  pose proof (sume_nonneg t). pose proof (wgt2_nonneg h). unfold sume in *.
  assert (Ht : fold_right (fun x a => wgt2 x + a) 0 t = 0) by lia. specialize (IH Ht).
  destruct h; cbn [wgt2 wpc_eqb orb] in *; cbn [length]; lia.
Qed.

(* counting events (the same definitions as in Props/Properties_C03.v) *)
Definition nev (p : ev -> bool) (es : list ev) : nat := length (filter p es).
Definition ev_create (i : nat) (e : ev) : bool := match e with ECreate j => Nat.eqb i j | _ => false end.
Definition ev_conn (i : nat) (e : ev) : bool := match e with EConn j => Nat.eqb i j | _ => false end.
Definition ev_destroy (i : nat) (e : ev) : bool := match e with EDestroy j => Nat.eqb i j | _ => false end.
Lemma nev_snoc p es e : nev p (es ++ [e]) = (nev p es + (if p e then 1 else 0))%nat.
Proof. unfold nev. rewrite filter_app, app_length. cbn [filter]. destruct (p e); reflexivity. Qed.

(* ---------------------------------------------------------------------------------------- *)
(* the step function as a relation (recheck = true) *)

Section P.
Variable n : nat.
Variable f : Z.

Inductive Step (s : st) : ev -> st -> Prop :=
| SLockD1 : mtx s = Free -> d s = DLock -> Step s ELockD (mkst (idx s) (tc s) ByD DCheck (w s))
| SLockD2 : mtx s = Free -> d s = FLock -> Step s ELockD (mkst (idx s) (tc s) ByD FCheck (w s))
| SWait1 : d s = DCheck -> f <= tc s -> Step s EWaitD (mkst (idx s) (tc s) Free DWait (w s))
| SWait2 : d s = FCheck -> 0 < tc s -> Step s EWaitD (mkst (idx s) (tc s) Free FWait (w s))
| SWoken1 : mtx s = Free -> d s = DWoken -> Step s EWokenD (mkst (idx s) (tc s) ByD DCheck (w s))
| SWoken2 : mtx s = Free -> d s = FWoken -> Step s EWokenD (mkst (idx s) (tc s) ByD FCheck (w s))
| SCreate : d s = DCheck -> tc s < f -> (idx s < n)%nat ->
    Step s (ECreate (idx s)) (mkst (idx s) (tc s + 1) (mtx s) DUnlock (upd (w s) (idx s) WStart))
| SCreateGo : d s = DGo -> (idx s < n)%nat ->
    Step s (ECreate (idx s)) (mkst (idx s) (tc s + 1) (mtx s) DUnlock (upd (w s) (idx s) WStart))
| SUnlock1 : d s = DUnlock ->
    Step s EUnlockD (mkst (S (idx s)) (tc s) Free (if Nat.ltb (S (idx s)) n then DLock else FLock) (w s))
| SUnlock2 : d s = FCheck -> tc s <= 0 -> Step s EUnlockD (mkst (idx s) (tc s) Free DDone (w s))
| SConn i : nth_error (w s) i = Some WStart ->
    Step s (EConn i) (mkst (idx s) (tc s) (mtx s) (d s) (upd (w s) i WConn))
| SDestroy i : nth_error (w s) i = Some WConn ->
    Step s (EDestroy i) (mkst (idx s) (tc s) (mtx s) (d s) (upd (w s) i WTorn))
| SLockW i : nth_error (w s) i = Some WTorn -> mtx s = Free ->
    Step s (ELockW i) (mkst (idx s) (tc s) (ByW i) (d s) (upd (w s) i WHold))
| SSignal i : nth_error (w s) i = Some WHold ->
    Step s (ESignal i) (mkst (idx s) (tc s - 1) (mtx s) (wake (d s)) (upd (w s) i WSig))
| SUnlockW i : nth_error (w s) i = Some WSig ->
    Step s (EUnlockW i) (mkst (idx s) (tc s) Free (d s) (upd (w s) i WExit))
| SSpur1 : d s = DWait -> Step s ESpur (mkst (idx s) (tc s) (mtx s) DWoken (w s))
| SSpur2 : d s = FWait -> Step s ESpur (mkst (idx s) (tc s) (mtx s) FWoken (w s))
| SExit : d s = DDone -> Step s EExit (mkst (idx s) (tc s) (mtx s) DExited (w s)).

Lemma step_Step s e s' : step n f true s e = Some s' -> Step s e s'.
Proof.
  intros H. destruct e; cbn [step] in H.
  - destruct (mtx s) eqn:Em; try discriminate. destruct (d s) eqn:Ed; try discriminate;
    inversion H; subst; constructor; auto.
  - destruct (d s) eqn:Ed; try discriminate.
    + destruct (f <=? tc s) eqn:E; try discriminate. inversion H; subst. apply SWait1; auto. apply Z.leb_le; auto.
    + destruct (0 <? tc s) eqn:E; try discriminate. inversion H; subst. apply SWait2; auto. apply Z.ltb_lt; auto.
  - destruct (mtx s) eqn:Em; try discriminate. destruct (d s) eqn:Ed; try discriminate;
    inversion H; subst; constructor; auto.
  - destruct ((match d s with DCheck => negb (f <=? tc s) | DGo => true | _ => false end) && Nat.eqb i (idx s) && Nat.ltb i n) eqn:E;
      try discriminate.
    apply andb_prop in E. destruct E as [E E3]. apply andb_prop in E. destruct E as [E1 E2].
    apply Nat.eqb_eq in E2. apply Nat.ltb_lt in E3. subst i. inversion H; subst.
    destruct (d s) eqn:Ed; try discriminate.
    + apply SCreate; auto. apply negb_true_iff in E1. apply Z.leb_gt in E1. auto.
    + apply SCreateGo; auto.
  - destruct (d s) eqn:Ed; try discriminate.
    + inversion H; subst. apply SUnlock1; auto.
    + destruct (0 <? tc s) eqn:E; try discriminate. inversion H; subst. apply SUnlock2; auto. apply Z.ltb_ge; auto.
  - destruct (nth_error (w s) i) as [[]|] eqn:En; try discriminate. inversion H; subst. constructor; auto.
  - destruct (nth_error (w s) i) as [[]|] eqn:En; try discriminate. inversion H; subst. constructor; auto.
  - destruct (nth_error (w s) i) as [[]|] eqn:En; try discriminate. destruct (mtx s) eqn:Em; try discriminate.
    inversion H; subst. constructor; auto.
  - destruct (nth_error (w s) i) as [[]|] eqn:En; try discriminate. inversion H; subst. constructor; auto.
  - destruct (nth_error (w s) i) as [[]|] eqn:En; try discriminate. inversion H; subst. constructor; auto.
  - destruct (d s) eqn:Ed; try discriminate; inversion H; subst; constructor; auto.
  - destruct (d s) eqn:Ed; try discriminate; inversion H; subst; constructor; auto.
Qed.

Lemma Step_step s e s' : Step s e s' -> step n f true s e = Some s'.
Proof.
  intros H. destruct H; cbn [step];
    repeat match goal with H : _ = _ |- _ => rewrite H end; try reflexivity.
  - apply Z.leb_le in H0. rewrite H0. reflexivity.
  - apply Z.ltb_lt in H0. rewrite H0. reflexivity.
  - apply Z.leb_gt in H0. rewrite H0. rewrite Nat.eqb_refl. apply Nat.ltb_lt in H1. rewrite H1. reflexivity.
  - rewrite Nat.eqb_refl. apply Nat.ltb_lt in H0. rewrite H0. reflexivity.
  - apply Z.ltb_ge in H0. rewrite H0. reflexivity.
Qed.


(* ---------------------------------------------------------------------------------------- *)
(* the state invariant *)

Definition dholds (x : dpc) : bool := match x with DCheck | DGo | DUnlock | FCheck => true | _ => false end.
Definition wholds (x : wpc) : bool := match x with WHold | WSig => true | _ => false end.
Definition inloop (x : dpc) : bool :=
  match x with DLock | DCheck | DWait | DWoken | DGo | DUnlock => true | _ => false end.
Definition live (x : wpc) : bool := match x with WStart | WConn | WTorn | WHold => true | _ => false end.
Definition bump (x : dpc) : nat := match x with DUnlock => 1 | _ => 0 end.

Record Inv (s : st) : Prop := {
  I_len : length (w s) = n;
  I_tc : tc s = cnt live (w s);
  I_f : tc s <= f;
  I_go : d s <> DGo;
  I_md : mtx s = ByD <-> dholds (d s) = true;
  I_mw : forall i, mtx s = ByW i <-> exists x, nth_error (w s) i = Some x /\ wholds x = true;
  I_hi : forall j, (idx s + bump (d s) <= j)%nat -> (j < n)%nat -> nth_error (w s) j = Some WNone;
  I_lo : forall j, (j < idx s + bump (d s))%nat -> nth_error (w s) j <> Some WNone;
  I_lt : inloop (d s) = true -> (idx s < n)%nat;
  I_ge : inloop (d s) = false -> idx s = n;
  I_wait : d s = DWait -> f <= tc s;
  I_fwait : d s = FWait -> 0 < tc s;
  I_done : d s = DDone \/ d s = DExited -> tc s = 0 /\ mtx s = Free
}.

Lemma init_inv : (0 < n)%nat -> 1 <= f -> Inv (init n).
Proof.
  intros Hn Hf. constructor; cbn [init idx tc mtx d w bump inloop dholds].
  - apply repeat_length.
  - rewrite cnt_repeat_false; reflexivity.
  - lia.
  - discriminate.
  - split; discriminate.
  - intros i; split; [discriminate|]. intros (x & Hx & Hw).
    apply nth_error_In, repeat_spec in Hx; subst; discriminate.
  - intros j _ Hj. rewrite nth_error_repeat; auto.
  - intros j Hj. lia.
  - auto.
  - discriminate.
  - discriminate.
  - discriminate.
  - intros [H|H]; discriminate.
Qed.

Lemma hi_upd l i x y k : nth_error l i = Some x -> x <> WNone ->
  (forall j, (k <= j)%nat -> (j < n)%nat -> nth_error l j = Some WNone) ->
  forall j, (k <= j)%nat -> (j < n)%nat -> nth_error (upd l i y) j = Some WNone.
Proof.
  intros Hi Hx H j Hj Hjn. destruct (Nat.eq_dec i j) as [<-|Hne].
  - rewrite (H i Hj Hjn) in Hi. congruence.
  - rewrite nth_upd_other by auto. auto.
Qed.
Lemma lo_upd l i y k : y <> WNone ->
  (forall j, (j < k)%nat -> nth_error l j <> Some WNone) ->
  forall j, (j < k)%nat -> nth_error (upd l i y) j <> Some WNone.
Proof.
  intros Hy H j Hj Hc. apply nth_upd_inv in Hc. destruct Hc as [[_ Hc]|[_ Hc]]; [congruence|].
  exact (H j Hj Hc).
Qed.
Lemma mw_upd l i x y m : nth_error l i = Some x -> wholds x = wholds y ->
  (forall j, m = ByW j <-> exists z, nth_error l j = Some z /\ wholds z = true) ->
  forall j, m = ByW j <-> exists z, nth_error (upd l i y) j = Some z /\ wholds z = true.
Proof.
  intros Hi Hxy H j. rewrite H. assert (Hil : (i < length l)%nat) by (apply nth_error_Some; congruence).
  destruct (Nat.eq_dec i j) as [<-|Hne].
  - rewrite nth_upd_same by auto. rewrite Hi. split; intros (z & Hz & Hw); inversion Hz; subst; eexists; split; eauto; congruence.
  - rewrite nth_upd_other by auto. tauto.
Qed.
Lemma mw_same l (m m' : owner) : (forall j, m <> ByW j) -> (forall j, m' <> ByW j) ->
  (forall j, m = ByW j <-> exists z, nth_error l j = Some z /\ wholds z = true) ->
  forall j, m' = ByW j <-> exists z, nth_error l j = Some z /\ wholds z = true.
Proof.
  intros Hm Hm' H j. rewrite <- H. split; intros Hx; exfalso; [eapply Hm'|eapply Hm]; eauto.
Qed.

Lemma wake_dholds x : dholds (wake x) = dholds x. Proof. destruct x; reflexivity. Qed.
Lemma wake_inloop x : inloop (wake x) = inloop x. Proof. destruct x; reflexivity. Qed.
Lemma wake_bump x : bump (wake x) = bump x. Proof. destruct x; reflexivity. Qed.

Lemma Step_inv s e s' : 1 <= f -> Inv s -> Step s e s' -> Inv s'.
Proof.
  intros Hf [Hlen Htc Hfb Hgo Hmd Hmw Hhi Hlo Hlt Hge Hwt Hfw Hdn] HS.
  pose proof (cnt_nonneg live (w s)) as Hnn.
  destruct HS; constructor; cbn [idx tc mtx d w];
    try match goal with H : d s = _ |- _ => rewrite H in * end;
    cbn [bump inloop dholds wake] in *;
    try (assert (Em : mtx s = ByD) by (apply Hmd; reflexivity));
    try rewrite wake_bump; try rewrite wake_dholds; try rewrite wake_inloop;
    try (exfalso; apply Hgo; reflexivity);
    auto;
    try (rewrite upd_length; assumption);
    try discriminate;
    try (split; intros; (discriminate || reflexivity)); try lia;
    try (intros [?|?]; discriminate); try (intros; discriminate);
    (* mutex / worker agreement, worker list unchanged *)
    try (match goal with |- forall i, ?m = ByW i <-> _ =>
           apply (mw_same _ (mtx s) m);
           [ match goal with E : mtx s = _ |- _ => rewrite E end; discriminate | discriminate | exact Hmw ] end);
    (* worker moves that do not change who holds the mutex *)
    try (eapply mw_upd; [eassumption | reflexivity | exact Hmw]);
    try (eapply hi_upd; [eassumption | discriminate | assumption]);
    try (apply lo_upd; [discriminate | assumption]);
    try (match goal with H : nth_error (w s) _ = Some _ |- _ = cnt live _ =>
           rewrite (cnt_upd _ _ _ _ _ H); cbn [live]; lia end).
  - (* create: threadcount *)
    assert (Hn : nth_error (w s) (idx s) = Some WNone) by (apply Hhi; lia).
    rewrite (cnt_upd _ _ _ _ _ Hn); cbn [live]; lia.
  - assert (Hn : nth_error (w s) (idx s) = Some WNone) by (apply Hhi; lia).
    eapply mw_upd; [exact Hn | reflexivity | exact Hmw].
  - intros j Hj Hjn. rewrite nth_upd_other by lia. apply Hhi; lia.
  - intros j Hj Hc. apply nth_upd_inv in Hc. destruct Hc as [[_ Hc]|[Hne Hc]]; [discriminate|].
    apply (Hlo j); [lia|auto].
  - (* unlock after create *) destruct (S (idx s) <? n)%nat; discriminate.
  - destruct (S (idx s) <? n)%nat; split; discriminate.
  - intros j Hj Hjn. apply Hhi; auto. destruct (S (idx s) <? n)%nat; cbn [bump] in Hj; lia.
  - intros j Hj. apply Hlo. destruct (S (idx s) <? n)%nat; cbn [bump] in Hj; lia.
  - destruct (S (idx s) <? n)%nat eqn:E; cbn [inloop]; [|discriminate]. intros _. apply Nat.ltb_lt; auto.
  - destruct (S (idx s) <? n)%nat eqn:E; cbn [inloop]; [discriminate|]. intros _. apply Nat.ltb_ge in E. lia.
  - destruct (S (idx s) <? n)%nat; discriminate.
  - destruct (S (idx s) <? n)%nat; discriminate.
  - destruct (S (idx s) <? n)%nat; intros [?|?]; discriminate.
  - (* final unlock *) intros _. split; [lia|reflexivity].
  - (* worker lock *) split; [discriminate|]. intros Hd. apply Hmd in Hd. congruence.
  - intros j. assert (Hil : (i < length (w s))%nat) by (apply nth_error_Some; congruence).
    destruct (Nat.eq_dec i j) as [<-|Hne].
    + rewrite nth_upd_same by auto. split; [|reflexivity]. intros _. exists WHold. auto.
    + rewrite nth_upd_other by auto. split; [intros Hx; inversion Hx; congruence|].
      intros Hx. apply Hmw in Hx. congruence.
  - intros Hd. pose proof (cnt_ex_pos live _ _ _ H eq_refl). destruct (Hdn Hd). lia.
  - (* signal *) destruct (d s); cbn [wake]; congruence.
  - destruct (d s); cbn [wake]; discriminate.
  - destruct (d s); cbn [wake]; discriminate.
  - intros Hd. assert (Hd' : d s = DDone \/ d s = DExited).
    { destruct (d s); cbn [wake] in Hd; destruct Hd; try discriminate; auto. }
    destruct (Hdn Hd') as [_ Hm]. assert (mtx s = ByW i) by (apply Hmw; exists WHold; auto). congruence.
  - (* worker unlock *) assert (Hm : mtx s = ByW i) by (apply Hmw; exists WSig; auto).
    split; [discriminate|]. intros Hd. apply Hmd in Hd. congruence.
  - assert (Hm : mtx s = ByW i) by (apply Hmw; exists WSig; auto).
    intros j. split; [discriminate|]. intros (x & Hx & Hw). exfalso.
    apply nth_upd_inv in Hx. destruct Hx as [[_ Hx]|[Hne Hx]]; [subst; discriminate|].
    assert (mtx s = ByW j) by (apply Hmw; exists x; auto). congruence.
  - intros Hd. destruct (Hdn Hd). auto.
Qed.



(* ---------------------------------------------------------------------------------------- *)
(* runs *)

Lemma run_app (s : st) a b :
  run n f true s (a ++ b) = match run n f true s a with Some s' => run n f true s' b | None => None end.
Proof.
  revert s. induction a as [|e a IH]; intros s; cbn [app run]; [reflexivity|].
  destruct (step n f true s e); auto.
Qed.
Lemma run_snoc (s : st) es e :
  run n f true s (es ++ [e]) = match run n f true s es with Some s' => step n f true s' e | None => None end.
Proof.
  rewrite run_app. destruct (run n f true s es); auto. cbn [run]. destruct (step n f true s0 e); auto.
Qed.

(* induction over the runs from a state: the property may talk about the events so far *)
Lemma run_ind (P : list ev -> st -> Prop) s0 :
  P [] s0 ->
  (forall es s e s', run n f true s0 es = Some s -> P es s -> Step s e s' -> P (es ++ [e]) s') ->
  forall es s, run n f true s0 es = Some s -> P es s.
Proof.
  intros H0 HS es. induction es as [|e es IH] using rev_ind; intros s Hr.
  - cbn [run] in Hr. inversion Hr; subst; auto.
  - rewrite run_snoc in Hr. destruct (run n f true s0 es) as [s1|] eqn:E; [|discriminate].
    eapply HS; eauto. apply step_Step; auto.
Qed.

Lemma reach_inv es s : (0 < n)%nat -> 1 <= f -> run n f true (init n) es = Some s -> Inv s.
Proof.
  intros Hn Hf. revert es s. apply run_ind.
  - apply init_inv; auto.
  - intros es s e s' _ HI HS. eapply Step_inv; eauto.
Qed.

(* ---------------------------------------------------------------------------------------- *)
(* C04: the bound *)

Lemma inv_bound s : Inv s -> inflight s <= started s /\ started s <= f /\ 0 <= tc s <= f.
Proof.
  intros HI. destruct HI as [_ Htc Hfb _ _ _ _ _ _ _ _ _ _].
  pose proof (cnt_nonneg live (w s)).
  assert (inflight s <= started s).
  { apply cnt_le. intros [] Hx; cbn in *; congruence. }
  assert (started s <= cnt live (w s)).
  { apply cnt_le. intros [] Hx; cbn in *; congruence. }
  lia.
Qed.

Lemma fanout_bound_ es s : (0 < n)%nat -> 1 <= f ->
  run n f true (init n) es = Some s -> inflight s <= started s /\ started s <= f /\ 0 <= tc s <= f.
Proof. intros Hn Hf Hr. apply inv_bound. eapply reach_inv; eauto. Qed.

(* ---------------------------------------------------------------------------------------- *)
(* C03: deadlock freedom *)

Lemma holder_can_move s i x : nth_error (w s) i = Some x -> wholds x = true ->
  exists e s', e <> ESpur /\ step n f true s e = Some s'.
Proof.
  intros Hx Hw. destruct x; try discriminate.
  - exists (ESignal i). eexists. split; [discriminate|]. apply Step_step. constructor; auto.
  - exists (EUnlockW i). eexists. split; [discriminate|]. apply Step_step. constructor; auto.
Qed.

Lemma live_can_move s : Inv s -> mtx s = Free -> 0 < tc s ->
  exists e s', e <> ESpur /\ step n f true s e = Some s'.
Proof.
  intros HI Hm Ht. rewrite (I_tc _ HI) in Ht. apply cnt_pos_ex in Ht. destruct Ht as (i & x & Hi & Hx).
  destruct x; try discriminate.
  - exists (EConn i). eexists. split; [discriminate|]. apply Step_step. constructor; auto.
  - exists (EDestroy i). eexists. split; [discriminate|]. apply Step_step. constructor; auto.
  - exists (ELockW i). eexists. split; [discriminate|]. apply Step_step. constructor; auto.
  - assert (mtx s = ByW i) by (apply (I_mw _ HI); exists WHold; auto). congruence.
Qed.

Lemma inv_can_move s : 1 <= f -> Inv s -> d s <> DExited ->
  exists e s', e <> ESpur /\ step n f true s e = Some s'.
Proof.
  intros Hf HI Hx. destruct (mtx s) eqn:Em.
  - (* free *)
    assert (Hnh : dholds (d s) = false).
    { destruct (dholds (d s)) eqn:E; auto. apply (I_md _ HI) in E. congruence. }
    destruct (d s) eqn:Ed; try discriminate.
    + exists ELockD. eexists. split; [discriminate|]. apply Step_step. apply SLockD1; auto.
    + apply live_can_move; auto. pose proof (I_wait _ HI Ed). lia.
    + exists EWokenD. eexists. split; [discriminate|]. apply Step_step. apply SWoken1; auto.
    + exists ELockD. eexists. split; [discriminate|]. apply Step_step. apply SLockD2; auto.
    + apply live_can_move; auto. apply (I_fwait _ HI Ed).
    + exists EWokenD. eexists. split; [discriminate|]. apply Step_step. apply SWoken2; auto.
    + exists EExit. eexists. split; [discriminate|]. apply Step_step. apply SExit; auto.
    + congruence.
  - (* held by the dispatcher *)
    assert (Hh : dholds (d s) = true) by (apply (I_md _ HI); auto).
    destruct (d s) eqn:Ed; try discriminate.
    + destruct (Z_le_gt_dec f (tc s)).
      * exists EWaitD. eexists. split; [discriminate|]. apply Step_step. apply SWait1; auto.
      * exists (ECreate (idx s)). eexists. split; [discriminate|]. apply Step_step. apply SCreate; auto; try lia.
        apply (I_lt _ HI). rewrite Ed. reflexivity.
    + exfalso. apply (I_go _ HI); auto.
    + exists EUnlockD. eexists. split; [discriminate|]. apply Step_step. apply SUnlock1; auto.
    + destruct (Z_lt_le_dec 0 (tc s)).
      * exists EWaitD. eexists. split; [discriminate|]. apply Step_step. apply SWait2; auto.
      * exists EUnlockD. eexists. split; [discriminate|]. apply Step_step. apply SUnlock2; auto.
  - (* held by a worker *)
    destruct (proj1 (I_mw _ HI i) Em) as (x & Hi & Hw). eapply holder_can_move; eauto.
Qed.

Lemma deadlock_free_ es s : (0 < n)%nat -> 1 <= f ->
  run n f true (init n) es = Some s -> d s <> DExited ->
  exists e s', e <> ESpur /\ step n f true s e = Some s'.
Proof. intros Hn Hf Hr. apply inv_can_move; auto. eapply reach_inv; eauto. Qed.


(* ---------------------------------------------------------------------------------------- *)
(* C03: what has happened so far, read off the worker slots *)

Definition c_create (x : wpc) : nat := match x with WNone => 0 | _ => 1 end.
Definition c_conn (x : wpc) : nat := match x with WNone | WStart => 0 | _ => 1 end.
Definition c_destroy (x : wpc) : nat := match x with WNone | WStart | WConn => 0 | _ => 1 end.

Record HInv (es : list ev) (s : st) : Prop := {
  H_cr : forall i, nev (ev_create i) es = c_create (nth i (w s) WNone);
  H_co : forall i, nev (ev_conn i) es = c_conn (nth i (w s) WNone);
  H_de : forall i, nev (ev_destroy i) es = c_destroy (nth i (w s) WNone);
  H_ex : In EExit es -> d s = DExited
}.

Lemma init_hinv : HInv [] (init n).
Proof.
  assert (H : forall i, nth i (repeat WNone n) WNone = WNone).
  { intros i. destruct (nth_in_or_default i (repeat WNone n) WNone) as [Hi|Hi]; auto.
    apply repeat_spec in Hi. auto. }
  constructor; cbn [init w d]; try (intros i; rewrite H; reflexivity). intros [].
Qed.

Lemma Step_hinv es s e s' : Inv s -> HInv es s -> Step s e s' -> HInv (es ++ [e]) s'.
Proof.
  intros HI [Hcr Hco Hde Hex] HS.
  assert (Hn : d s = DCheck -> nth_error (w s) (idx s) = Some WNone).
  { intros Ed. apply (I_hi _ HI). rewrite Ed; cbn [bump]; lia. apply (I_lt _ HI). rewrite Ed; reflexivity. }
  assert (Hex' : In EExit (es ++ [e]) -> d s' = DExited).
  { intros Hin. apply in_app_or in Hin. destruct Hin as [Hin|[Hin|[]]].
    - specialize (Hex Hin). destruct HS; cbn [d]; try congruence. rewrite Hex. reflexivity.
    - subst e. inversion HS; subst. reflexivity. }
  destruct HS; constructor; try exact Hex'; clear Hex'; cbn [idx tc mtx d w]; intros k; rewrite nev_snoc;
    cbn [ev_create ev_conn ev_destroy];
    try (rewrite Nat.add_0_r; auto; fail);
    try (exfalso; apply (I_go _ HI); assumption);
    try specialize (Hn ltac:(assumption));
    match goal with H : nth_error (w s) ?i = Some ?x |- _ =>
      rewrite (nth_upd _ _ _ _ _ H); pose proof (nth_error_nth _ _ WNone H) as Hx;
      destruct (Nat.eqb k i) eqn:E;
      [ apply Nat.eqb_eq in E; subst k; first [rewrite Hcr | rewrite Hco | rewrite Hde]; rewrite Hx; reflexivity
      | rewrite Nat.add_0_r; auto ]
    end.
Qed.

Lemma reach_hinv es s : (0 < n)%nat -> 1 <= f -> run n f true (init n) es = Some s -> HInv es s.
Proof.
  intros Hn Hf. revert es s. apply run_ind.
  - apply init_hinv.
  - intros es s e s' Hr HH HS. eapply Step_hinv; eauto. eapply reach_inv; eauto.
Qed.

Lemma started_at_most_once_ es s i : (0 < n)%nat -> 1 <= f ->
  run n f true (init n) es = Some s ->
  (nev (ev_create i) es <= 1)%nat /\ (nev (ev_conn i) es <= nev (ev_create i) es)%nat /\
  (nev (ev_destroy i) es <= nev (ev_conn i) es)%nat /\ (nev (ev_create i) es = 1%nat -> (i < n)%nat).
Proof.
  intros Hn Hf Hr. destruct (reach_hinv _ _ Hn Hf Hr) as [Hcr Hco Hde _].
  pose proof (reach_inv _ _ Hn Hf Hr) as HI.
  rewrite Hcr, Hco, Hde. repeat split; try (destruct (nth i (w s) WNone); cbn; lia).
  intros H1. destruct (Nat.lt_ge_cases i n) as [|Hge]; auto.
  rewrite nth_overflow in H1 by (rewrite (I_len _ HI); auto). discriminate.
Qed.

(* when the dispatcher is past its last unlock every slot has run to completion *)
Lemma done_all_exited s i : Inv s -> d s = DDone \/ d s = DExited -> (i < n)%nat ->
  nth_error (w s) i = Some WExit.
Proof.
  intros HI Hd Hi. destruct (I_done _ HI Hd) as [Ht Hm].
  assert (Hidx : idx s = n) by (apply (I_ge _ HI); destruct Hd as [-> | ->]; reflexivity).
  destruct (nth_error (w s) i) as [x|] eqn:En.
  - assert (Hl : live x = false).
    { destruct (live x) eqn:E; auto. pose proof (cnt_ex_pos live _ _ _ En E). rewrite <- (I_tc _ HI) in H. lia. }
    assert (Hh : wholds x = false).
    { destruct (wholds x) eqn:E; auto. assert (mtx s = ByW i) by (apply (I_mw _ HI); exists x; auto). congruence. }
    assert (Hnn : x <> WNone).
    { intros ->. apply (I_lo _ HI i); auto. lia. }
    destruct x; try discriminate; congruence.
  - apply nth_error_None in En. rewrite (I_len _ HI) in En. lia.
Qed.

Lemma exit_after_all_ es s : (0 < n)%nat -> 1 <= f ->
  run n f true (init n) es = Some s -> In EExit es ->
  tc s = 0 /\ forall i, (i < n)%nat ->
    nth_error (w s) i = Some WExit /\ nev (ev_create i) es = 1%nat /\
    nev (ev_conn i) es = 1%nat /\ nev (ev_destroy i) es = 1%nat.
Proof.
  intros Hn Hf Hr Hin. destruct (reach_hinv _ _ Hn Hf Hr) as [Hcr Hco Hde Hex].
  pose proof (reach_inv _ _ Hn Hf Hr) as HI. specialize (Hex Hin).
  split; [apply (I_done _ HI); auto|].
  intros i Hi. assert (He : nth_error (w s) i = Some WExit) by (apply done_all_exited; auto).
  split; auto. rewrite Hcr, Hco, Hde. rewrite (nth_error_nth _ _ WNone He). auto.
Qed.


(* ---------------------------------------------------------------------------------------- *)
(* C03: termination - a potential that every step but a spurious wake-up decreases *)

Definition dpot (x : dpc) (k : nat) : Z :=
  let r := Z.of_nat n - Z.of_nat k in
  match x with
  | DLock => 3 * r + 3 | DCheck => 3 * r + 2 | DGo => 3 * r + 2 | DUnlock => 3 * r + 1
  | DWait => 3 * r + 1 | DWoken => 3 * r + 3
  | FLock => 3 | FCheck => 2 | FWait => 1 | FWoken => 3 | DDone => 1 | DExited => 0
  end.
Definition pot (s : st) : Z := dpot (d s) (idx s) + sumw (w s).

Lemma Step_pot s e s' : Inv s -> Step s e s' ->
  pot s' + 1 <= pot s + (match e with ESpur => 3 | _ => 0 end).
Proof.
  intros HI HS. unfold pot.
  assert (Hn : d s = DCheck -> nth_error (w s) (idx s) = Some WNone).
  { intros Ed. apply (I_hi _ HI). rewrite Ed; cbn [bump]; lia. apply (I_lt _ HI). rewrite Ed; reflexivity. }
  pose proof (I_lt _ HI) as Hlt.
  destruct HS; cbn [idx tc mtx d w];
    try (exfalso; apply (I_go _ HI); assumption);
    try specialize (Hn ltac:(assumption));
    try match goal with H : nth_error (w s) _ = Some _ |- _ => rewrite (sumw_upd _ _ _ _ H); cbn [wgt] end;
    try match goal with H : d s = _ |- _ => rewrite H in * end;
    cbn [dpot inloop] in *; try lia.
  - (* unlock after create *) specialize (Hlt eq_refl).
    destruct (S (idx s) <? n)%nat; cbn [dpot]; lia.
  - (* signal *) destruct (d s); cbn [wake dpot]; lia.
Qed.

Lemma pot_nonneg s : Inv s -> 0 <= pot s.
Proof.
  intros HI. unfold pot. pose proof (sumw_nonneg (w s)).
  pose proof (I_lt _ HI) as Hlt. pose proof (I_ge _ HI) as Hge.
  destruct (d s); cbn [dpot inloop] in *; try lia; specialize (Hlt eq_refl); lia.
Qed.

Lemma run_pot es s : (0 < n)%nat -> 1 <= f -> run n f true (init n) es = Some s ->
  Z.of_nat (length es) + pot s <= 10 * Z.of_nat n + 3 + 3 * Z.of_nat (count_spur es).
Proof.
  intros Hn Hf. revert es s. apply run_ind.
  - unfold pot. cbn [init d idx w dpot length count_spur filter]. rewrite sumw_repeat. cbn [wgt]. lia.
  - intros es s e s' Hr IH HS. pose proof (Step_pot _ _ _ (reach_inv _ _ Hn Hf Hr) HS) as Hp.
    rewrite app_length. unfold count_spur in *. rewrite filter_app, app_length. cbn [length filter].
    destruct e; cbn [length]; lia.
Qed.

Lemma run_length_tight es s : (0 < n)%nat -> 1 <= f -> run n f true (init n) es = Some s ->
  (length es <= 10 * n + 3 + 3 * count_spur es)%nat.
Proof.
  intros Hn Hf Hr. pose proof (run_pot _ _ Hn Hf Hr). pose proof (pot_nonneg _ (reach_inv _ _ Hn Hf Hr)). lia.
Qed.

Lemma run_length_bound_ es s : (0 < n)%nat -> 1 <= f -> run n f true (init n) es = Some s ->
  (length es <= 12 * n + 8 + 3 * count_spur es)%nat.
Proof. intros Hn Hf Hr. pose proof (run_length_tight _ _ Hn Hf Hr). lia. Qed.


(* ---------------------------------------------------------------------------------------- *)
(* C04: progress - drain the worker epilogues, then the dispatcher finds room *)

Definition noext (es : list ev) : Prop := forallb (fun e => negb (is_external e)) es = true.
Definition dfree (x : dpc) : bool := match x with DLock | DWait | DWoken => true | _ => false end.
Definition startedp (x : wpc) : bool := wpc_eqb x WStart || wpc_eqb x WConn.

Lemma wake_dfree x : dfree (wake x) = dfree x. Proof. destruct x; reflexivity. Qed.

Lemma drain k : forall s, sume (w s) <= Z.of_nat k -> 1 <= f -> Inv s -> dfree (d s) = true ->
  exists es s', noext es /\ run n f true s es = Some s' /\ Inv s' /\ idx s' = idx s /\
    started s' = started s /\ dfree (d s') = true /\ sume (w s') = 0 /\ mtx s' = Free.
Proof.
  induction k as [|k IH]; intros s Hm Hf HI Hd; pose proof (sume_nonneg (w s)) as Hnn.
  - assert (Hz : sume (w s) = 0) by lia.
    exists [], s. split; [reflexivity|]. do 6 (split; [auto|]).
    destruct (mtx s) eqn:Em; auto.
    + apply (I_md _ HI) in Em. destruct (d s); discriminate.
    + apply (I_mw _ HI) in Em. destruct Em as (x & Hx & Hw).
      pose proof (sume_ge _ _ _ Hx). destruct x; cbn [wgt2] in *; try discriminate; lia.
  - destruct (Z_le_gt_dec (sume (w s)) (Z.of_nat k)) as [Hle|Hgt]; [apply IH; auto|].
    assert (Hstep : forall e s1, Step s e s1 -> is_external e = false -> idx s1 = idx s ->
              started s1 = started s -> dfree (d s1) = true -> sume (w s1) <= Z.of_nat k ->
              exists es s', noext es /\ run n f true s es = Some s' /\ Inv s' /\ idx s' = idx s /\
                started s' = started s /\ dfree (d s') = true /\ sume (w s') = 0 /\ mtx s' = Free).
    { intros e s1 HS He Hi Hst Hd1 Hm1.
      destruct (IH s1 Hm1 Hf (Step_inv _ _ _ Hf HI HS) Hd1) as (es & s' & Hne & Hr & HI' & Hi' & Hst' & Hd' & Hz & Hfree).
      exists (e :: es), s'. split; [|split; [|do 5 (split; [auto; congruence|]); auto]].
      - unfold noext in *. cbn [forallb]. rewrite He, Hne. reflexivity.
      - cbn [run]. rewrite (Step_step _ _ _ HS). auto. }
    destruct (mtx s) eqn:Em.
    + (* free: some worker is waiting for the mutex *)
      destruct (sume_pos_ex (w s)) as (i & x & Hx & Hw); [lia|].
      assert (Hnh : wholds x = false).
      { destruct (wholds x) eqn:E; auto. assert (mtx s = ByW i) by (apply (I_mw _ HI); exists x; auto). congruence. }
      destruct x; cbn [wgt2 wholds] in *; try lia; try discriminate.
      apply (Hstep (ELockW i) _ (SLockW _ _ Hx Em)); cbn [idx d w]; auto.
      * unfold started; cbn [w]. rewrite (cnt_upd _ _ _ _ _ Hx). cbn. lia.
      * rewrite (sume_upd _ _ _ _ Hx). cbn [wgt2]. lia.
    + apply (I_md _ HI) in Em. destruct (d s); discriminate.
    + (* a worker holds the mutex: let it finish *)
      apply (I_mw _ HI) in Em. destruct Em as (x & Hx & Hw). destruct x; try discriminate.
      * apply (Hstep (ESignal i) _ (SSignal _ _ Hx)); cbn [idx d w]; auto.
        -- unfold started; cbn [w]. rewrite (cnt_upd _ _ _ _ _ Hx). cbn. lia.
        -- rewrite wake_dfree; auto.
        -- rewrite (sume_upd _ _ _ _ Hx). cbn [wgt2]. lia.
      * apply (Hstep (EUnlockW i) _ (SUnlockW _ _ Hx)); cbn [idx d w]; auto.
        -- unfold started; cbn [w]. rewrite (cnt_upd _ _ _ _ _ Hx). cbn. lia.
        -- rewrite (sume_upd _ _ _ _ Hx). cbn [wgt2]. lia.
Qed.

Lemma progress_free s : 1 <= f -> Inv s -> dfree (d s) = true -> started s < f -> (idx s < n)%nat ->
  exists es', noext es' /\ exists s', run n f true s (es' ++ [ECreate (idx s)]) = Some s'.
Proof.
  intros Hf HI Hd Hst Hi.
  destruct (drain (Z.to_nat (sume (w s))) s) as (es & s1 & Hne & Hr & HI1 & Hi1 & Hst1 & Hd1 & Hz & Hfree); auto.
  { pose proof (sume_nonneg (w s)). lia. }
  assert (Htc : tc s1 < f).
  { rewrite (I_tc _ HI1). pose proof (sume_zero_live _ Hz) as Hl. change (cnt live (w s1) = started s1) in Hl. lia. }
  assert (Hcr : forall e s2, Step s1 e s2 -> is_external e = false -> d s2 = DCheck -> idx s2 = idx s1 ->
            tc s2 = tc s1 ->
            exists es', noext es' /\ exists s', run n f true s (es' ++ [ECreate (idx s)]) = Some s').
  { intros e s2 HS He Hd2 Hi2 Ht2. exists (es ++ [e]). split.
    - unfold noext in *. rewrite forallb_app, Hne. cbn [forallb]. rewrite He. reflexivity.
    - eexists. rewrite !run_app, Hr. cbn [run]. rewrite (Step_step _ _ _ HS).
      rewrite <- Hi1, <- Hi2.
      rewrite (Step_step _ _ _ (SCreate s2 Hd2 ltac:(lia) ltac:(lia))). reflexivity. }
  destruct (d s1) eqn:Ed; try discriminate.
  - apply (Hcr ELockD _ (SLockD1 _ Hfree Ed)); auto.
  - pose proof (I_wait _ HI1 Ed). lia.
  - apply (Hcr EWokenD _ (SWoken1 _ Hfree Ed)); auto.
Qed.

Lemma fanout_progress_ es s : (0 < n)%nat -> 1 <= f ->
  run n f true (init n) es = Some s -> started s < f -> (idx s < n)%nat -> d s <> DUnlock ->
  exists es', forallb (fun e => negb (is_external e)) es' = true /\
              exists s', run n f true s (es' ++ [ECreate (idx s)]) = Some s'.
Proof.
  intros Hn Hf Hr Hst Hi Hd. pose proof (reach_inv _ _ Hn Hf Hr) as HI.
  assert (Hl : inloop (d s) = true).
  { destruct (inloop (d s)) eqn:E; auto. apply (I_ge _ HI) in E. lia. }
  destruct (d s) eqn:Ed; try discriminate; try congruence;
    try (apply progress_free; auto; rewrite Ed; reflexivity).
  - (* at the room check *)
    destruct (Z_le_gt_dec f (tc s)) as [Hle|Hgt].
    + pose proof (SWait1 s Ed Hle) as HS.
      destruct (progress_free _ Hf (Step_inv _ _ _ Hf HI HS)) as (es' & Hne & s' & Hr'); auto.
      exists (EWaitD :: es'). split.
      * cbn [forallb is_external negb andb]. exact Hne.
      * exists s'. cbn [app run]. rewrite (Step_step _ _ _ HS). exact Hr'.
    + exists []. split; [reflexivity|]. eexists. cbn [app run].
      rewrite (Step_step _ _ _ (SCreate s Ed ltac:(lia) Hi)). reflexivity.
  - exfalso. apply (I_go _ HI); auto.
Qed.

End P.

(* ---------------------------------------------------------------------------------------- *)
(* the statements of Props/Properties_C04.v and Props/Properties_C03.v *)

Theorem fanout_bound : forall (n : nat) (f : Z) es s, (0 < n)%nat -> 1 <= f ->
  run n f true (init n) es = Some s -> inflight s <= started s /\ started s <= f /\ 0 <= tc s <= f.
Proof. exact fanout_bound_. Qed.

Theorem fanout_if_refuted : exists es s, run 3 1 false (init 3) es = Some s /\ inflight s = 2.
Proof.
  exists [ELockD; ECreate 0; EUnlockD; EConn 0; ELockD; EWaitD; ESpur; EWokenD; ECreate 1; EUnlockD; EConn 1]%nat.
  eexists. split; vm_compute; reflexivity.
Qed.

Theorem deadlock_free : forall (n : nat) (f : Z) es s, (0 < n)%nat -> 1 <= f ->
  run n f true (init n) es = Some s -> d s <> DExited ->
  exists e s', e <> ESpur /\ step n f true s e = Some s'.
Proof. exact deadlock_free_. Qed.

Theorem fanout0_parks : forall (n : nat), (0 < n)%nat ->
  exists s, run n 0 true (init n) [ELockD; EWaitD] = Some s /\
            forall e s', step n 0 true s e = Some s' -> e = ESpur.
Proof.
  intros n Hn. exists (mkst 0 0 Free DWait (repeat WNone n)). split; [reflexivity|].
  intros e s' H. apply step_Step in H.
  assert (Hw : forall i x, nth_error (repeat WNone n) i = Some x -> x = WNone).
  { intros i x Hx. apply nth_error_In, repeat_spec in Hx. auto. }
  inversion H; subst; cbn [d w] in *; try discriminate; auto;
    match goal with H : nth_error _ _ = Some _ |- _ => apply Hw in H; discriminate end.
Qed.

Theorem started_at_most_once : forall (n : nat) (f : Z) es s i, (0 < n)%nat -> 1 <= f ->
  run n f true (init n) es = Some s ->
  (nev (ev_create i) es <= 1)%nat /\ (nev (ev_conn i) es <= nev (ev_create i) es)%nat /\
  (nev (ev_destroy i) es <= nev (ev_conn i) es)%nat /\ (nev (ev_create i) es = 1%nat -> (i < n)%nat).
Proof. exact started_at_most_once_. Qed.

Theorem exit_after_all : forall (n : nat) (f : Z) es s, (0 < n)%nat -> 1 <= f ->
  run n f true (init n) es = Some s -> In EExit es ->
  tc s = 0 /\ forall i, (i < n)%nat ->
    nth_error (w s) i = Some WExit /\ nev (ev_create i) es = 1%nat /\
    nev (ev_conn i) es = 1%nat /\ nev (ev_destroy i) es = 1%nat.
Proof. exact exit_after_all_. Qed.

(* the bound 10 n + 3 + 3 * spurious of run_length_tight is attained *)
Example run_length_tight_attained : exists s,
  run 1 1 true (init 1) [ELockD; ECreate 0; EUnlockD; ELockD; EWaitD; EConn 0; EDestroy 0; ELockW 0;
                          ESignal 0; EUnlockW 0; EWokenD; EUnlockD; EExit]%nat = Some s /\ d s = DExited.
Proof. eexists. vm_compute. split; reflexivity. Qed.

Theorem run_length_bound : forall (n : nat) (f : Z) es s, (0 < n)%nat -> 1 <= f ->
  run n f true (init n) es = Some s -> (length es <= 12 * n + 8 + 3 * count_spur es)%nat.
Proof. exact run_length_bound_. Qed.

Theorem fanout_progress : forall (n : nat) (f : Z) es s, (0 < n)%nat -> 1 <= f ->
  run n f true (init n) es = Some s -> started s < f -> (idx s < n)%nat -> d s <> DUnlock ->
  exists es', forallb (fun e => negb (is_external e)) es' = true /\
              exists s', run n f true s (es' ++ [ECreate (idx s)]) = Some s'.
Proof. exact fanout_progress_. Qed.
