(* C05/C06: the domain of the statements - the descriptor script seen by one stream, the
   bytes the remote wrote before end of file, and the inputs the properties quantify over.
   Definitions only (shared by Props/Properties_C05.v, Properties_C06.v and Dsh/OutputFacts.v). *)
From PV Require Export Cbuf.CbufDefs Cbuf.CbufFd Dsh.Output Dsh.OutputSpec.
Local Open Scope N_scope.

(* the descriptor script: what read(2) finds, up to end of file *)
Fixpoint before_eof (s : list fdev) : list fdev :=
  match s with [] => [] | Eof :: _ => [] | x :: r => x :: before_eof r end.
Definition script_ok (s : list fdev) : Prop := Forall (fun e => e <> Avail []) (before_eof s).
Definition stream_of (s : list fdev) : bytes := script_bytes (before_eof s).

(* the property's domain: text free of NUL, no line longer than 128 KiB including its
   newline, and (on stdout with -S/-k) free of the reserved marker *)
Definition in_domain (x : octx) (st : bytes) : Prop :=
  ~ In 0 st /\ Forall (line_ok CBUF_MAXSIZE) (fst (split_lines st)) /\ line_ok (CBUF_MAXSIZE - 1) (snd (split_lines st)) /\
  (read_rc x = true -> find_sub RC_MAGIC st = None).

(* the same with an unterminated rest of up to exactly 128 KiB (the code copes with that too:
   a buffer that is full at its maximum size then only meets end of file) *)
Definition in_domain_wide (x : octx) (st : bytes) : Prop :=
  ~ In 0 st /\ Forall (line_ok CBUF_MAXSIZE) (fst (split_lines st)) /\ line_ok CBUF_MAXSIZE (snd (split_lines st)) /\
  (read_rc x = true -> find_sub RC_MAGIC st = None).

(* the calls are texts, some of them carrying the host's label *)
Definition with_labels (x : octx) (texts : list (bool * bytes)) : list bytes :=
  map (fun bt : bool * bytes => if fst bt then emit x (snd bt) else snd bt) texts.
