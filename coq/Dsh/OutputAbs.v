(* C05/C06 proofs, part 1: list-level facts (lines, chunks, marker search, C strings) and
   the steps of the output path lifted to the abstract FIFO `abs c`. *)
From PV Require Import Cbuf.CbufDefs Cbuf.CbufSpec Cbuf.CbufFacts Dsh.Output Dsh.OutputSpec Dsh.OutputDomain.
Local Open Scope N_scope.

(* ---------- lines ---------- *)
Definition nonl (s : bytes) : Prop := ~ In 10 s.

(* split_lines without accumulator *)
Fixpoint sl (s : bytes) : list bytes * bytes :=
  match s with
  | [] => ([], [])
  | b :: r => let '(ls, t) := sl r in
              if b =? 10 then ([10] :: ls, t)
              else match ls with [] => ([], b :: t) | l :: ls' => ((b :: l) :: ls', t) end
  end.

Lemma split_lines_acc_sl s : forall cur,
  split_lines_acc s cur =
  match fst (sl s) with
  | [] => ([], rev cur ++ snd (sl s))
  | l :: ls' => ((rev cur ++ l) :: ls', snd (sl s))
  end.
Proof.
  induction s as [|b r IH]; intros cur; cbn [split_lines_acc sl].
  - cbn [fst snd]. rewrite app_nil_r. reflexivity.
  - destruct (b =? 10) eqn:E.
    + rewrite (IH []). destruct (sl r) as [ls t]. cbn [fst snd rev app].
      apply N.eqb_eq in E. subst b. destruct ls; reflexivity.
    + rewrite (IH (b :: cur)). destruct (sl r) as [ls t]. cbn [fst snd rev].
      destruct ls; cbn [fst snd]; rewrite <- app_assoc; reflexivity.
Qed.

Lemma split_lines_sl s : split_lines s = sl s.
Proof.
  unfold split_lines. rewrite split_lines_acc_sl. destruct (sl s) as [[|l ls] t]; reflexivity.
Qed.

Lemma sl_nonl t : nonl t -> sl t = ([], t).
Proof.
  unfold nonl. induction t as [|b r IH]; intros H; cbn [sl]; [reflexivity|].
  rewrite IH by (intro; apply H; right; auto).
  destruct (b =? 10) eqn:E; [|reflexivity]. apply N.eqb_eq in E. subst. exfalso. apply H. left; auto.
Qed.

Lemma sl_app a b : sl (a ++ b) = (fst (sl a) ++ fst (sl (snd (sl a) ++ b)), snd (sl (snd (sl a) ++ b))).
Proof.
  induction a as [|x r IH]; cbn [sl app fst snd].
  - destruct (sl b); reflexivity.
  - rewrite IH. destruct (sl r) as [ls t]. cbn [fst snd].
    destruct (x =? 10) eqn:E; cbn [fst snd app]; [reflexivity|].
    destruct ls as [|l ls0]; cbn [fst snd app sl].
    + rewrite E. destruct (sl (t ++ b)) as [ls' t']. cbn [fst snd]. destruct ls'; reflexivity.
    + reflexivity.
Qed.

Lemma sl_concat s : s = concat (fst (sl s)) ++ snd (sl s).
Proof.
  induction s as [|b r IH]; cbn [sl]; [reflexivity|].
  destruct (sl r) as [ls t]. cbn [fst snd] in IH.
  destruct (b =? 10) eqn:E.
  - apply N.eqb_eq in E. subst b. cbn [fst snd concat app]. congruence.
  - destruct ls as [|l ls0]; cbn [fst snd concat app] in *; [congruence|].
    rewrite IH at 1. rewrite <- app_assoc. reflexivity.
Qed.

Lemma sl_tail_nonl s : nonl (snd (sl s)).
Proof.
  unfold nonl. induction s as [|b r IH]; cbn [sl]; [cbn; tauto|].
  destruct (sl r) as [ls t]. cbn [snd] in IH.
  destruct (b =? 10) eqn:E; [exact IH|].
  destruct ls; cbn [snd]; auto. intros [H|H]; [|auto]. apply N.eqb_neq in E. congruence.
Qed.

(* the first line through the spec function of the buffer (lines_prefix) *)
Lemma sl_first_none f : lines_prefix f 1 = None -> sl f = ([], f).
Proof.
  induction f as [|b r IH]; cbn [lines_prefix sl]; [reflexivity|].
  destruct (b =? 10) eqn:E.
  - rewrite lines_prefix_0. discriminate.
  - destruct (lines_prefix r 1) eqn:E1; [discriminate|]. intros _. rewrite IH by reflexivity. reflexivity.
Qed.

Lemma sl_first_some f : forall n, lines_prefix f 1 = Some n ->
  (0 < n)%nat /\ (n <= length f)%nat /\ sl f = (firstn n f :: fst (sl (skipn n f)), snd (sl (skipn n f))).
Proof.
  induction f as [|b r IH]; cbn [lines_prefix]; [discriminate|]. intros n.
  cbn [sl]. destruct (b =? 10) eqn:E.
  - rewrite lines_prefix_0. intros [= <-]. cbn [firstn skipn length]. apply N.eqb_eq in E. subst b.
    destruct (sl r); cbn [fst snd]. repeat split; lia.
  - destruct (lines_prefix r 1) as [n'|] eqn:E1; [|discriminate]. intros [= <-].
    destruct (IH n' eq_refl) as (A & B & C). rewrite C. cbn [firstn skipn length]. repeat split; lia.
Qed.

(* the limits of the domain, seen from inside the stream: complete lines (newline included) and
   the unterminated rest are at most CBUF_MAXSIZE bytes long *)
Definition lines_ok (st : bytes) : Prop :=
  Forall (line_ok CBUF_MAXSIZE) (fst (sl st)) /\ line_ok CBUF_MAXSIZE (snd (sl st)).

Lemma sl_prefix_len t : forall b, nonl t ->
  match fst (sl (t ++ b)) with
  | [] => snd (sl (t ++ b)) = t ++ b
  | l :: _ => (length t < length l)%nat
  end.
Proof.
  unfold nonl. induction t as [|x r IH]; intros b H; cbn [app sl length].
  - destruct (fst (sl b)) as [|l ?] eqn:E.
    + pose proof (sl_concat b) as C. rewrite E in C. cbn [concat app] in C. auto.
    + destruct b as [|y b']; [discriminate|]. cbn [sl] in E. destruct (sl b') as [ls t].
      destruct (y =? 10); [injection E as <- _; cbn [length]; lia|].
      destruct ls; [discriminate|]. injection E as <- _. cbn [length]. lia.
  - assert (Hr : ~ In 10 r) by (intro; apply H; right; auto).
    specialize (IH b Hr). destruct (sl (r ++ b)) as [ls t]. cbn [fst snd] in IH.
    destruct (x =? 10) eqn:E; [apply N.eqb_eq in E; subst; exfalso; apply H; left; auto|].
    destruct ls; cbn [fst snd length]; [congruence|lia].
Qed.

(* a newline-free prefix of a text within the limits leaves room in the buffer, unless it is
   the whole text (an unterminated rest of exactly CBUF_MAXSIZE bytes with nothing after it) *)
Lemma partial_bound t b : nonl t -> lines_ok (t ++ b) -> N.of_nat (length t) < CBUF_MAXSIZE \/ b = [].
Proof.
  intros Ht [H1 H2]. pose proof (sl_prefix_len t b Ht) as P. unfold line_ok in *.
  destruct (fst (sl (t ++ b))) as [|l ls].
  - rewrite P, app_length in H2. destruct b; [right; reflexivity|left; cbn [length] in H2; lia].
  - left. inversion H1; subst. unfold line_ok in *. lia.
Qed.

Lemma lines_ok_tail a b : lines_ok (a ++ b) -> lines_ok (snd (sl a) ++ b).
Proof.
  unfold lines_ok. rewrite sl_app. cbn [fst snd]. intros [H1 H2]. split; auto.
  apply Forall_app in H1. tauto.
Qed.

(* ---------- chunks ---------- *)
Lemma chunks_f_fuel k : (0 < k)%nat -> forall f1 f2 s, (length s <= f1)%nat -> (length s <= f2)%nat ->
  chunks_f f1 k s = chunks_f f2 k s.
Proof.
  intros Hk. induction f1 as [|f1 IH]; intros f2 s H1 H2.
  - destruct s; [|cbn in H1; lia]. destruct f2; reflexivity.
  - destruct s as [|b r]; [destruct f2; reflexivity|].
    destruct f2 as [|f2]; [cbn in H2; lia|]. cbn [chunks_f]. f_equal.
    apply IH; rewrite skipn_length; cbn [length] in *; lia.
Qed.

Lemma chunks_f_concat k : (0 < k)%nat -> forall f s, (length s <= f)%nat -> concat (chunks_f f k s) = s.
Proof.
  intros Hk. induction f as [|f IH]; intros s H.
  - destruct s; [reflexivity|cbn in H; lia].
  - destruct s as [|b r]; [reflexivity|]. cbn [chunks_f concat].
    rewrite IH by (rewrite skipn_length; cbn [length] in *; lia). apply firstn_skipn.
Qed.

(* ---------- marker search and C strings ---------- *)
Lemma is_prefix_app_l p a b : is_prefix p a = true -> is_prefix p (a ++ b) = true.
Proof.
  rewrite !is_prefix_spec. intros (r & ->). exists (r ++ b). rewrite app_assoc. reflexivity.
Qed.

Lemma find_sub_none_app n a b : find_sub n (a ++ b) = None -> find_sub n a = None /\ find_sub n b = None.
Proof.
  induction a as [|x r IH]; cbn [app].
  - intros H. split; [|exact H]. destruct b as [|y b']; cbn [find_sub] in *.
    + exact H.
    + destruct (is_prefix n []) eqn:E; [|reflexivity].
      apply (is_prefix_app_l _ _ (y :: b')) in E. cbn [app] in E. rewrite E in H. discriminate.
  - cbn [find_sub]. destruct (is_prefix n (x :: r ++ b)) eqn:E; [discriminate|].
    destruct (find_sub n (r ++ b)) eqn:E1; [discriminate|]. intros _.
    destruct (IH eq_refl) as [A B]. split; [|exact B]. rewrite A.
    destruct (is_prefix n (x :: r)) eqn:E2; [|reflexivity].
    apply (is_prefix_app_l _ _ b) in E2. cbn [app] in E2. congruence.
Qed.

Lemma cstr_id s : ~ In 0 s -> cstr s = s.
Proof.
  intros H. unfold cstr. apply take_while_all. apply forallb_forall. intros y Hy.
  destruct (y =? 0) eqn:E; [|reflexivity]. apply N.eqb_eq in E. subst. contradiction.
Qed.

Lemma extract_rc_id s : ~ In 0 s -> find_sub RC_MAGIC s = None -> extract_rc s = (0%Z, s).
Proof. intros H1 H2. unfold extract_rc. rewrite cstr_id by auto. rewrite H2. reflexivity. Qed.
