(* C05/C06 proofs, part 2: each step of the output path (descriptor write, line flush, tail
   flush) characterised on the abstract FIFO `abs c`, under the invariant of the buffer. *)
From PV Require Import Cbuf.CbufDefs Cbuf.CbufSpec Cbuf.CbufFacts Dsh.Output Dsh.OutputSpec Dsh.OutputDomain Dsh.OutputAbs.
Local Open Scope N_scope.

(* ---------- the descriptor script ---------- *)
Lemma stream_of_avail b r : stream_of (Avail b :: r) = b ++ stream_of r.
Proof. reflexivity. Qed.
Lemma stream_of_err r : stream_of (RdErr :: r) = stream_of r.
Proof. reflexivity. Qed.
Lemma script_ok_avail b r : script_ok (Avail b :: r) <-> b <> [] /\ script_ok r.
Proof.
  unfold script_ok. cbn [before_eof]. split.
  - intros H. inversion H; subst. split; [congruence|auto].
  - intros [H1 H2]. constructor; [congruence|auto].
Qed.
Lemma script_ok_err r : script_ok (RdErr :: r) <-> script_ok r.
Proof.
  unfold script_ok. cbn [before_eof]. split.
  - intros H. inversion H; auto.
  - intros H. constructor; [discriminate|auto].
Qed.

Lemma fd_read_stream s n res s' : fd_read s n = (res, s') -> script_ok s -> 0 < n ->
  script_ok s' /\
  match res with
  | None => stream_of s' = stream_of s /\ (script_size s' < script_size s)%nat
  | Some got => stream_of s = got ++ stream_of s' /\ N.of_nat (length got) <= n /\
                (script_size s' <= script_size s)%nat /\
                (got <> [] -> (script_size s' < script_size s)%nat) /\
                (got = [] -> stream_of s = [])
  end.
Proof.
  destruct s as [|[bs| |] r]; cbn [fd_read]; intros E Hok Hn.
  - injection E as <- <-. split; auto. cbn [length]. repeat split; auto; try lia; congruence.
  - injection E as <- <-. apply -> script_ok_avail in Hok. destruct Hok as [Hb Hr].
    pose proof (firstn_skipn (N.to_nat n) bs) as F.
    pose proof (firstn_length (N.to_nat n) bs) as L.
    set (a := firstn (N.to_nat n) bs) in *. set (b := skipn (N.to_nat n) bs) in *.
    assert (Ha : a <> []).
    { intros Ea. rewrite Ea in L. cbn [length] in L. destruct bs; [congruence|]. cbn [length] in L. lia. }
    clearbody a b. subst bs. rewrite stream_of_avail. cbn [script_size]. rewrite app_length.
    destruct b as [|y b'].
    + split; [auto|]. rewrite app_nil_r in *. cbn [length]. repeat split; auto; try lia. congruence.
    + split; [apply script_ok_avail; split; [discriminate|auto]|].
      rewrite stream_of_avail, <- app_assoc. cbn [script_size].
      assert (0 < length a)%nat by (destruct a; [congruence|cbn; lia]).
      repeat split; auto; try lia. congruence.
  - injection E as <- <-. split; auto. cbn [length]. repeat split; auto; try lia. congruence.
  - injection E as <- <-. apply -> script_ok_err in Hok. split; [auto|]. split; [reflexivity|cbn [script_size]; lia].
Qed.

Lemma fd_loop_stream fuel : forall d m i nleft s last d' nleft' s' last',
  0 < m -> i < m -> length d = N.to_nat m -> script_ok s ->
  fd_loop fuel d m i nleft s last = (d', nleft', s', last') ->
  exists delivered, stream_of s = delivered ++ stream_of s' /\ nleft' <= nleft /\
    N.of_nat (length delivered) = nleft - nleft' /\ d' = put_ring d m i delivered /\ script_ok s' /\
    (script_size s' <= script_size s)%nat /\ (delivered <> [] -> (script_size s' < script_size s)%nat).
Proof.
  induction fuel as [|f IH]; intros d m i nleft s last d' nleft' s' last' Hm Hi Hd Hok; cbn [fd_loop].
  - intros [= <- <- <- <-]. exists []. cbn [app length put_ring]. csplit; auto; try lia; try congruence.
  - destruct (nleft =? 0) eqn:E0.
    + intros [= <- <- <- <-]. exists []. cbn [app length put_ring]. csplit; auto; try lia; try congruence.
    + apply N.eqb_neq in E0.
      destruct (fd_read s (N.min nleft (m - i))) as [[got|] s1] eqn:Er.
      * apply fd_read_stream in Er; auto; [|lia]. destruct Er as (Ok1 & Er1 & Er2 & Er3 & Er4 & _).
        rewrite put_ring_fast_eq by auto.
        destruct (N.of_nat (length got) =? N.min nleft (m - i)) eqn:Ek.
        -- intros E. apply IH in E; auto.
           ++ destruct E as (dl & E1 & E2 & E3 & E4 & E5 & E6 & E7). exists (got ++ dl). csplit; auto.
              ** rewrite Er1, E1, app_assoc. reflexivity.
              ** lia.
              ** rewrite app_length. lia.
              ** rewrite put_ring_app by auto. exact E4.
              ** lia.
              ** intros _. apply N.eqb_eq in Ek. assert (got <> []) by (intros ->; cbn [length] in Ek; lia).
                 specialize (Er4 H). lia.
           ++ apply mod_lt; auto.
           ++ rewrite put_ring_length; auto.
        -- intros [= <- <- <- <-]. exists got. csplit; auto; lia.
      * apply fd_read_stream in Er; auto; [|lia]. destruct Er as (Ok1 & Er1 & Er2).
        intros [= <- <- <- <-]. exists []. cbn [app length put_ring]. csplit; auto; try lia; try congruence.
Qed.

(* when the loop delivers nothing at all: either EAGAIN (and the script moved on) or end of file *)
Lemma fd_loop_zero f d m i nleft s last d' s' last' :
  0 < m -> i < m -> length d = N.to_nat m -> script_ok s -> 0 < nleft ->
  fd_loop (S f) d m i nleft s last = (d', nleft, s', last') ->
  ((last' <? 0)%Z = true /\ stream_of s' = stream_of s /\ (script_size s' < script_size s)%nat) \/
  ((last' <? 0)%Z = false /\ stream_of s = []).
Proof.
  intros Hm Hi Hd Hok Hn. cbn [fd_loop].
  assert (E0 : (nleft =? 0) = false) by (apply N.eqb_neq; lia). rewrite E0.
  destruct (fd_read s (N.min nleft (m - i))) as [[got|] s1] eqn:Er.
  - apply fd_read_stream in Er; auto; [|lia]. destruct Er as (Ok1 & Er1 & Er2 & Er3 & Er4 & Er5).
    destruct (N.of_nat (length got) =? N.min nleft (m - i)) eqn:Ek.
    + apply N.eqb_eq in Ek. intros E. apply fd_loop_stream in E; auto.
      * destruct E as (dl & _ & E2 & _). lia.
      * apply mod_lt; auto.
      * rewrite put_ring_fast_eq by auto. rewrite put_ring_length; auto.
    + intros [= <- E <- <-]. right. split; [lia|]. apply Er5. destruct got; [reflexivity|cbn [length] in E; lia].
  - apply fd_read_stream in Er; auto; [|lia]. destruct Er as (Ok1 & Er1 & Er2).
    intros [= <- <- <-]. left. auto.
Qed.

(* ---------- the buffer pdsh creates: sizes it can take, mode, maximum ---------- *)
(* from 64 the buffer grows (only when full) to 999, 1999, 3999, ..., 129999 and then to its
   maximum 131072; at each of these sizes one more CBUF_CHUNK still fits below the maximum *)
Definition size_ok (sz : N) : Prop :=
  sz = 64 \/ sz = 999 \/ sz = 131072 \/ (sz mod 2000 = 1999 /\ sz < 130000).

Definition good (c : cbuf) : Prop :=
  maxsize c = CBUF_MAXSIZE /\ overwrite c = WRAP_MANY /\ size_ok (size c).

Definition same_meta (c c' : cbuf) : Prop :=
  size c' = size c /\ maxsize c' = maxsize c /\ overwrite c' = overwrite c.

Lemma good_meta c c' : good c -> same_meta c c' -> good c'.
Proof. unfold good, same_meta. intros (A & B & C) (D & E & F). rewrite D, E, F. auto. Qed.

Lemma grow_size c n : size (fst (grow c n)) =
  if size c =? maxsize c then size c
  else N.min (size c + 1 + n + (CBUF_CHUNK - (size c + 1 + n) mod CBUF_CHUNK)) (maxsize c + 1) - 1.
Proof.
  unfold grow. destruct (size c =? maxsize c); [reflexivity|]. cbv zeta.
  destruct (i_in c <? i_rep c); reflexivity.
Qed.

Lemma writer_prep_c1 c len :
  fst (fst (writer_prep c len)) =
  if ((size c - used c <? len) && (size c <? maxsize c))%bool then fst (grow c (len - (size c - used c))) else c.
Proof.
  unfold writer_prep. destruct ((size c - used c <? len) && (size c <? maxsize c))%bool.
  - destruct (grow c (len - (size c - used c))) as [c' g]. cbn [fst]. destruct (overwrite c'); reflexivity.
  - destruct (overwrite c); reflexivity.
Qed.

Lemma good_create c : create CBUF_MINSIZE CBUF_MAXSIZE = Some c -> good c.
Proof.
  unfold create. change (CBUF_MINSIZE =? 0) with false. change (CBUF_MINSIZE <? CBUF_MAXSIZE) with true. cbv iota.
  intros [= <-]. unfold good, size_ok. cbn [maxsize overwrite size]. auto.
Qed.

(* ---------- one cbuf_write_from_fd(cb, fd, -1): nothing is ever dropped ----------
   (a buffer that is full at its maximum size only meets end of file or EAGAIN) *)
Lemma wfd_step c s : Inv c -> good c -> used c < CBUF_MAXSIZE \/ stream_of s = [] -> script_ok s ->
  exists c' s' r, write_from_fd c s None = (c', s', r) /\ Inv c' /\ good c' /\ script_ok s' /\
    match r with
    | WOk n nd => 0 < n /\ exists dl, stream_of s = dl ++ stream_of s' /\ abs c' = abs c ++ dl /\
                                      (script_size s' < script_size s)%nat
    | WErr => abs c' = abs c /\ stream_of s' = stream_of s /\ (script_size s' < script_size s)%nat
    | WEof => abs c' = abs c /\ stream_of s = []
    end.
Proof.
  intros H (Gm & Go & Gs) Hu Hok. pose proof H as H'. inv_destruct H'. clear Heq Hrp.
  unfold write_from_fd.
  set (len0 := let f := size c - used c in if f =? 0 then N.min (size c) CBUF_CHUNK else f).
  assert (Hl0 : 0 < len0).
  { unfold len0. cbv zeta. destruct (size c - used c =? 0) eqn:E; [apply N.eqb_eq in E|apply N.eqb_neq in E]; [|lia].
    unfold CBUF_CHUNK. lia. }
  assert (E0 : (len0 =? 0) = false) by (apply N.eqb_neq; lia). rewrite E0.
  destruct (writer_prep c len0) as [[c1 nfree] ol] eqn:Ep.
  pose proof (writer_prep_c1 c len0) as Ec1. rewrite Ep in Ec1. cbn [fst] in Ec1.
  apply writer_prep_spec in Ep; auto. destruct Ep as (A1 & A2 & A3 & A4 & A5 & A6 & A7 & A8 & A9).
  rewrite Go in A9. cbn [eff_len] in A9. subst ol.
  (* the request fits and the new size is one of the expected ones *)
  assert (Fit : (used c < CBUF_MAXSIZE -> used c + len0 <= size c1) /\ size_ok (size c1)).
  { rewrite Ec1. unfold len0 in *. cbv zeta in *. clear Ec1 A8.
    destruct (size c - used c =? 0) eqn:E; [apply N.eqb_eq in E|apply N.eqb_neq in E].
    - assert (Eu : used c = size c) by lia.
      destruct (size c <? maxsize c) eqn:Elt; [apply N.ltb_lt in Elt|apply N.ltb_ge in Elt].
      + replace (size c - used c <? N.min (size c) CBUF_CHUNK) with true by (symmetry; apply N.ltb_lt; lia).
        cbn [andb].
        rewrite grow_size. replace (size c =? maxsize c) with false by (symmetry; apply N.eqb_neq; lia).
        rewrite Gm in *. rewrite E, Eu. unfold size_ok in *. unfold CBUF_CHUNK, CBUF_MAXSIZE in *.
        destruct Gs as [Gs|[Gs|[Gs|[Gs1 Gs2]]]].
        * rewrite Gs. vm_compute. split; [discriminate|auto].
        * rewrite Gs. vm_compute. split; [discriminate|]. right; right; right. split; [reflexivity|reflexivity].
        * lia.
        * replace (N.min (size c) 1000) with 1000 by lia. rewrite N.sub_0_r.
          assert (Em : (size c + 1 + 1000) mod 1000 = 0) by lia. rewrite Em.
          lia.
      + rewrite andb_false_r. rewrite Gm in *. split; [lia|auto].
    - replace ((size c - used c <? size c - used c) && (size c <? maxsize c))%bool with false
        by (symmetry; apply andb_false_iff; left; apply N.ltb_ge; lia).
      split; [lia|auto]. }
  destruct Fit as [Fit Gs1].
  assert (G1 : good c1) by (unfold good; rewrite A5, A4; auto).
  pose proof A1 as A1'. inv_destruct A1'. clear Heq Hrp.
  destruct (fd_loop _ _ _ _ _ _ _) as [[[d nleft] s'] last] eqn:El.
  pose proof El as El0.
  apply fd_loop_stream in El; auto; unfold M; try lia.
  destruct El as (dl & E1 & E2 & E3 & E4 & E5 & E6 & E7).
  destruct (len0 - nleft =? 0) eqn:En; [apply N.eqb_eq in En|apply N.eqb_neq in En].
  - assert (nleft = len0) by lia. subst nleft.
    assert (dl = []) by (destruct dl; [auto|cbn [length] in E3; lia]). subst dl.
    cbn [put_ring] in E4. subst d. rewrite set_data_same.
    apply fd_loop_zero in El0; auto; unfold M; try lia.
    destruct El0 as [(L1 & L2 & L3)|(L1 & L2)]; rewrite L1.
    + exists c1, s', WErr. csplit; auto.
    + exists c1, s', WEof. csplit; auto.
  - assert (Hu' : used c < CBUF_MAXSIZE).
    { destruct Hu as [Hu|Hu]; [exact Hu|]. rewrite Hu in E1. symmetry in E1. apply app_eq_nil in E1 as [-> _].
      cbn [length] in E3. lia. }
    specialize (Fit Hu').
    subst d nfree. rewrite <- E3.
    exists (commit_write c1 (put_ring (data c1) (size c1 + 1) (i_in c1) dl) (N.of_nat (length dl)) (size c1 - used c1)), s',
      (WOk (N.of_nat (length dl)) (N.of_nat (length dl) - (size c1 - used c1))).
    csplit; auto.
    + apply commit_write_inv; auto. apply put_ring_length.
    + lia.
    + exists dl. csplit; auto.
      * pose proof (commit_write_abs c1 dl A1) as CA. unfold M in CA. rewrite CA, A2.
        apply lastn_all. rewrite app_length, abs_length. lia.
      * apply E7. intros ->. cbn [length] in E3. lia.
Qed.

(* ---------- reading ---------- *)
Lemma read_meta c len : Inv c -> same_meta c (fst (read c len)).
Proof.
  intros H. rewrite read_consume by auto. unfold same_meta, consume, dropper.
  destruct (N.min len (used c) =? 0); cbn [size maxsize overwrite]; auto.
Qed.

Lemma same_meta_refl c : same_meta c c.
Proof. unfold same_meta. auto. Qed.
Lemma same_meta_trans a b c : same_meta a b -> same_meta b c -> same_meta a c.
Proof. unfold same_meta. intros (A1 & A2 & A3) (B1 & B2 & B3). rewrite B1, B2, B3. auto. Qed.

(* cbuf_peek_line(cb, &c, 1, 1): the length of the first line, 0 if there is none *)
Lemma peek_line_11 c : Inv c ->
  fst (peek_line c 1 1) = match lines_prefix (abs c) 1 with Some n => N.of_nat n | None => 0 end.
Proof.
  intros H. pose proof (read_line_refines c 1 1 H eq_refl) as R.
  change (Z.to_nat 1) with 1%nat in R.
  assert (E : snd (fst (read_line c 1 1)) = fst (peek_line c 1 1)).
  { unfold read_line. destruct (peek_line c 1 1) as [n t]. reflexivity. }
  rewrite <- E. destruct (lines_prefix (abs c) 1) as [n|].
  - destruct R as [R _]. rewrite R. reflexivity.
  - rewrite R. reflexivity.
Qed.

(* ---------- _flush_lines ---------- *)
Lemma flush_lines_spec : forall fuel x c rc acc, Inv c -> (length (abs c) < fuel)%nat ->
  ~ In 0 (abs c) -> (read_rc x = true -> find_sub RC_MAGIC (abs c) = None) ->
  exists c' rc', flush_lines fuel x c rc acc = (c', rc', acc ++ map (emit x) (fst (sl (abs c)))) /\
    Inv c' /\ abs c' = snd (sl (abs c)) /\ same_meta c c'.
Proof.
  induction fuel as [|f IH]; intros x c rc acc H Hf Hz Hm; [lia|].
  cbn [flush_lines]. pose proof (peek_line_11 c H) as P.
  destruct (peek_line c 1 1) as [n o]. cbn [fst] in P.
  destruct (lines_prefix (abs c) 1) as [p|] eqn:Ep.
  - apply sl_first_some in Ep as (Hp & Hpl & Esl).
    assert (E0 : (n =? 0) = false) by (apply N.eqb_neq; lia). rewrite E0.
    pose proof (read_refines c n H) as [R1 R2]. pose proof (inv_read c n H) as R3.
    pose proof (read_meta c n H) as R4.
    destruct (read c n) as [c1 buf]. cbn [fst snd] in *.
    replace (N.to_nat n) with p in * by lia.
    pose proof (firstn_skipn p (abs c)) as FS.
    assert (Zb : ~ In 0 buf) by (intro; apply Hz; rewrite <- FS; apply in_or_app; left; subst; auto).
    assert (Zr : ~ In 0 (abs c1)) by (intro; apply Hz; rewrite <- FS; apply in_or_app; right; rewrite <- R2; auto).
    assert (Mb : read_rc x = true -> find_sub RC_MAGIC buf = None /\ find_sub RC_MAGIC (abs c1) = None).
    { intros Hr. specialize (Hm Hr). rewrite <- FS in Hm. apply find_sub_none_app in Hm. rewrite R1, R2. exact Hm. }
    assert (Lb : length buf = p) by (rewrite R1, firstn_length; lia).
    assert (L1 : (length (abs c1) < f)%nat) by (rewrite R2, skipn_length; lia).
    destruct buf as [|b0 r0] eqn:Eb; [cbn [length] in Lb; lia|]. rewrite <- Eb in *.
    assert (Et : exists rc1, (if read_rc x then let '(r, t) := extract_rc buf in (Some r, t) else (rc, cstr buf)) = (rc1, buf)).
    { destruct (read_rc x) eqn:Er.
      - rewrite extract_rc_id by (auto; apply Mb; auto). eexists; reflexivity.
      - rewrite cstr_id by auto. eexists; reflexivity. }
    destruct Et as (rc1 & Et). rewrite Et.
    assert (Em : match buf with [] => acc | _ :: _ => acc ++ [emit x buf] end = acc ++ [emit x buf]) by (rewrite Eb; reflexivity).
    rewrite Em.
    destruct (IH x c1 rc1 (acc ++ [emit x buf]) R3 L1 Zr (fun Hr => proj2 (Mb Hr))) as (c' & rc' & E & I' & A' & M').
    exists c', rc'. rewrite E, Esl, <- R1, <- R2. cbn [fst snd map]. rewrite <- app_assoc. cbn [app].
    csplit; auto. eapply same_meta_trans; eauto.
  - apply sl_first_none in Ep. assert (E0 : (n =? 0) = true) by (apply N.eqb_eq; lia). rewrite E0.
    exists c, rc. rewrite Ep. cbn [fst snd map]. rewrite app_nil_r. csplit; auto. apply same_meta_refl.
Qed.

(* ---------- the tail loop of _flush_output ---------- *)
Lemma flush_k_pos : (0 < N.to_nat FLUSH_CHUNK - 1)%nat.
Proof. unfold FLUSH_CHUNK. lia. Qed.

Lemma flush_tail_labeled : forall fuel x c acc, Inv c -> ~ In 0 (abs c) ->
  flush_tail fuel x c true acc = acc ++ chunks_f fuel (N.to_nat FLUSH_CHUNK - 1) (abs c).
Proof.
  induction fuel as [|f IH]; intros x c acc H Hz; cbn [flush_tail chunks_f]; [rewrite app_nil_r; reflexivity|].
  pose proof (read_refines c (FLUSH_CHUNK - 1) H) as [R1 R2]. pose proof (inv_read c (FLUSH_CHUNK - 1) H) as R3.
  destruct (read c (FLUSH_CHUNK - 1)) as [c1 buf]. cbn [fst snd] in *.
  replace (N.to_nat (FLUSH_CHUNK - 1)) with (N.to_nat FLUSH_CHUNK - 1)%nat in * by lia.
  pose proof flush_k_pos as K. set (k := (N.to_nat FLUSH_CHUNK - 1)%nat) in *. clearbody k.
  pose proof (firstn_skipn k (abs c)) as FS.
  destruct (abs c) as [|a0 r0] eqn:Ea.
  - rewrite firstn_nil in R1. subst buf. rewrite app_nil_r. reflexivity.
  - rewrite <- Ea in *.
    assert (Zb : ~ In 0 buf) by (intro; apply Hz; rewrite <- FS; apply in_or_app; left; subst; auto).
    assert (Zr : ~ In 0 (abs c1)) by (intro; apply Hz; rewrite <- FS; apply in_or_app; right; rewrite <- R2; auto).
    destruct buf as [|b0 q0] eqn:Eb.
    { exfalso. rewrite Ea in R1. destruct k; [lia|]. cbn [firstn] in R1. discriminate. }
    rewrite <- Eb in *. rewrite andb_false_r. rewrite cstr_id by auto.
    rewrite IH by auto. rewrite <- app_assoc. cbn [app]. rewrite R1, R2. reflexivity.
Qed.

Lemma flush_tail_spec x c : Inv c -> ~ In 0 (abs c) ->
  flush_tail (S (N.to_nat (used c))) x c false [] =
  match chunks (N.to_nat FLUSH_CHUNK - 1) (abs c) with [] => [] | p :: ps => emit x p :: ps end.
Proof.
  intros H Hz. unfold chunks.
  rewrite (chunks_f_fuel _ flush_k_pos (length (abs c)) (S (N.to_nat (used c))) (abs c))
    by (rewrite ?abs_length; lia).
  cbn [flush_tail chunks_f].
  pose proof (read_refines c (FLUSH_CHUNK - 1) H) as [R1 R2]. pose proof (inv_read c (FLUSH_CHUNK - 1) H) as R3.
  destruct (read c (FLUSH_CHUNK - 1)) as [c1 buf]. cbn [fst snd] in *.
  replace (N.to_nat (FLUSH_CHUNK - 1)) with (N.to_nat FLUSH_CHUNK - 1)%nat in * by lia.
  pose proof (fun acc Z => flush_tail_labeled (N.to_nat (used c)) x c1 acc R3 Z) as FL.
  pose proof flush_k_pos as K. set (k := (N.to_nat FLUSH_CHUNK - 1)%nat) in *. clearbody k.
  pose proof (firstn_skipn k (abs c)) as FS.
  destruct (abs c) as [|a0 r0] eqn:Ea.
  - rewrite firstn_nil in R1. subst buf. reflexivity.
  - rewrite <- Ea in *.
    assert (Zb : ~ In 0 buf) by (intro; apply Hz; rewrite <- FS; apply in_or_app; left; subst; auto).
    assert (Zr : ~ In 0 (abs c1)) by (intro; apply Hz; rewrite <- FS; apply in_or_app; right; rewrite <- R2; auto).
    destruct buf as [|b0 q0] eqn:Eb.
    { exfalso. rewrite Ea in R1. destruct k; [lia|]. cbn [firstn] in R1. discriminate. }
    rewrite <- Eb in *. rewrite andb_true_r. rewrite cstr_id by auto.
    rewrite FL by auto. cbn [app]. rewrite R1, R2.
    unfold emit. destruct (labels x); reflexivity.
Qed.
