(* C20 proofs on the timed dsh transition system: what the signals thread can and cannot do. *)
From PV Require Import Dsh.Sys Dsh.SysFacts.
From Coq Require Import ZifyBool.
Local Open Scope Z_scope.

(* ---------------------------------------------------------------------------------------- *)
(* events of the signals thread and of signal arrival *)
Definition is_sig_ev (e : ev) : bool :=
  match e with
  | ESigArrive _ | ESigTake | ESigMark | ELock1S | ERSigS _ | EUnlock1S | EExitS | ELock0S | EUnlock0S | ERaise => true
  | _ => false
  end.
(* the events by which the signals thread acts on the run (forwarding, aborting, cancelling) *)
Definition is_sig_action (e : ev) : bool :=
  match e with ERSigS _ | EExitS | ELock0S | EUnlock0S => true | _ => false end.

Definition forget_own (o : own) : own := match o with ByS => Free | x => x end.
Definition forgetS (s : gst) : gst :=
  mkg (idx s) (tc s) (m0 s) (forget_own (m1 s)) (d s) (ws s) (now s) (wd s)
      (match sp s with SGone => SGone | _ => SIdle end) None 0 (exited s).

Section Sig.
Variable c : cfg.

Ltac upd_cases :=
  repeat match goal with
         | H : nth_error (updw _ _ _) _ = Some _ |- _ => apply nth_updw_inv in H; destruct H as [[? ?]|[? H]]; subst
         end.

(* ---- a single ^C (or ^C twice more than INTR_TIME apart) is transparent ---- *)
(* one step of another thread is also a step of the run in which the signals thread never moved *)
Lemma forget_step s e s' : step c s e = Some s' -> is_sig_ev e = false -> m0 s <> ByS ->
  step c (forgetS s) e = Some (forgetS s') /\ m0 s' <> ByS.
Proof.
  intros H He Hm.
  inv_step H; try discriminate He; unfold step, forgetS;
    cbn [exited idx tc m0 m1 d ws now wd sp pend last setw setw1 setd setsp forget_own];
    rewrite ?Hexited;
    repeat match goal with
           | H : ?x = _ |- context [match ?x with _ => _ end] => rewrite H
           | H : ?b = true |- context [if ?b then _ else _] => rewrite H
           | H : ?b = false |- context [if ?b then _ else _] => rewrite H
           end;
    cbn [forget_own]; rewrite ?Nat.eqb_refl; try (split; [reflexivity|]; cbn [m0]; congruence).
  all: repeat match goal with H : m1 _ = _ |- context [m1 _] => rewrite H end; cbn [forget_own setw1 idx tc m0 m1 d ws now wd sp pend last exited].
  all: try (split; [reflexivity|]; cbn [m0]; congruence).
Qed.

(* ---- lock discipline of thd_mutex ---- *)
Definition holdpc (p : wpc) : bool := match p with PHoldA | PHoldB | PHoldC => true | _ => false end.
Definition sholds (x : spc) : bool := match x with SListH | SAbortH _ => true | _ => false end.
Record InvL (s : gst) : Prop := {
  L_s : sholds (sp s) = true -> m1 s = ByS;
  L_w : forall i w, nth_error (ws s) i = Some w -> holdpc (pc w) = true -> m1 s = ByW i
}.
Lemma invL_init t0 : InvL (init c t0).
Proof.
  constructor; cbn; [discriminate|]. intros i w H. apply nth_error_In, repeat_spec in H. subst. cbn. discriminate.
Qed.
Lemma holdpc_cancel1 w : holdpc (pc (cancel1 w)) = holdpc (pc w).
Proof. unfold cancel1. destruct (ts w); reflexivity. Qed.

Ltac facts Hs Hw :=
  match goal with Hex : exited ?s0 = None |- _ =>
    try match goal with Hn : nth_error (ws s0) ?i = Some ?w, Hp : pc ?w = _ |- _ =>
          assert (m1 s0 = ByW i) by (eapply Hw; [exact Hn|rewrite Hp; reflexivity]) end;
    try match goal with Hsp : sp s0 = _ |- _ => assert (m1 s0 = ByS) by (apply Hs; first [reflexivity | rewrite Hsp; reflexivity]) end
  end.

Lemma invL_step s e s' : InvL s -> step c s e = Some s' -> InvL s'.
Proof.
  intros [Hs Hw] H.
  inv_step H; constructor; cbn [sp m1 ws setw setw1 setd setsp sholds];
    try exact Hs; try exact Hw; try discriminate.
  all: try solve [intro Hh; facts Hs Hw; try (cbn [sholds] in Hh; apply Hs in Hh); try discriminate; congruence].
  all: try solve [
    intros i0 w0 Hn0 Hh; try rewrite nth_error_map_wk in Hn0; upd_cases; cbn [pc set_pc holdpc] in *; try discriminate; try reflexivity;
    facts Hs Hw; try (pose proof (Hw _ _ Hn0 Hh)); congruence ].
  - intros i w0 Hn0 Hh. upd_cases; cbn [pc] in Hh; eapply Hw; eauto.
  - intros i w0 Hn0 Hh. upd_cases; eapply Hw; eauto.
  - intros i w Hn0 Hh. rewrite nth_error_map_wk in Hn0. destruct (nth_error (ws s) i) as [w1|] eqn:E; cbn in Hn0; [|discriminate].
    inversion Hn0; subst. rewrite holdpc_cancel1 in Hh. eapply Hw; eauto.
Qed.

Lemma invL_run s es s' : InvL s -> run c s es = Some s' -> InvL s'.
Proof.
  revert s. induction es as [|e r IH]; intros s H Hr; cbn [run] in Hr; [inversion Hr; subst; exact H|].
  destruct (step c s e) as [s1|] eqn:E; [|discriminate]. eapply IH; [eapply invL_step; eauto|exact Hr].
Qed.

Fixpoint drop_sig (es : list ev) : list ev :=
  match es with [] => [] | e :: r => if is_sig_ev e then drop_sig r else e :: drop_sig r end.

(* a signals-thread event that is not an action leaves everything the other threads see unchanged *)
Lemma forget_sig s e s' : InvL s -> step c s e = Some s' -> is_sig_ev e = true -> is_sig_action e = false ->
  forgetS s' = forgetS s /\ (m0 s <> ByS -> m0 s' <> ByS).
Proof.
  intros [Hs Hw] H He Ha.
  inv_step H; try discriminate He; try discriminate Ha; unfold forgetS;
    cbn [exited idx tc m0 m1 d ws now wd sp pend last setw setw1 setd setsp forget_own];
    repeat match goal with H : sp _ = _ |- context [sp _] => rewrite H end;
    repeat match goal with H : m1 _ = _ |- context [m1 _] => rewrite H end; cbn [forget_own]; rewrite ?Hexited; split; auto.
  all: facts Hs Hw; repeat match goal with H : m1 _ = _ |- context [m1 _] => rewrite H end; reflexivity.
Qed.

Definition no_action (es : list ev) : Prop := forall e, In e es -> is_sig_action e = false.

(* C20: as long as the signals thread only reports (one ^C, or ^C's more than INTR_TIME apart,
   or a stale ^Z), the other threads' events form a run of the system in which the signals
   thread never moved: same commands started and torn down, same completion, same exit *)
Theorem single_interrupt_transparent s es s' : InvL s -> m0 s <> ByS -> run c s es = Some s' -> no_action es ->
  run c (forgetS s) (drop_sig es) = Some (forgetS s').
Proof.
  revert s. induction es as [|e r IH]; intros s HL Hm Hr Hna; cbn [run drop_sig] in *.
  - inversion Hr; subst. reflexivity.
  - destruct (step c s e) as [s1|] eqn:E; [|discriminate].
    assert (Hna' : no_action r) by (intros e' Hin; apply Hna; right; exact Hin).
    pose proof (invL_step _ _ _ HL E) as HL1.
    destruct (is_sig_ev e) eqn:Ee.
    + destruct (forget_sig _ _ _ HL E Ee (Hna e (or_introl eq_refl))) as [Hf Hm1]. rewrite <- Hf. apply IH; auto.
    + destruct (forget_step _ _ _ E Ee Hm) as [Hst Hm1]. cbn [run]. rewrite Hst. apply IH; auto.
Qed.

(* ---- ^Z after ^C cancels only hosts not yet started or still connecting ---- *)
Theorem cancel_only_pending s s' i w : step c s ELock0S = Some s' -> nth_error (ws s) i = Some w ->
  exists w', nth_error (ws s') i = Some w' /\ pc w' = pc w /\
    match ts w with
    | TNew | TRcmd => ts w' = TCanceled
    | _ => ts w' = ts w
    end.
Proof.
  intros H Hn. inv_step H. cbn [ws]. rewrite nth_error_map_wk, Hn. cbn [option_map]. eexists. split; [reflexivity|].
  unfold cancel1. destruct (ts w) eqn:E; cbn [pc ts set_ts]; rewrite ?E; auto.
Qed.

(* a host whose slot was cancelled before its thread existed is never started *)
Lemma canceled_slot_step s e s' i w : step c s e = Some s' -> nth_error (ws s) i = Some w -> pc w = PNone -> ts w = TCanceled ->
  exists w', nth_error (ws s') i = Some w' /\ pc w' = PNone /\ ts w' = TCanceled.
Proof.
  intros H Hn Hp Ht.
  inv_step H; cbn [ws setw setw1 setd setsp]; try (eexists; split; [eassumption|split; assumption]);
    try solve [match goal with Hn' : nth_error (ws _) ?j = Some ?w1 |- _ =>
                 destruct (Nat.eq_dec j i) as [->|Hne];
                 [rewrite Hn in Hn'; inversion Hn'; subst; congruence
                 |rewrite nth_updw_other by exact Hne; eexists; split; [eassumption|split; assumption]] end].
  all: try solve [match goal with Hn' : nth_error (ws _) ?j = Some ?w1, Hb : blocked ?w1 = _ |- _ =>
                 destruct (Nat.eq_dec j i) as [->|Hne];
                 [rewrite Hn in Hn'; inversion Hn'; subst; first [unfold blocked in Hb; rewrite Hp in Hb; discriminate
                                                                  | eexists; split; [apply nth_updw_same; eapply nth_error_lt; eauto|split; assumption]]
                 |rewrite nth_updw_other by exact Hne; eexists; split; [eassumption|split; assumption]] end].
  - (* ECreate skips cancelled slots *)
    destruct (first_from_some _ _ _ _ Heqo) as (_ & (w1 & Hw1 & Hnc) & _).
    destruct (Nat.eq_dec n i) as [->|Hne].
    + rewrite Hn in Hw1. inversion Hw1; subst. unfold not_canceled in Hnc. rewrite Ht in Hnc. discriminate.
    + rewrite nth_updw_other by exact Hne. eexists; split; [eassumption|split; assumption].
  - (* another cancel *)
    rewrite nth_error_map_wk, Hn. cbn [option_map]. eexists. split; [reflexivity|]. unfold cancel1. rewrite Ht. split; assumption.
Qed.
Theorem canceled_never_started s es s' i w : run c s es = Some s' -> nth_error (ws s) i = Some w -> pc w = PNone -> ts w = TCanceled ->
  exists w', nth_error (ws s') i = Some w' /\ pc w' = PNone.
Proof.
  revert s w. induction es as [|e r IH]; intros s w Hr Hn Hp Ht; cbn [run] in Hr.
  - inversion Hr; subst. eauto.
  - destruct (step c s e) as [s1|] eqn:E; [|discriminate].
    destruct (canceled_slot_step _ _ _ _ _ E Hn Hp Ht) as (w1 & Hn1 & Hp1 & Ht1). eapply IH; eauto.
Qed.

(* a host that is already running its command is never cancelled *)
Theorem reading_never_canceled s e s' i w : step c s e = Some s' -> nth_error (ws s) i = Some w -> ts w = TReading ->
  exists w', nth_error (ws s') i = Some w' /\ ts w' <> TCanceled /\ ts w' <> TNew.
Proof.
  intros H Hn Ht.
  inv_step H; cbn [ws setw setw1 setd setsp];
    try (eexists; split; [eassumption|rewrite Ht; split; discriminate]);
    try solve [match goal with Hn' : nth_error (ws _) ?j = Some ?w1 |- _ =>
                 destruct (Nat.eq_dec j i) as [->|Hne];
                 [rewrite Hn in Hn'; inversion Hn'; subst;
                  eexists; split; [apply nth_updw_same; eapply nth_error_lt; eauto|];
                  cbn [ts set_pc]; rewrite ?Ht; cbn [tst_eqb]; try (destruct (failed _)); split; discriminate
                 |rewrite nth_updw_other by exact Hne; eexists; split; [eassumption|rewrite Ht; split; discriminate]] end].
  - destruct (first_from_some _ _ _ _ Heqo) as (_ & (w1 & Hw1 & _) & _). rewrite (nth_error_nth_wk _ _ _ Hw1).
    destruct (Nat.eq_dec n i) as [->|Hne].
    + rewrite Hn in Hw1. inversion Hw1; subst. eexists; split; [apply nth_updw_same; eapply nth_error_lt; eauto|].
      cbn [ts set_pc]. rewrite Ht. split; discriminate.
    + rewrite nth_updw_other by exact Hne. eexists; split; [eassumption|rewrite Ht; split; discriminate].
  - destruct (Nat.eq_dec i0 i) as [->|Hne].
    + rewrite Hn in Heqo. inversion Heqo; subst. rewrite Ht in Heqb. discriminate.
    + rewrite nth_updw_other by exact Hne. eexists; split; [eassumption|rewrite Ht; split; discriminate].
  - rewrite nth_error_map_wk, Hn. cbn [option_map]. eexists. split; [reflexivity|]. unfold cancel1. rewrite Ht. rewrite Ht. split; discriminate.
Qed.

(* ---- abort (batch ^C, or a second ^C within INTR_TIME): the interrupt is forwarded to exactly
        the commands that are running when the handler takes thd_mutex ---- *)
Definition tss (s : gst) : list tst := map ts (ws s).
Definition rd (T : list tst) (i : nat) : Prop := nth_error T i = Some TReading.

Lemma tss_updw s i w w' : nth_error (ws s) i = Some w -> ts w' = ts w -> map ts (updw (ws s) i w') = map ts (ws s).
Proof.
  intros H E. generalize dependent i. induction (ws s) as [|h t IH]; intros [|i] H; cbn in *; try discriminate; auto.
  - inversion H; subst. rewrite E. reflexivity.
  - rewrite IH; auto.
Qed.
Lemma is_reading_rd s i w : nth_error (ws s) i = Some w -> (is_reading w = true <-> rd (tss s) i).
Proof.
  intros H. unfold rd, tss, is_reading. rewrite nth_error_map, H. cbn [option_map]. destruct (ts w); cbn; split; intros X; try discriminate; try reflexivity; inversion X.
Qed.
Lemma rd_some s i : rd (tss s) i -> exists w, nth_error (ws s) i = Some w /\ is_reading w = true.
Proof.
  unfold rd, tss. rewrite nth_error_map. destruct (nth_error (ws s) i) as [w|] eqn:E; cbn; [|discriminate]. intros H. exists w. split; [reflexivity|].
  unfold is_reading. inversion H as [H1]. rewrite H1. reflexivity.
Qed.

(* while the handler holds thd_mutex nobody's state changes *)
Lemma abort_step s e s1 k : InvL s -> sp s = SAbortH k -> step c s e = Some s1 ->
  (exists j, e = ERSigS j /\ (k <= j)%nat /\ rd (tss s) j /\ (forall i, (k <= i < j)%nat -> ~ rd (tss s) i) /\ sp s1 = SAbortH (S j) /\ tss s1 = tss s)
  \/ (e = EUnlock1S /\ (forall i, (k <= i)%nat -> ~ rd (tss s) i) /\ sp s1 = SAbortU /\ tss s1 = tss s)
  \/ ((forall j, e <> ERSigS j) /\ sp s1 = SAbortH k /\ tss s1 = tss s)
  \/ e = EExit.
Proof.
  intros HL Hsp H. pose proof (L_s _ HL) as Hs. rewrite Hsp in Hs. specialize (Hs eq_refl).
  inv_step H; try congruence; unfold tss; cbn [ws sp setw setw1 setd setsp];
    try (right; right; left; split; [intros; discriminate|]; split; [assumption|]);
    try reflexivity;
    try solve [eapply tss_updw; eauto].
  - destruct (first_from_some _ _ _ _ Heqo) as (_ & (w1 & Hw1 & _) & _). rewrite (nth_error_nth_wk _ _ _ Hw1).
    eapply tss_updw; eauto.
  - right; right; right. reflexivity.
  - left. inversion Hsp; subst. destruct (first_from_some _ _ _ _ Heqo) as (Hk & (w1 & Hw1 & Hr) & Hn).
    exists n. split; [reflexivity|]. split; [exact Hk|]. split; [apply (is_reading_rd s n w1 Hw1); exact Hr|].
    split; [|split; reflexivity].
    intros i Hi Hrd. destruct (rd_some _ _ Hrd) as (w2 & Hw2 & Hr2). rewrite (Hn _ _ Hi Hw2) in Hr2. discriminate.
  - right; left. inversion Hsp; subst. split; [reflexivity|]. split; [|split; reflexivity].
    intros i Hi Hrd. destruct (rd_some _ _ Hrd) as (w2 & Hw2 & Hr2). rewrite (first_from_none _ _ _ Heqo _ _ Hi Hw2) in Hr2. discriminate.
Qed.

(* after the handler released the mutex it can only exit *)
Lemma abortU_step s e s1 : sp s = SAbortU -> step c s e = Some s1 -> (forall j, e <> ERSigS j) /\ (sp s1 = SAbortU \/ sp s1 = SGone).
Proof.
  intros Hsp H. inv_step H; try congruence; cbn [sp setw setw1 setd setsp]; split; try (intros; discriminate); auto.
Qed.
Lemma gone_step s e s1 : sp s = SGone -> step c s e = Some s1 -> (forall j, e <> ERSigS j) /\ sp s1 = SGone.
Proof.
  intros Hsp H. inv_step H; try congruence; cbn [sp setw setw1 setd setsp]; split; try (intros; discriminate); auto.
Qed.

Lemma no_rsig_after_U es : forall s s', (sp s = SAbortU \/ sp s = SGone) -> run c s es = Some s' -> forall j, ~ In (ERSigS j) es.
Proof.
  induction es as [|e r IH]; intros s s' Hsp Hr j Hin; cbn [run In] in *; [tauto|].
  destruct (step c s e) as [s1|] eqn:E; [|discriminate].
  destruct Hsp as [Hsp|Hsp].
  - destruct (abortU_step _ _ _ Hsp E) as [Hne Hsp1]. destruct Hin as [Hin|Hin]; [eapply Hne; eauto|]. eapply IH; eauto.
  - destruct (gone_step _ _ _ Hsp E) as [Hne Hsp1]. destruct Hin as [Hin|Hin]; [eapply Hne; eauto|]. eapply IH; eauto.
Qed.

Lemma abort_sound_gen s es s' k : InvL s -> sp s = SAbortH k -> run c s es = Some s' ->
  forall j, In (ERSigS j) es -> (k <= j)%nat /\ rd (tss s) j.
Proof.
  revert s k. induction es as [|e r IH]; intros s k HL Hsp Hr j Hin; cbn [run In] in *; [tauto|].
  destruct (step c s e) as [s1|] eqn:E; [|discriminate]. pose proof (invL_step _ _ _ HL E) as HL1.
  destruct (abort_step _ _ _ _ HL Hsp E) as [(j0 & -> & Hk & Hrd & Hno & Hsp1 & HT)|[(-> & Hno & Hsp1 & HT)|[(Hne & Hsp1 & HT)| ->]]].
  - destruct Hin as [Hin|Hin].
    + inversion Hin; subst. split; assumption.
    + destruct (IH _ _ HL1 Hsp1 Hr _ Hin) as [H1 H2]. rewrite HT in H2. split; [lia|exact H2].
  - destruct Hin as [Hin|Hin]; [discriminate|]. exfalso. eapply no_rsig_after_U; eauto.
  - destruct Hin as [Hin|Hin]; [exfalso; eapply Hne; eauto|].
    destruct (IH _ _ HL1 Hsp1 Hr _ Hin) as [H1 H2]. rewrite HT in H2. split; assumption.
  - (* the main thread exits first: the process is gone, nothing more happens *)
    destruct Hin as [Hin|Hin]; [discriminate|]. exfalso.
    assert (Hex : exited s1 <> None) by (inv_step E; cbn; discriminate).
    destruct r as [|e2 r2]; [destruct Hin|]. cbn [run] in Hr. unfold step in Hr. destruct (exited s1); [discriminate|congruence].
Qed.

Lemma abort_complete_gen s es s' k : InvL s -> sp s = SAbortH k -> run c s es = Some s' -> sp s' = SAbortU ->
  forall j, (k <= j)%nat -> rd (tss s) j -> In (ERSigS j) es.
Proof.
  revert s k. induction es as [|e r IH]; intros s k HL Hsp Hr Hend j Hkj Hrd; cbn [run In] in *.
  - inversion Hr; subst. congruence.
  - destruct (step c s e) as [s1|] eqn:E; [|discriminate]. pose proof (invL_step _ _ _ HL E) as HL1.
    destruct (abort_step _ _ _ _ HL Hsp E) as [(j0 & -> & Hk & Hrd0 & Hno & Hsp1 & HT)|[(-> & Hno & Hsp1 & HT)|[(Hne & Hsp1 & HT)| ->]]].
    + destruct (Nat.lt_trichotomy j j0) as [Hlt|[->|Hgt]].
      * exfalso. apply (Hno j); [lia|exact Hrd].
      * left. reflexivity.
      * right. eapply IH; eauto. rewrite HT. exact Hrd.
    + exfalso. apply (Hno j Hkj Hrd).
    + right. eapply IH; eauto. rewrite HT. exact Hrd.
    + exfalso. assert (Hex : exists v, exited s1 = Some v) by (inv_step E; cbn; eauto). destruct Hex as [v Hv].
      assert (Hsg : sp s1 = SGone) by (inv_step E; reflexivity).
      destruct r as [|e2 r2]; cbn [run] in Hr; [inversion Hr; subst; congruence|].
      unfold step in Hr. rewrite Hv in Hr. discriminate.
Qed.

(* The handler that aborts (entered with thd_mutex just taken, sp = SAbortH 0) forwards the
   interrupt to exactly the hosts whose command is running at that moment, whatever the other
   threads do meanwhile. *)
Theorem abort_forwards_exactly s es s' : InvL s -> sp s = SAbortH 0 -> run c s es = Some s' ->
  (forall j, In (ERSigS j) es -> rd (tss s) j) /\
  (sp s' = SAbortU -> forall j, rd (tss s) j -> In (ERSigS j) es).
Proof.
  intros HL Hsp Hr. split.
  - intros j Hin. eapply abort_sound_gen; eauto.
  - intros Hend j Hrd. eapply abort_complete_gen; eauto. lia.
Qed.

(* ... and then exits with a non-zero status: from SAbortU the only step of the signals thread is EExitS -> status 1 *)
Theorem abort_exit_status s s' : sp s = SAbortU -> step c s EExitS = Some s' -> exited s' = Some 1.
Proof. intros Hsp H. inv_step H. reflexivity. Qed.
Theorem abort_exit_enabled s : sp s = SAbortU -> exited s = None -> step c s EExitS <> None.
Proof. intros Hsp Hex. unfold step. rewrite Hex, Hsp. discriminate. Qed.

(* which interrupts abort: batch mode always; otherwise only a ^C that follows the previous one
   within INTR_TIME seconds *)
Theorem take_int_decision s s' : step c s ESigTake = Some s' -> pend s = Some SInt ->
  sp s' = if batch c then SAbortL else if INTR <? now s - last s then SListM else SAbortL.
Proof.
  intros H Hp. inv_step H; try congruence; cbn [sp]; rewrite ?Heqb, ?Heqb0; reflexivity.
Qed.
End Sig.
