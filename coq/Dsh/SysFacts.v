(* Proofs about the timed dsh transition system (Dsh/Sys.v): lock discipline, fresh stamps,
   the watchdog deadline under maximal progress, kills only when overdue. *)
From PV Require Import Dsh.Sys.
From Coq Require Import ZifyBool.
Local Open Scope Z_scope.

(* ---------------------------------------------------------------------------------------- *)
(* lists *)
Lemma updw_length l i x : length (updw l i x) = length l.
Proof. revert i; induction l; intros [|j]; simpl; auto. Qed.
Lemma nth_updw_same l i x : (i < length l)%nat -> nth_error (updw l i x) i = Some x.
Proof. revert i; induction l; intros [|j] H; simpl in *; try lia; auto. apply IHl; lia. Qed.
Lemma nth_updw_other l i j x : i <> j -> nth_error (updw l i x) j = nth_error l j.
Proof. revert i j; induction l; intros [|i] [|j] H; simpl; auto; try congruence. Qed.
Lemma nth_updw_inv l k y j z : nth_error (updw l k y) j = Some z ->
  (j = k /\ z = y) \/ (j <> k /\ nth_error l j = Some z).
Proof.
  intros H. destruct (Nat.eq_dec k j) as [<-|Hne].
  - left. assert (k < length l)%nat.
    { rewrite <- (updw_length l k y). apply nth_error_Some. congruence. }
    rewrite nth_updw_same in H by auto. inversion H; auto.
  - right. rewrite nth_updw_other in H by auto. auto.
Qed.
Lemma nth_error_lt {A} (l : list A) i x : nth_error l i = Some x -> (i < length l)%nat.
Proof. intros H. apply nth_error_Some. congruence. Qed.
Lemma nth_error_nth_wk l i w : nth_error l i = Some w -> nth i l wk0 = w.
Proof. revert i; induction l; intros [|i] H; simpl in *; try discriminate; [congruence|auto]. Qed.
Lemma nth_error_map_wk (g : wk -> wk) l i : nth_error (map g l) i = option_map g (nth_error l i).
Proof. revert i; induction l; intros [|i]; simpl; auto. Qed.

(* first_from *)
Lemma first_from_some p l k j : first_from p l k = Some j ->
  (k <= j)%nat /\ (exists w, nth_error l j = Some w /\ p w = true) /\
  (forall i w, (k <= i < j)%nat -> nth_error l i = Some w -> p w = false).
Proof.
  revert k j. induction l as [|h t IH]; intros k j H; cbn [first_from] in H; [discriminate|].
  destruct k as [|k].
  - destruct (p h) eqn:E.
    + inversion H; subst. split; [lia|]. split; [exists h; auto|]. intros i w Hi; lia.
    + destruct (first_from p t 0) as [j'|] eqn:E2; cbn in H; [|discriminate]. inversion H; subst.
      destruct (IH _ _ E2) as (_ & (w & Hw & Hp) & Hn). split; [lia|]. split; [exists w; auto|].
      intros [|i] w' Hi Hw'; cbn in Hw'; [congruence|]. apply (Hn i); auto. lia.
  - destruct (first_from p t k) as [j'|] eqn:E2; cbn in H; [|discriminate]. inversion H; subst.
    destruct (IH _ _ E2) as (Hk & (w & Hw & Hp) & Hn). split; [lia|]. split; [exists w; auto|].
    intros [|i] w' Hi Hw'; [lia|]. cbn in Hw'. apply (Hn i); auto. lia.
Qed.
Lemma first_from_none p l k : first_from p l k = None ->
  forall i w, (k <= i)%nat -> nth_error l i = Some w -> p w = false.
Proof.
  revert k. induction l as [|h t IH]; intros k H i w Hi Hw; [destruct i; discriminate|].
  cbn [first_from] in H. destruct k as [|k].
  - destruct (p h) eqn:E; [discriminate|]. destruct (first_from p t 0) eqn:E2; cbn in H; [discriminate|].
    destruct i as [|i]; cbn in Hw; [congruence|]. apply (IH _ E2 i); auto. lia.
  - destruct (first_from p t k) eqn:E2; cbn in H; [discriminate|].
    destruct i as [|i]; [lia|]. cbn in Hw. apply (IH _ E2 i); auto. lia.
Qed.

(* ---------------------------------------------------------------------------------------- *)
(* inversion of one step *)
Ltac inv_step H :=
  unfold step in H;
  match type of H with context [exited ?s] => destruct (exited s) eqn:Hexited; [discriminate|] end;
  match type of H with (match ?e with _ => _ end) = _ => destruct e end;
  repeat match type of H with
         | context [match ?x with _ => _ end] => destruct x eqn:?; try discriminate
         | context [if ?b then _ else _] => destruct b eqn:?; try discriminate
         end;
  inversion H; subst; clear H;
  repeat match goal with
         | E : Nat.eqb _ _ = true |- _ => apply Nat.eqb_eq in E; subst
         end.

Section Facts.
Variable c : cfg.

(* runs in which time advances only when every thread is blocked (Sys.calm) *)
Inductive urun : gst -> list ev -> gst -> Prop :=
| ur_nil s : urun s [] s
| ur_snoc s es s1 e s2 : urun s es s1 -> step c s1 e = Some s2 -> (e = ETick -> calm s1 = true) -> urun s (es ++ [e]) s2.

Lemma run_snoc s es e s1 s2 : run c s es = Some s1 -> step c s1 e = Some s2 -> run c s (es ++ [e]) = Some s2.
Proof.
  revert s. induction es as [|a r IH]; intros s H Hs; cbn [run app] in *.
  - inversion H; subst. rewrite Hs. reflexivity.
  - destruct (step c s a); [|discriminate]. apply IH; auto.
Qed.
Lemma urun_run s es s' : urun s es s' -> run c s es = Some s'.
Proof. induction 1; [reflexivity|]. eapply run_snoc; eauto. Qed.

Ltac upd_cases :=
  repeat match goal with
         | H : nth_error (updw _ _ _) _ = Some _ |- _ => apply nth_updw_inv in H; destruct H as [[? ?]|[? H]]; subst
         end.

(* ---------------------------------------------------------------------------------------- *)
(* the deadline invariant *)
Definition conn_ts (w : wk) : Prop := ts w = TRcmd \/ ts w = TCanceled.
Definition fresh (s : gst) (w : wk) : Prop :=
  match pc w with
  | PWantA => start w = now s
  | PHoldA | PConn0 => start w = now s /\ conn_ts w
  | PInConn => conn_ts w
  | PHoldB => conn w = now s
  | _ => True
  end.

Record InvT (s : gst) : Prop := {
  T_fresh : forall i w, nth_error (ws s) i = Some w -> fresh s w;
  T_sleep : forall u, wd s = WdSleep u -> (now s <= u <= now s + WDOG) /\
            (forall i w t, nth_error (ws s) i = Some w -> hang_due c i w = Some t -> u <= t + WDOG);
  T_scan : forall j, wd s = WdKilling j ->
            forall i w t, nth_error (ws s) i = Some w -> hang_due c i w = Some t -> (now s <= t + WDOG) /\ ((i < j)%nat -> now s <= t)
}.

Lemma WDOG_nonneg : 0 <= WDOG. Proof. unfold WDOG. apply N2Z.is_nonneg. Qed.

Lemma invT_init t0 : InvT (init c t0).
Proof.
  constructor; cbn [init ws wd now].
  - intros i w H. apply nth_error_In, repeat_spec in H. subst. exact I.
  - intros u H. inversion H; subst. pose proof WDOG_nonneg. split; [lia|].
    intros i w t H1. apply nth_error_In, repeat_spec in H1. subst. cbn. discriminate.
  - discriminate.
Qed.

Lemma calm_sleep s : calm s = true -> exists u, wd s = WdSleep u /\ now s < u.
Proof. unfold calm. destruct (wd s); [|discriminate]. intros H. apply andb_prop in H as [H _]. eexists; split; eauto. lia. Qed.
Lemma calm_pcs s i w : calm s = true -> nth_error (ws s) i = Some w -> calm_pc w = true.
Proof.
  unfold calm. intros H Hn. apply andb_prop in H as [_ H]. rewrite forallb_forall in H. apply H. eapply nth_error_In; eauto.
Qed.

(* a slot that is not overdue in the watchdog's eyes has its due time in the future *)
Lemma not_killable_due s i w t : killable c s w = false -> hang_due c i w = Some t -> now s <= t.
Proof.
  unfold killable, hang_due. destruct (pc w), (behof c i), (ts w); try discriminate;
    destruct (eintr w); cbn [negb andb]; try discriminate.
  - destruct (0 <? tconn c) eqn:E; [|discriminate]. cbn [andb]. intros H1 H2. inversion H2; subst. lia.
  - destruct (0 <? tconn c) eqn:E; [|discriminate]. cbn [andb]. destruct (start w =? -1) eqn:E2; cbn [negb andb]; [discriminate|].
    intros H1 H2. inversion H2; subst. lia.
  - destruct (0 <? tcmd c) eqn:E; [|discriminate]. cbn [andb]. intros H1 H2. inversion H2; subst. lia.
Qed.

Lemma hang_due_fresh_none s i w : fresh s w -> (pc w = PWantA \/ pc w = PHoldA \/ pc w = PConn0 \/ pc w = PHoldB) -> hang_due c i w = None.
Proof. unfold hang_due. intros _ [H|[H|[H|H]]]; rewrite H; reflexivity. Qed.

Lemma scan_result s k :
  (forall i w t, nth_error (ws s) i = Some w -> hang_due c i w = Some t -> now s <= t + WDOG /\ ((i < k)%nat -> now s <= t)) ->
  match wd_scan c s k with
  | WdSleep u => (now s <= u <= now s + WDOG) /\ (forall i w t, nth_error (ws s) i = Some w -> hang_due c i w = Some t -> u <= t + WDOG)
  | WdKilling j => forall i w t, nth_error (ws s) i = Some w -> hang_due c i w = Some t -> now s <= t + WDOG /\ ((i < j)%nat -> now s <= t)
  end.
Proof.
  intros H. unfold wd_scan. destruct (first_from (killable c s) (ws s) k) as [j|] eqn:E.
  - destruct (first_from_some _ _ _ _ E) as (Hk & _ & Hn). cbv iota. intros i w t Hw Hd.
    destruct (H _ _ _ Hw Hd) as [H1 H2]. split; [exact H1|].
    intros Hi. destruct (Nat.lt_ge_cases i k) as [Hlt|Hge]; [auto|].
    eapply not_killable_due; eauto.
  - pose proof (first_from_none _ _ _ E) as Hn. pose proof WDOG_nonneg. cbv iota. split; [lia|]. intros i w t Hw Hd.
    destruct (Nat.lt_ge_cases i k) as [Hlt|Hge].
    + destruct (H _ _ _ Hw Hd) as [_ H2]. specialize (H2 Hlt). lia.
    + pose proof (not_killable_due s i w t (Hn _ _ Hge Hw) Hd). lia.
Qed.

Lemma fresh_tick s w : fresh s w -> calm_pc w = true ->
  fresh (mkg (idx s) (tc s) (m0 s) (m1 s) (d s) (ws s) (now s + 1) (wd s) (sp s) (pend s) (last s) (exited s)) w.
Proof. unfold fresh, calm_pc, conn_ts. destruct (pc w); cbn [now]; auto; discriminate. Qed.

Lemma fresh_same_now s s' w : now s' = now s -> fresh s w -> fresh s' w.
Proof. unfold fresh. intros ->. auto. Qed.

Lemma fresh_cancel1 s w : fresh s w -> fresh s (cancel1 w).
Proof. unfold fresh, cancel1, conn_ts. destruct (ts w) eqn:E; cbn [pc ts set_ts start conn]; rewrite ?E; auto; destruct (pc w); intuition congruence. Qed.

Lemma fresh_step s e s' : InvT s -> step c s e = Some s' -> (e = ETick -> calm s = true) ->
  forall i w, nth_error (ws s') i = Some w -> fresh s' w.
Proof.
  intros [Hf _ _] H Ht.
  inv_step H; cbn [ws setw setw1 setd setsp]; intros ix wx Hn; upd_cases;
    try (eapply fresh_same_now; [|eapply Hf; eauto]; reflexivity);
    try solve [unfold fresh, conn_ts; cbn [pc ts now set_pc setw setw1 start conn]; auto].
  all: try solve [match goal with Hw : nth_error (ws _) ?i = Some ?w |- _ =>
                    pose proof (Hf _ _ Hw) as Hfw; unfold fresh, conn_ts in *; cbn [pc ts now set_pc setw setw1 start conn] in *;
                    match goal with E : pc w = _ |- _ => rewrite E in Hfw end; intuition (auto; congruence) end].
  - pose proof (Hf _ _ Heqo) as Hfw. unfold fresh, conn_ts in *. cbn [pc ts now start conn] in *. exact Hfw.
  - rewrite nth_error_map_wk in Hn. destruct (nth_error (ws s) ix) as [w1|] eqn:E1; cbn in Hn; [|discriminate].
    inversion Hn; subst. apply fresh_cancel1. eapply fresh_same_now; [|eapply Hf; eauto]. reflexivity.
  - apply fresh_tick; [eapply Hf; eauto|]. eapply calm_pcs; eauto.
Qed.

Definition Bound (s : gst) : Prop :=
  match wd s with
  | WdSleep u => (now s <= u <= now s + WDOG) /\
                 (forall i w t, nth_error (ws s) i = Some w -> hang_due c i w = Some t -> u <= t + WDOG)
  | WdKilling j => forall i w t, nth_error (ws s) i = Some w -> hang_due c i w = Some t ->
                   (now s <= t + WDOG) /\ ((i < j)%nat -> now s <= t)
  end.

Lemma invT_bound s : InvT s -> Bound s.
Proof. intros [_ H1 H2]. unfold Bound. destruct (wd s) eqn:E; [apply H1|apply H2]; reflexivity. Qed.

Lemma bound_same s s' : Bound s -> ws s' = ws s -> wd s' = wd s -> now s' = now s -> Bound s'.
Proof. unfold Bound. intros H -> -> ->. exact H. Qed.

Lemma bound_upd s s' i w w' : Bound s -> nth_error (ws s) i = Some w -> ws s' = updw (ws s) i w' ->
  wd s' = wd s -> now s' = now s ->
  (forall t, hang_due c i w' = Some t -> hang_due c i w = Some t \/ now s <= t) -> Bound s'.
Proof.
  unfold Bound. intros H Hw -> -> -> Hc. pose proof WDOG_nonneg. destruct (wd s) as [u|j].
  - destruct H as [H1 H2]. split; [exact H1|]. intros i0 w0 t Hn Hd. upd_cases.
    + destruct (Hc _ Hd) as [Hd'|Hd']; [eapply H2; eauto|lia].
    + eapply H2; eauto.
  - intros i0 w0 t Hn Hd. upd_cases.
    + destruct (Hc _ Hd) as [Hd'|Hd']; [eapply H; eauto|split; lia].
    + eapply H; eauto.
Qed.

Lemma hang_due_pc i w t : hang_due c i w = Some t -> pc w = PInConn \/ pc w = PPoll.
Proof. unfold hang_due. destruct (pc w); auto; discriminate. Qed.

Lemma hang_due_cancel1 s i w t : fresh s w -> hang_due c i (cancel1 w) = Some t -> hang_due c i w = Some t.
Proof.
  unfold hang_due, cancel1, fresh, conn_ts. destruct (ts w) eqn:E; cbn [pc ts set_ts eintr start conn]; rewrite ?E; auto;
    destruct (pc w), (behof c i); intros Hf Hx; try discriminate Hx; auto; try (destruct Hf; congruence).
  destruct (eintr w), (0 <? tconn c), (start w =? -1); cbn [negb andb] in *; try discriminate; exact Hx.
Qed.

Ltac due_none := let t := fresh "t" in let Hd := fresh "Hd" in
  intros t Hd; apply hang_due_pc in Hd; cbn [pc set_pc] in Hd; destruct Hd; discriminate.

Lemma bound_step s e s' : InvT s -> step c s e = Some s' -> (e = ETick -> calm s = true) -> Bound s'.
Proof.
  intros I H Ht. pose proof (invT_bound _ I) as B. destruct I as [Hf _ _].
  inv_step H;
    try (eapply bound_same; [exact B|reflexivity..]);
    try (eapply bound_upd; [exact B|eassumption|reflexivity..|]; try due_none).
  - (* ECreate *)
    destruct (first_from_some _ _ _ _ Heqo) as (_ & (w & Hw & _) & _).
    rewrite (nth_error_nth_wk _ _ _ Hw).
    eapply bound_upd; [exact B|exact Hw|reflexivity..|]. due_none.
  - (* EUnlock1: PHoldB -> PPoll *)
    intros t Hd. right. pose proof (Hf _ _ Heqo) as Hfw. unfold fresh in Hfw. rewrite Heqw0 in Hfw.
    unfold hang_due in Hd. cbn [pc set_pc ts eintr conn start] in Hd.
    destruct (behof c i), (ts w); try discriminate. destruct (eintr w); cbn [negb andb] in Hd; try discriminate.
    destruct (0 <? tcmd c) eqn:E; [|discriminate]. inversion Hd; subst. lia.
  - (* EConnBegin *)
    intros t Hd. right. pose proof (Hf _ _ Heqo) as Hfw. unfold fresh in Hfw. rewrite Heqw0 in Hfw.
    unfold hang_due in Hd. cbn [pc ts eintr conn start] in Hd.
    destruct Hfw as [Hst _].
    destruct (behof c i), (ts w); try discriminate; cbn [negb andb] in Hd;
      (destruct (0 <? tconn c) eqn:E; [|discriminate]); cbn [andb] in Hd;
      try (destruct (start w =? -1); cbn [negb] in Hd; [discriminate|]); inversion Hd; subst; lia.
  - (* EPollIntr, not overdue: keep polling *)
    intros t Hd. right.
    unfold hang_due in Hd. cbn [pc ts eintr conn start] in Hd.
    destruct (behof c i), (ts w); try discriminate. cbn [negb andb] in Hd.
    destruct (0 <? tcmd c) eqn:E; [|discriminate]. inversion Hd; subst. cbn [andb] in Heqb0. lia.
  - (* EWdWake *)
    unfold Bound in *. cbn [wd ws now]. rewrite Heqw in B. destruct B as [B1 B2].
    assert (P : forall i w t, nth_error (ws s) i = Some w -> hang_due c i w = Some t ->
                now s <= t + WDOG /\ ((i < 0)%nat -> now s <= t)).
    { intros i w t Hw Hd. specialize (B2 _ _ _ Hw Hd). split; lia. }
    pose proof (scan_result s 0 P) as R. destruct (wd_scan c s 0); exact R.
  - (* EWdKill, worker inside connect/poll *)
    match goal with |- Bound ?s2 => set (s1 := setw s i0 {| pc := pc w; ts := ts w; start := start w; conn := conn w; eintr := true; failed := failed w; reported := reported w |}) end.
    unfold Bound in *. rewrite Heqw in B. cbn [wd ws now].
    assert (P : forall i w1 t, nth_error (ws s1) i = Some w1 -> hang_due c i w1 = Some t ->
                now s1 <= t + WDOG /\ ((i < S i0)%nat -> now s1 <= t)).
    { unfold s1. cbn [ws setw now]. intros i w1 t Hw Hd. upd_cases.
      - unfold hang_due in Hd. cbn [pc ts eintr conn start] in Hd.
        repeat match type of Hd with context [match ?x with _ => _ end] => destruct x; try discriminate end.
      - destruct (B _ _ _ Hw Hd) as [B1 B2]. split; [exact B1|]. intros Hi. apply B2. lia. }
    pose proof (scan_result s1 (S i0) P) as R. unfold s1 in *. cbn [ws setw now] in *.
    match goal with |- match ?x with _ => _ end => destruct x end; exact R.
  - (* EWdKill, worker elsewhere: the signal has no effect *)
    set (s1 := setw s i0 w).
    unfold Bound in *. rewrite Heqw in B. cbn [wd ws now].
    assert (P : forall i w1 t, nth_error (ws s1) i = Some w1 -> hang_due c i w1 = Some t ->
                now s1 <= t + WDOG /\ ((i < S i0)%nat -> now s1 <= t)).
    { unfold s1. cbn [ws setw now]. intros i w1 t Hw Hd. upd_cases.
      - apply hang_due_pc in Hd. unfold blocked in Heqb0. destruct Hd as [Hd|Hd]; rewrite Hd in Heqb0; discriminate.
      - destruct (B _ _ _ Hw Hd) as [B1 B2]. split; [exact B1|]. intros Hi. apply B2. lia. }
    pose proof (scan_result s1 (S i0) P) as R. unfold s1 in *. cbn [ws setw now] in *.
    match goal with |- match ?x with _ => _ end => destruct x end; exact R.
  - (* cancel *)
    unfold Bound in *. cbn [wd ws now]. destruct (wd s) as [u|j].
    + destruct B as [B1 B2]. split; [exact B1|]. intros i w t Hw Hd.
      rewrite nth_error_map_wk in Hw. destruct (nth_error (ws s) i) as [w1|] eqn:E1; cbn in Hw; [|discriminate].
      inversion Hw; subst. eapply hang_due_cancel1 in Hd; [|eapply Hf; eauto]. eapply B2; eauto.
    + intros i w t Hw Hd.
      rewrite nth_error_map_wk in Hw. destruct (nth_error (ws s) i) as [w1|] eqn:E1; cbn in Hw; [|discriminate].
      inversion Hw; subst. eapply hang_due_cancel1 in Hd; [|eapply Hf; eauto]. eapply B; eauto.
  - (* tick *)
    destruct (calm_sleep _ (Ht eq_refl)) as (u & Hu & Hlt).
    unfold Bound in *. cbn [wd ws now]. rewrite Hu in *. destruct B as [B1 B2]. split; [lia|exact B2].
Qed.

Lemma invT_step s e s' : InvT s -> step c s e = Some s' -> (e = ETick -> calm s = true) -> InvT s'.
Proof.
  intros I H Ht. pose proof (bound_step _ _ _ I H Ht) as B. pose proof (fresh_step _ _ _ I H Ht) as F.
  constructor; [exact F| |]; unfold Bound in B.
  - intros u Hu. rewrite Hu in B. exact B.
  - intros j Hj. rewrite Hj in B. exact B.
Qed.

Lemma invT_urun t0 es s : urun (init c t0) es s -> InvT s.
Proof.
  remember (init c t0) as s0 eqn:E. induction 1 as [|s0 es s1 e s2 _ IH Hs Ht]; subst.
  - apply invT_init.
  - eapply invT_step; eauto.
Qed.

(* The deadline: on every run in which time advances only when every thread is blocked, a worker
   that hangs un-signalled inside connect() (state "connecting", positive connect timeout) or
   inside the read loop (state "reading", positive command timeout) is never seen later than
   its stamp + timeout + the watchdog period. *)
Theorem deadline t0 es s i w t : urun (init c t0) es s ->
  nth_error (ws s) i = Some w -> hang_due c i w = Some t -> now s <= t + WDOG.
Proof.
  intros U Hw Hd. pose proof (invT_bound _ (invT_urun _ _ _ U)) as B. unfold Bound in B.
  destruct (wd s) as [u|j].
  - destruct B as [B1 B2]. specialize (B2 _ _ _ Hw Hd). lia.
  - apply (B _ _ _ Hw Hd).
Qed.

(* an executable version of urun *)
Definition is_tick (e : ev) : bool := match e with ETick => true | _ => false end.
Fixpoint urunb (s : gst) (es : list ev) : option gst :=
  match es with
  | [] => Some s
  | e :: r => if is_tick e && negb (calm s) then None
              else match step c s e with Some s' => urunb s' r | None => None end
  end.
Lemma urun_cons s e s1 es s' : step c s e = Some s1 -> (e = ETick -> calm s = true) -> urun s1 es s' -> urun s (e :: es) s'.
Proof.
  intros Hs Ht U. induction U as [s1|s1 es s2 e' s3 U IH Hs' Ht'].
  - change [e] with ([] ++ [e]). eapply ur_snoc; eauto. constructor.
  - change (e :: es ++ [e']) with ((e :: es) ++ [e']). eapply ur_snoc; eauto.
Qed.
Lemma urunb_urun s es s' : urunb s es = Some s' -> urun s es s'.
Proof.
  revert s. induction es as [|e r IH]; intros s H; cbn [urunb] in H.
  - inversion H; subst. constructor.
  - destruct (is_tick e && negb (calm s)) eqn:E; [discriminate|].
    destruct (step c s e) as [s1|] eqn:Es; [|discriminate]. eapply urun_cons; eauto.
    intros ->. cbn in E. destruct (calm s); [reflexivity|discriminate].
Qed.

(* the watchdog decides to signal a slot only when that slot is overdue by its own clock reading *)
Theorem kill_only_when_overdue s e s' j : step c s e = Some s' -> wd s' = WdKilling j ->
  (e = EWdWake \/ exists i, e = EWdKill i) ->
  exists w, nth_error (ws s') j = Some w /\ killable c s' w = true.
Proof.
  intros H Hk [->|[i ->]]; inv_step H; cbn [wd ws] in *.
  - unfold wd_scan in Hk. destruct (first_from (killable c s) (ws s) 0) as [j'|] eqn:E; [|discriminate].
    inversion Hk; subst. destruct (first_from_some _ _ _ _ E) as (_ & (w & Hw & Hp) & _). exists w. split; [exact Hw|exact Hp].
  - unfold wd_scan in Hk. match type of Hk with match first_from ?p ?l ?k with _ => _ end = _ => destruct (first_from p l k) as [j'|] eqn:E end; [|discriminate].
    inversion Hk; subst. destruct (first_from_some _ _ _ _ E) as (_ & (w1 & Hw & Hp) & _). exists w1. split; [exact Hw|exact Hp].
  - unfold wd_scan in Hk. match type of Hk with match first_from ?p ?l ?k with _ => _ end = _ => destruct (first_from p l k) as [j'|] eqn:E end; [|discriminate].
    inversion Hk; subst. destruct (first_from_some _ _ _ _ E) as (_ & (w1 & Hw & Hp) & _). exists w1. split; [exact Hw|exact Hp].
Qed.

(* command timeout 0 means "no limit": a host that hangs mid-command is never selected *)
Lemma timeout0_never_abandons s w : tcmd c <= 0 -> ts w = TReading -> killable c s w = false.
Proof. intros H E. unfold killable. rewrite E. destruct (0 <? tcmd c) eqn:E1; [lia|reflexivity]. Qed.

End Facts.
