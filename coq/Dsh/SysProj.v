(* Signal-free runs of the timed system (Dsh/Sys.v), whatever the faults, project onto runs of the
   fanout protocol system (Dsh/Dispatch.v): the C03/C04 theorems therefore hold with refusing,
   hanging and timed-out hosts in the picture (C07: a failing host never harms the others). *)
From PV Require Import Dsh.Sys Dsh.SysFacts.
From PV Require Dsh.Dispatch Dsh.DispatchFacts.
From Coq Require Import ZifyBool.
Local Open Scope Z_scope.

Module D := Dsh.Dispatch.
Module DF := Dsh.DispatchFacts.

Definition pwpc (p : wpc) : D.wpc :=
  match p with
  | PNone => D.WNone
  | PCreated | PWantA | PHoldA | PConn0 => D.WStart
  | PInConn | PWantB | PHoldB | PPoll | PTerm | PWantC | PHoldC | PFlush => D.WConn
  | PTorn => D.WTorn | PHold0 => D.WHold | PSig => D.WSig | PExit => D.WExit
  end.
Definition pdpc (x : dpc) : D.dpc :=
  match x with
  | DLock => D.DLock | DCheck => D.DCheck | DWait => D.DWait | DWoken => D.DWoken | DUnlock => D.DUnlock
  | FLock => D.FLock | FCheck => D.FCheck | FWait => D.FWait | FWoken => D.FWoken | DDone => D.DDone | DExited => D.DExited
  end.
Definition pown (o : own) : D.owner :=
  match o with Free => D.Free | ByD => D.ByD | ByW i => D.ByW i | ByS => D.Free end.
Definition pw (w : wk) : D.wpc := pwpc (pc w).
Definition proj (s : gst) : D.st := D.mkst (idx s) (tc s) (pown (m0 s)) (pdpc (d s)) (map pw (ws s)).

Definition pev (e : ev) : option D.ev :=
  match e with
  | ELockD => Some D.ELockD | EWaitD => Some D.EWaitD | EWokenD => Some D.EWokenD | ECreate i => Some (D.ECreate i)
  | EUnlockD => Some D.EUnlockD | EExit => Some D.EExit
  | EConnBegin i => Some (D.EConn i) | EDestroy i => Some (D.EDestroy i) | ELock0 i => Some (D.ELockW i)
  | ESignal i => Some (D.ESignal i) | EUnlock0 i => Some (D.EUnlockW i) | ESpur => Some D.ESpur
  | _ => None
  end.
Fixpoint pevs (es : list ev) : list D.ev :=
  match es with [] => [] | e :: r => match pev e with Some e' => e' :: pevs r | None => pevs r end end.

Definition nosig (es : list ev) : Prop := forall sg, ~ In (ESigArrive sg) es.

Lemma map_updw l i x : map pw (updw l i x) = D.upd (map pw l) i (pw x).
Proof. revert i; induction l as [|h t IH]; intros [|i]; cbn; auto. rewrite IH. reflexivity. Qed.
Lemma upd_same l i x : nth_error l i = Some x -> D.upd l i x = l.
Proof. revert i; induction l as [|h t IH]; intros [|i] H; cbn in *; try discriminate; [congruence|]. rewrite IH; auto. Qed.
Lemma map_updw_same l i w x : nth_error l i = Some w -> pw x = pw w -> map pw (updw l i x) = map pw l.
Proof. intros H E. rewrite map_updw, E. apply upd_same. rewrite nth_error_map, H. reflexivity. Qed.

Lemma first_from_all p l k : (forall w, In w l -> p w = true) ->
  first_from p l k = if Nat.ltb k (length l) then Some k else None.
Proof.
  revert k. induction l as [|h t IH]; intros k H; cbn [first_from length]; [destruct k; reflexivity|].
  destruct k as [|k].
  - rewrite (H h) by (left; auto). reflexivity.
  - rewrite IH by (intros; apply H; right; auto).
    change (Nat.ltb (S k) (S (length t))) with (Nat.ltb k (length t)). destruct (Nat.ltb k (length t)); reflexivity.
Qed.

Lemma map_pw_repeat k : map pw (repeat wk0 k) = repeat D.WNone k.
Proof. induction k; cbn; [reflexivity|]. f_equal. assumption. Qed.

Lemma wake_pdpc x : D.wake (pdpc x) = pdpc (wake x).
Proof. destruct x; reflexivity. Qed.

Section P.
Variable c : cfg.
Hypothesis Hn : (0 < ntgt c)%nat.

(* what a signal-free run maintains *)
Record NS (s : gst) : Prop := {
  N_pend : pend s = None;
  N_sp : sp s = SIdle \/ sp s = SGone;
  N_canc : forall w, In w (ws s) -> not_canceled w = true;
  N_m0 : m0 s <> ByS;
  N_len : length (ws s) = ntgt c;
  N_idx : match d s with DLock | DCheck | DWait | DWoken | DUnlock => (idx s < ntgt c)%nat | _ => True end
}.

Lemma ns_init t0 : NS (init c t0).
Proof.
  constructor; cbn; auto; try discriminate.
  - intros w H. apply repeat_spec in H. subst. reflexivity.
  - apply repeat_length.
Qed.

Lemma in_updw l i x w : In w (updw l i x) -> w = x \/ In w l.
Proof. revert i; induction l as [|h t IH]; intros [|i] H; cbn in *; auto; destruct H as [H|H]; auto. apply IH in H. tauto. Qed.

Lemma nc_set w p t st' cn e fl rp : not_canceled w = true -> t = ts w -> not_canceled (mkwk p t st' cn e fl rp) = true.
Proof. intros H ->. exact H. Qed.

Ltac ws_nc Hc :=
  let w0 := fresh "w0" in let Hin := fresh "Hin" in
  intros w0 Hin; try (apply in_updw in Hin; destruct Hin as [->|Hin]); [|apply Hc; exact Hin].

Lemma sim_step s e s' : NS s -> step c s e = Some s' -> (forall sg, e <> ESigArrive sg) ->
  NS s' /\ match pev e with
           | Some e' => D.step (ntgt c) (f c) true (proj s) e' = Some (proj s')
           | None => proj s' = proj s
           end.
Proof.
  intros [Hp Hsp Hc Hm Hl Hi] H Hne.
  assert (Hff : first_from not_canceled (ws s) (idx s) = if Nat.ltb (idx s) (length (ws s)) then Some (idx s) else None)
    by (apply first_from_all; exact Hc).
  inv_step H; try congruence; try (destruct Hsp; congruence); try (exfalso; eapply Hne; reflexivity).
  all: split.
  (* ---- NS is kept ---- *)
  all: try (constructor; cbn [pend sp ws m0 d idx setd setw setw1 setsp]; rewrite ?updw_length, ?Heqd; auto; try congruence;
            try solve [intros w0 Hin; apply in_updw in Hin; destruct Hin as [->|Hin]; [|apply Hc; exact Hin];
                       match goal with Hw : nth_error (ws _) _ = Some ?w |- _ =>
                         pose proof (Hc _ (nth_error_In _ _ Hw)) as Hcw; unfold not_canceled in *; cbn [ts set_pc] in *;
                         try rewrite Hcw; try exact Hcw; try reflexivity;
                         try (destruct (tst_eqb (ts w) TCanceled); [discriminate|reflexivity]);
                         try (destruct (failed w); reflexivity) end]).
  all: try solve [intros w0 Hin; apply in_updw in Hin; destruct Hin as [->|Hin]; [|apply Hc; exact Hin];
                  destruct (first_from_some _ _ _ _ Heqo) as (_ & (w & Hw & Hnc) & _); rewrite (nth_error_nth_wk _ _ _ Hw); exact Hnc].
  all: try solve [rewrite Hl in Hff; destruct (Nat.ltb_spec (idx s) (ntgt c)); [inversion Hff; subst; assumption|discriminate]].
  all: try solve [apply Nat.ltb_lt; assumption].
  (* ---- the projected step ---- *)
  all: cbn [pev]; unfold proj, D.step;
       cbn [D.mtx D.d D.idx D.tc D.w idx tc m0 d ws setd setw setw1 setsp];
       repeat match goal with
              | H : m0 _ = _ |- context [m0 _] => rewrite H
              | H : d _ = _ |- context [d _] => rewrite H
              end;
       cbn [pown pdpc D.wake wake].
  all: try reflexivity.
  all: try solve [f_equal; symmetry; eapply map_updw_same; [eassumption|]; unfold pw; cbn [pc set_pc];
                  match goal with H : pc _ = _ |- _ => rewrite H end; reflexivity].
  all: repeat match goal with
              | H : ?b = true |- context [if ?b then _ else _] => rewrite H
              | H : ?b = false |- context [if ?b then _ else _] => rewrite H
              end.
  all: try reflexivity.
  all: try solve [exfalso; rewrite Hff, Hl in *; destruct (Nat.ltb_spec (idx s) (ntgt c)); [discriminate|lia]].
  all: try solve [f_equal; eapply map_updw_same; [eassumption|]; unfold pw; cbn [pc set_pc];
                  match goal with H : pc _ = _ |- _ => rewrite H end; reflexivity].
  all: try solve [exfalso; match goal with Hw : nth_error (ws _) _ = Some ?w, Hb : tst_eqb (ts ?w) TCanceled = true |- _ =>
                    pose proof (Hc _ (nth_error_In _ _ Hw)) as Hcw; unfold not_canceled in Hcw; rewrite Hb in Hcw; discriminate end].
  (* worker events seen by the protocol system *)
  all: try solve [rewrite nth_error_map;
                  match goal with Hw : nth_error (ws _) _ = Some ?w |- _ => rewrite Hw end; cbn [option_map]; unfold pw at 1;
                  match goal with H : pc _ = _ |- _ => rewrite H end; cbn [pwpc]; rewrite map_updw; unfold pw at 2; cbn [pc set_pc pwpc];
                  rewrite ?wake_pdpc; reflexivity].
  all: try solve [f_equal; eapply map_updw_same; [eassumption|]; reflexivity].
  - (* ECreate *)
    rewrite Hl in Hff. destruct (Nat.ltb_spec (idx s) (ntgt c)) as [Hlt|]; [|discriminate]. inversion Hff; subst n.
    rewrite Heqb, Nat.eqb_refl. cbn [andb]. apply Nat.ltb_lt in Hlt. rewrite Hlt. rewrite map_updw. reflexivity.
  - (* ESignal keeps the index bound *)
    destruct (d s); cbn [wake]; auto.
Qed.

Lemma sim_run_gen s0 es s : NS s0 -> run c s0 es = Some s -> nosig es ->
  NS s /\ D.run (ntgt c) (f c) true (proj s0) (pevs es) = Some (proj s).
Proof.
  revert s0. induction es as [|e r IH]; intros s0 H0 Hr Hs; cbn [run pevs] in *.
  - inversion Hr; subst. split; [exact H0|reflexivity].
  - destruct (step c s0 e) as [s1|] eqn:E; [|discriminate].
    assert (Hne : forall sg, e <> ESigArrive sg) by (intros sg ->; apply (Hs sg); left; reflexivity).
    destruct (sim_step _ _ _ H0 E Hne) as [H1 Hst].
    assert (Hs' : nosig r) by (intros sg Hin; apply (Hs sg); right; exact Hin).
    destruct (IH _ H1 Hr Hs') as [H2 Hrun]. split; [exact H2|].
    destruct (pev e) as [e'|]; [cbn [D.run]; rewrite Hst; exact Hrun|rewrite <- Hst; exact Hrun].
Qed.

Lemma proj_init t0 : proj (init c t0) = D.init (ntgt c).
Proof. unfold proj, init, D.init. cbn. f_equal. apply map_pw_repeat. Qed.

Lemma sim_run t0 es s : run c (init c t0) es = Some s -> nosig es ->
  NS s /\ D.run (ntgt c) (f c) true (D.init (ntgt c)) (pevs es) = Some (proj s).
Proof. intros Hr Hs. rewrite <- (proj_init t0). apply sim_run_gen; auto. apply ns_init. Qed.

(* counting events on both sides *)
Definition nevs (p : ev -> bool) (es : list ev) : nat := length (filter p es).
Definition is_create (i : nat) (e : ev) : bool := match e with ECreate j => Nat.eqb i j | _ => false end.
Definition is_connbegin (i : nat) (e : ev) : bool := match e with EConnBegin j => Nat.eqb i j | _ => false end.
Definition is_destroy (i : nat) (e : ev) : bool := match e with EDestroy j => Nat.eqb i j | _ => false end.

Lemma nevs_pevs (p : ev -> bool) (q : D.ev -> bool) es :
  (forall e, p e = match pev e with Some e' => q e' | None => false end) -> nevs p es = DF.nev q (pevs es).
Proof.
  intros H. unfold nevs, DF.nev. induction es as [|e r IH]; cbn [filter pevs]; [reflexivity|].
  rewrite (H e). destruct (pev e) as [e'|]; [|exact IH]. cbn [filter]. destruct (q e'); cbn [length]; auto.
Qed.
Lemma nevs_create i es : nevs (is_create i) es = DF.nev (DF.ev_create i) (pevs es).
Proof. apply nevs_pevs. intros []; reflexivity. Qed.
Lemma nevs_conn i es : nevs (is_connbegin i) es = DF.nev (DF.ev_conn i) (pevs es).
Proof. apply nevs_pevs. intros []; reflexivity. Qed.
Lemma nevs_destroy i es : nevs (is_destroy i) es = DF.nev (DF.ev_destroy i) (pevs es).
Proof. apply nevs_pevs. intros []; reflexivity. Qed.
Lemma in_exit_pevs es : In EExit es -> In D.EExit (pevs es).
Proof.
  induction es as [|e r IH]; cbn [In pevs]; [tauto|]. intros [->|H]; [left; reflexivity|].
  destruct (pev e); [right|]; auto.
Qed.

Lemma inflight_proj s : inflight s = D.inflight (proj s).
Proof.
  unfold inflight, D.inflight, D.cnt, proj. cbn [D.w]. f_equal.
  induction (ws s) as [|w t IH]; cbn [filter map]; [reflexivity|].
  unfold pw at 1. destruct (pc w); cbn [wpc_inflight pwpc D.wpc_eqb length]; rewrite IH; reflexivity.
Qed.

Hypothesis Hf : 1 <= f c.

(* every target at most once and in order, whatever the faults and time-outs *)
Theorem faults_once t0 es s i : run c (init c t0) es = Some s -> nosig es ->
  (nevs (is_create i) es <= 1)%nat /\ (nevs (is_connbegin i) es <= nevs (is_create i) es)%nat /\
  (nevs (is_destroy i) es <= nevs (is_connbegin i) es)%nat /\ (nevs (is_create i) es = 1%nat -> (i < ntgt c)%nat).
Proof.
  intros Hr Hs. destruct (sim_run _ _ _ Hr Hs) as [_ Hd].
  rewrite nevs_create, nevs_conn, nevs_destroy. eapply DF.started_at_most_once; eauto.
Qed.

(* pdsh returns only after every target - healthy or not - was started once, torn down once and
   has signalled its completion *)
Theorem faults_exit_after_all t0 es s : run c (init c t0) es = Some s -> nosig es -> In EExit es ->
  tc s = 0 /\ forall i, (i < ntgt c)%nat ->
    (exists w, nth_error (ws s) i = Some w /\ pc w = PExit) /\
    nevs (is_create i) es = 1%nat /\ nevs (is_connbegin i) es = 1%nat /\ nevs (is_destroy i) es = 1%nat.
Proof.
  intros Hr Hs Hin. destruct (sim_run _ _ _ Hr Hs) as [_ Hd].
  destruct (DF.exit_after_all _ _ _ _ Hn Hf Hd (in_exit_pevs _ Hin)) as [Htc Hall]. split; [exact Htc|].
  intros i Hi. destruct (Hall i Hi) as (Hw & H1 & H2 & H3). rewrite nevs_create, nevs_conn, nevs_destroy.
  split; [|auto]. unfold proj in Hw. cbn [D.w] in Hw. rewrite nth_error_map in Hw.
  destruct (nth_error (ws s) i) as [w|]; cbn in Hw; [|discriminate]. exists w. split; [reflexivity|].
  inversion Hw as [Hp]. unfold pw in Hp. destruct (pc w); cbn in Hp; try discriminate. reflexivity.
Qed.

(* the fanout bound with failing hosts in the picture *)
Theorem faults_bound t0 es s : run c (init c t0) es = Some s -> nosig es -> inflight s <= f c /\ 0 <= tc s <= f c.
Proof.
  intros Hr Hs. destruct (sim_run _ _ _ Hr Hs) as [_ Hd].
  destruct (DF.fanout_bound _ _ _ _ Hn Hf Hd) as (H1 & H2 & H3). rewrite inflight_proj. cbn [D.tc proj] in *. lia.
Qed.
End P.
