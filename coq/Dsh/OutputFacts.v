(* C05/C06 proofs: the output path emits exactly the records of the stream.
   The development is split over
     Dsh/OutputDomain.v  the definitions the statements use (script, stream, domain)
     Dsh/OutputAbs.v     lines, chunks, marker search, C strings (lists only)
     Dsh/OutputSteps.v   write_from_fd(-1), _flush_lines, the tail loop on the abstract FIFO
     Base/ShuffleFacts.v interleavings
   and concluded here: the read loop, the whole stream, the label, C05's identity. *)
From PV Require Import Cbuf.CbufDefs Cbuf.CbufSpec Cbuf.CbufFacts Dsh.Output Dsh.OutputSpec Dsh.OutputDomain.
From PV Require Import Dsh.OutputAbs Dsh.OutputSteps Base.Shuffle.
From PV Require Export Base.ShuffleFacts.
Local Open Scope N_scope.

(* the part of the domain that every suffix of the stream inherits *)
Definition dom (x : octx) (st : bytes) : Prop :=
  ~ In 0 st /\ lines_ok st /\ (read_rc x = true -> find_sub RC_MAGIC st = None).

Lemma dom_tail x a b : dom x (a ++ b) -> dom x (snd (sl a) ++ b).
Proof.
  intros (Z & L & K). unfold dom. csplit.
  - intros Hin. apply Z. rewrite (sl_concat a), <- app_assoc. apply in_or_app. right. exact Hin.
  - apply lines_ok_tail. exact L.
  - intros Hr. specialize (K Hr). rewrite (sl_concat a), <- app_assoc in K.
    apply find_sub_none_app in K. tauto.
Qed.

Lemma dom_head x a b : dom x (a ++ b) -> ~ In 0 a /\ (read_rc x = true -> find_sub RC_MAGIC a = None).
Proof.
  intros (Z & L & K). split.
  - intros Hin. apply Z. apply in_or_app. left. exact Hin.
  - intros Hr. specialize (K Hr). apply find_sub_none_app in K. tauto.
Qed.

(* ---------- the read loop: _handle_rcmd_stdout/_stderr called until end of file ---------- *)
Lemma handle_loop_spec : forall fuel x c s rc acc, Inv c -> good c -> nonl (abs c) -> script_ok s ->
  dom x (abs c ++ stream_of s) -> (script_size s < fuel)%nat ->
  exists c' rc', handle_loop fuel x c s rc acc =
                   (c', rc', acc ++ map (emit x) (fst (sl (abs c ++ stream_of s)))) /\
    Inv c' /\ abs c' = snd (sl (abs c ++ stream_of s)).
Proof.
  induction fuel as [|f IH]; intros x c s rc acc H G Hn Hok D Hf; [lia|].
  cbn [handle_loop]. unfold do_output.
  assert (Hu : used c < CBUF_MAXSIZE \/ stream_of s = []).
  { destruct D as (_ & L & _). pose proof (partial_bound _ _ Hn L) as B. rewrite abs_length in B.
    destruct B; [left; lia|right; auto]. }
  destruct (wfd_step c s H G Hu Hok) as (c1 & s1 & r & E & I1 & G1 & Ok1 & R). rewrite E.
  destruct r as [n nd| |].
  - (* data arrived *)
    destruct R as (Hpos & dl & S1 & A1 & Sz).
    rewrite S1, app_assoc, <- A1 in D.
    destruct (dom_head _ _ _ D) as [Z1 M1].
    destruct (flush_lines_spec (S (N.to_nat (used c1))) x c1 rc [] I1 ltac:(rewrite abs_length; lia) Z1 M1)
      as (c2 & rc2 & E2 & I2 & A2 & M2).
    rewrite E2. cbn [app].
    assert (Er : (Z.of_N n <=? 0)%Z = false) by lia. rewrite Er.
    assert (G2 : good c2) by (eapply good_meta; eauto).
    assert (N2 : nonl (abs c2)) by (rewrite A2; apply sl_tail_nonl).
    apply dom_tail in D. rewrite <- A2 in D.
    destruct (IH x c2 s1 rc2 (acc ++ map (emit x) (fst (sl (abs c1)))) I2 G2 N2 Ok1 D ltac:(lia))
      as (c' & rc' & E' & I' & A').
    exists c', rc'. rewrite E'. rewrite S1, app_assoc, <- A1. rewrite (sl_app (abs c1)). cbn [fst snd].
    rewrite <- A2. rewrite map_app, app_assoc. auto.
  - (* EAGAIN *)
    destruct R as (A1 & S1 & Sz). change (1 <=? 0)%Z with false. cbv iota. rewrite app_nil_r.
    rewrite <- A1, <- S1 in D.
    assert (N1 : nonl (abs c1)) by (rewrite A1; auto).
    destruct (IH x c1 s1 rc acc I1 G1 N1 Ok1 D ltac:(lia)) as (c' & rc' & E' & I' & A').
    exists c', rc'. rewrite E', A1, S1 in *. auto.
  - (* end of file *)
    destruct R as (A1 & S1). rewrite S1, app_nil_r in *. rewrite <- A1 in D, Hn.
    destruct D as (Z1 & _ & M1).
    destruct (flush_lines_spec (S (N.to_nat (used c1))) x c1 rc [] I1 ltac:(rewrite abs_length; lia) Z1 M1)
      as (c2 & rc2 & E2 & I2 & A2 & M2).
    rewrite E2. change (0 <=? 0)%Z with true. cbv iota. cbn [app].
    exists c2, rc2. rewrite <- A1. auto.
Qed.

(* ---------- the whole stream ---------- *)
Lemma in_domain_wide_dom x st : in_domain_wide x st -> dom x st.
Proof.
  unfold in_domain_wide, dom, lines_ok. rewrite split_lines_sl. tauto.
Qed.

Lemma in_domain_wide_of x st : in_domain x st -> in_domain_wide x st.
Proof.
  unfold in_domain, in_domain_wide, line_ok. intros (A & B & C & D). csplit; auto. lia.
Qed.

Lemma emit_ctx x b : emit (mkoctx (labels x) (keepdom x) (host x) b) = emit x.
Proof. reflexivity. Qed.

Lemma calls_are_records_wide : forall x s, script_ok s -> in_domain_wide x (stream_of s) ->
  snd (run_stream x s) = records (emit x) (stream_of s).
Proof.
  intros x s Hok D. apply in_domain_wide_dom in D. unfold run_stream.
  destruct (create CBUF_MINSIZE CBUF_MAXSIZE) as [c0|] eqn:Ec; [|discriminate Ec].
  pose proof (good_create c0 Ec) as G0. apply inv_create in Ec as (I0 & A0 & _).
  assert (N0 : nonl (abs c0)) by (rewrite A0; unfold nonl; cbn; tauto).
  assert (D0 : dom x (abs c0 ++ stream_of s)) by (rewrite A0; exact D).
  destruct (handle_loop_spec (S (S (script_size s))) x c0 s None [] I0 G0 N0 Hok D0 ltac:(lia))
    as (c1 & rc & E & I1 & A1).
  rewrite E. cbn [snd app]. rewrite A0 in *. cbn [app] in *.
  unfold records. rewrite split_lines_sl. destruct (sl (stream_of s)) as [ls t] eqn:Es. cbn [fst snd] in *.
  f_equal.
  (* _flush_output: no complete line is left, the rest goes out in pieces *)
  assert (Zt : ~ In 0 (abs c1)).
  { destruct D as (Z & _). intros Hin. apply Z. rewrite (sl_concat (stream_of s)), Es. cbn [fst snd].
    apply in_or_app. right. rewrite <- A1. exact Hin. }
  assert (Nt : nonl (abs c1)) by (rewrite A1; pose proof (sl_tail_nonl (stream_of s)) as T; rewrite Es in T; exact T).
  unfold flush_output.
  destruct (flush_lines_spec (S (N.to_nat (used c1))) (mkoctx (labels x) (keepdom x) (host x) false) c1 None []
              I1 ltac:(rewrite abs_length; lia) Zt ltac:(cbn [read_rc]; discriminate))
    as (c2 & rc2 & E2 & I2 & A2 & M2).
  rewrite E2. rewrite (sl_nonl _ Nt) in *. cbn [fst snd map app] in *.
  rewrite flush_tail_spec by (auto; rewrite A2; auto). rewrite A2, A1. reflexivity.
Qed.

Lemma calls_are_records : forall x s, script_ok s -> in_domain x (stream_of s) ->
  snd (run_stream x s) = records (emit x) (stream_of s).
Proof. intros x s Hok D. apply calls_are_records_wide; auto. apply in_domain_wide_of; auto. Qed.

(* ---------- the label ---------- *)
Lemma label_spec : forall keep h, (length h < N.to_nat LINEBUFSIZE)%nat ->
  label keep h = match h with
                 | c :: _ => if negb (is_digit c) && negb keep then fst (split_at 46 h) else h
                 | [] => [] end.
Proof.
  intros keep h Hl. unfold label. rewrite firstn_all2 by lia. destruct h; reflexivity.
Qed.

(* ---------- C05: the texts, labels aside, concatenate to the stream ---------- *)
Lemma stream_identity_wide : forall x s, script_ok s -> in_domain_wide x (stream_of s) ->
  exists texts, snd (run_stream x s) = with_labels x texts /\ concat (map snd texts) = stream_of s.
Proof.
  intros x s Hok D. rewrite (calls_are_records_wide x s Hok D). unfold records. rewrite split_lines_sl.
  pose proof (sl_concat (stream_of s)) as C. destruct (sl (stream_of s)) as [ls t]. cbn [fst snd] in C.
  pose proof (chunks_f_concat _ flush_k_pos (length t) t (le_n _)) as CC. fold (chunks (N.to_nat FLUSH_CHUNK - 1) t) in CC.
  exists (map (fun l => (true, l)) ls ++
          match chunks (N.to_nat FLUSH_CHUNK - 1) t with [] => [] | p :: ps => (true, p) :: map (fun q => (false, q)) ps end).
  unfold with_labels. rewrite !map_app, !map_map. cbn [fst snd]. split.
  - f_equal. destruct (chunks (N.to_nat FLUSH_CHUNK - 1) t) as [|p ps]; [reflexivity|].
    cbn [map fst snd]. rewrite map_map. cbn [fst snd]. rewrite map_id. reflexivity.
  - rewrite concat_app, map_id. rewrite C. f_equal. etransitivity; [|exact CC].
    destruct (chunks (N.to_nat FLUSH_CHUNK - 1) t) as [|p ps]; [reflexivity|].
    cbn [map fst snd concat]. rewrite map_map. cbn [snd]. rewrite map_id. reflexivity.
Qed.

Lemma stream_identity : forall x s, script_ok s -> in_domain x (stream_of s) ->
  exists texts, snd (run_stream x s) = with_labels x texts /\ concat (map snd texts) = stream_of s.
Proof. intros x s Hok D. apply stream_identity_wide; auto. apply in_domain_wide_of; auto. Qed.
