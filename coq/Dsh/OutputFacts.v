(* C05/C06 proofs: the output path emits exactly the records of the stream. *)
From PV Require Import Cbuf.CbufDefs Cbuf.CbufSpec Cbuf.CbufFacts Dsh.Output Dsh.OutputSpec.
Local Open Scope N_scope.
