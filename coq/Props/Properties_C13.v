(* C13 - the circular buffer is a loss-free FIFO with exact drop accounting.
   Statements only; proofs in Cbuf/CbufFacts.v.  `abs c` is the list of unread bytes,
   oldest first; every statement is for all buffers satisfying the invariant, which holds
   initially and is preserved by every operation (so: for all operation histories). *)
From PV Require Import Cbuf.CbufDefs Cbuf.CbufSpec Cbuf.CbufFacts.
Local Open Scope N_scope.

(* ---- the invariant (the C's own cbuf_is_valid, plus the ring equation) ---- *)
Theorem C13_inv_create : forall mn mx c, create mn mx = Some c -> Inv c /\ abs c = [] /\ size c = mn.
Proof. exact inv_create. Qed.
Print Assumptions C13_inv_create.

Theorem C13_inv_write : forall c bs, Inv c -> Inv (fst (write c bs)).
Proof. exact inv_write. Qed.
Print Assumptions C13_inv_write.
Theorem C13_inv_write_from_fd : forall c s len, Inv c -> Inv (fst (fst (write_from_fd c s len))).
Proof. exact inv_write_from_fd. Qed.
Print Assumptions C13_inv_write_from_fd.
Theorem C13_inv_read : forall c len, Inv c -> Inv (fst (read c len)).
Proof. exact inv_read. Qed.
Print Assumptions C13_inv_read.
Theorem C13_inv_drop : forall c len, Inv c -> Inv (fst (drop c len)).
Proof. exact inv_drop. Qed.
Print Assumptions C13_inv_drop.
Theorem C13_inv_read_line : forall c len lines, Inv c -> Inv (fst (fst (read_line c len lines))).
Proof. exact inv_read_line. Qed.
Print Assumptions C13_inv_read_line.
Theorem C13_inv_write_line : forall c str, Inv c -> Inv (fst (write_line c str)).
Proof. exact inv_write_line. Qed.
Print Assumptions C13_inv_write_line.

(* never more than its maximum, never a size outside [min,max], counters agree with contents *)
Theorem C13_bounds : forall c, Inv c ->
  minsize c <= size c <= maxsize c /\ used c <= size c /\ N.of_nat (length (abs c)) = used c /\
  length (data c) = N.to_nat (size c + 1) /\ i_in c <= size c /\ i_out c <= size c.
Proof. exact inv_bounds. Qed.
Print Assumptions C13_bounds.

(* ---- writes: nothing lost or invented; the oldest bytes go, counted exactly ---- *)
(* all three modes at once: the new contents are the last size' bytes of old ++ accepted,
   where accepted is a prefix of the data (all of it in WRAP_MANY mode), the return value is
   its length and ndropped is exactly the number of old/new bytes that no longer fit *)
Theorem C13_write : forall c bs c' n nd, Inv c -> write c bs = (c', WOk n nd) ->
  abs c' = lastn (N.to_nat (size c')) (abs c ++ firstn (N.to_nat n) bs) /\
  nd = used c + n - size c' /\ n <= N.of_nat (length bs) /\
  (overwrite c = WRAP_MANY -> n = N.of_nat (length bs)) /\
  (overwrite c = NO_DROP -> nd = 0 /\ n = N.min (N.of_nat (length bs)) (size c' - used c)) /\
  (overwrite c = WRAP_ONCE -> n = N.min (N.of_nat (length bs)) (size c')).
Proof. exact write_refines. Qed.
Print Assumptions C13_write.

(* a refused or empty write changes nothing *)
Theorem C13_write_refused : forall c bs c', Inv c -> write c bs = (c', WErr) ->
  abs c' = abs c /\ overwrite c = NO_DROP /\ used c' = size c' /\ bs <> [].
Proof. exact write_refused. Qed.
Print Assumptions C13_write_refused.

(* the buffer grows before it drops: bytes are dropped only at maximum size *)
Theorem C13_drop_only_at_max : forall c bs c' n nd, Inv c -> write c bs = (c', WOk n nd) -> 0 < nd -> size c' = maxsize c.
Proof. exact write_drop_only_at_max. Qed.
Print Assumptions C13_drop_only_at_max.

(* ---- reads: exactly the oldest bytes, in order, each once ---- *)
Theorem C13_read : forall c len, Inv c ->
  snd (read c len) = firstn (N.to_nat len) (abs c) /\ abs (fst (read c len)) = skipn (N.to_nat len) (abs c).
Proof. exact read_refines. Qed.
Print Assumptions C13_read.
Theorem C13_peek : forall c len, Inv c -> peek c len = firstn (N.to_nat len) (abs c).
Proof. exact peek_refines. Qed.
Print Assumptions C13_peek.
Theorem C13_drop : forall c len, Inv c ->
  abs (fst (drop c len)) = skipn (N.to_nat (snd (drop c len))) (abs c) /\
  snd (drop c len) = match len with None => used c | Some l => N.min l (used c) end.
Proof. exact drop_refines. Qed.
Print Assumptions C13_drop.

(* ---- descriptor writes: what is appended is exactly what the descriptor delivered ---- *)
Fixpoint script_bytes (s : list fdev) : bytes :=
  match s with [] => [] | Avail b :: r => b ++ script_bytes r | _ :: r => script_bytes r end.
Theorem C13_write_from_fd : forall c s len c' s' n nd, Inv c -> write_from_fd c s len = (c', s', WOk n nd) ->
  exists delivered, script_bytes s = delivered ++ script_bytes s' /\ N.of_nat (length delivered) = n /\
    abs c' = lastn (N.to_nat (size c')) (abs c ++ delivered) /\ nd = used c + n - size c'.
Proof. exact write_from_fd_refines. Qed.
Print Assumptions C13_write_from_fd.
Theorem C13_write_from_fd_nothing : forall c s len c' s' r, Inv c -> write_from_fd c s len = (c', s', r) ->
  (r = WErr \/ r = WEof) -> abs c' = abs c /\ script_bytes s' = script_bytes s.
Proof. exact write_from_fd_nothing. Qed.
Print Assumptions C13_write_from_fd_nothing.

(* ---- lines: whole newline-terminated lines only, all or nothing; counters agree ---- *)
Theorem C13_lines_used : forall c, Inv c -> lines_used c = count_nl (abs c).
Proof. exact lines_used_refines. Qed.
Print Assumptions C13_lines_used.

(* asking for k >= 1 lines: either the buffer holds k newlines and exactly the shortest prefix
   containing them is consumed (the text placed in the caller's buffer is its first len-1 bytes),
   or nothing happens at all *)
Theorem C13_read_line : forall c len k, Inv c -> (0 < k)%Z ->
  match lines_prefix (abs c) (Z.to_nat k) with
  | Some n => read_line c len k =
                (fst (fst (read_line c len k)), N.of_nat n,
                 if 0 <? len then Some (firstn (Nat.min n (N.to_nat (len - 1))) (abs c)) else None) /\
              abs (fst (fst (read_line c len k))) = skipn n (abs c)
  | None => read_line c len k = (c, 0, None)
  end.
Proof. exact read_line_refines. Qed.
Print Assumptions C13_read_line.

(* lines = -1: as many whole lines as fit in len-1 characters *)
Theorem C13_read_line_max : forall c len, Inv c ->
  let n := whole_lines (abs c) (N.to_nat (len - 1)) in
  snd (fst (read_line c len (-1))) = N.of_nat n /\ abs (fst (fst (read_line c len (-1)))) = skipn n (abs c).
Proof. exact read_line_max_refines. Qed.
Print Assumptions C13_read_line_max.

(* ---- every history: fold the invariant over any list of operations ---- *)
Inductive op := OWrite (bs : bytes) | OWriteFd (s : list fdev) (len : option N) | ORead (len : N) | ODrop (len : option N)
              | OReadLine (len : N) (lines : Z) | OWriteLine (s : bytes) | OMode (o : ovw) | OFlush.
Definition step (c : cbuf) (o : op) : cbuf :=
  match o with
  | OWrite bs => fst (write c bs) | OWriteFd s len => fst (fst (write_from_fd c s len))
  | ORead len => fst (read c len) | ODrop len => fst (drop c len)
  | OReadLine len lines => fst (fst (read_line c len lines)) | OWriteLine s => fst (write_line c s)
  | OMode o => opt_set c o | OFlush => flush c
  end.
Theorem C13_all_histories : forall mn mx c ops, create mn mx = Some c -> Inv (fold_left step ops c).
Proof.
  intros mn mx c ops H. apply inv_create in H as [H _]. revert c H.
  induction ops as [|o ops IH]; intros c H; cbn [fold_left]; [exact H|]. apply IH.
  destruct o; cbn [step]; auto using inv_write, inv_write_from_fd, inv_read, inv_drop, inv_read_line, inv_write_line, inv_opt_set, inv_flush.
Qed.
Print Assumptions C13_all_histories.
