(* C14 - printing a host list is lossless when it fits and safe when it does not.
   Statements only; proofs in Hostlist/HLPrintFacts.v.
   In the model every store into the caller's buffer is bounds-checked against the size
   given (the buffer IS a list of that many bytes) and an out-of-range store is Fault. *)
From PV Require Import Base.DecimalFacts Hostlist.HLDefs Hostlist.HLFacts Hostlist.HLPrint Hostlist.HLPrintFacts.
Local Open Scope N_scope.

Definition no_fault {A} (o : outcome A) : Prop := match o with Fault _ => False | _ => True end.

(* not one byte beyond the size given: every list, every buffer size (including 0) *)
Theorem C14_ranged_no_write_past_n : forall l buf, Forall hr_ok l -> no_fault (ranged_string l buf).
Proof. exact ranged_no_fault. Qed.
Print Assumptions C14_ranged_no_write_past_n.

Theorem C14_deranged_no_write_past_n : forall l buf, Forall hr_ok l -> buf <> [] -> no_fault (deranged_string l buf).
Proof. exact deranged_no_fault. Qed.
Print Assumptions C14_deranged_no_write_past_n.

(* the printers leave the buffer size unchanged and always leave a NUL-terminated string *)
Theorem C14_ranged_terminated : forall l buf b r, Forall hr_ok l -> buf <> [] ->
  ranged_string l buf = Ok (b, r) -> length b = length buf /\ exists t, cstring b = Some t.
Proof. exact ranged_terminated. Qed.
Print Assumptions C14_ranged_terminated.

(* expanded form: exact characterisation.  It fits iff the comma-joined expansion is
   shorter than the buffer; then the text is exactly that and the length is reported;
   otherwise truncation is reported and the buffer holds a terminated proper prefix. *)
Definition no_nul (l : list hr) : Prop := Forall (fun name => ~ In 0 name) (expand l).

Theorem C14_deranged_fit : forall l buf, Forall hr_ok l -> no_nul l -> buf <> [] ->
  (length (join 44 (expand l)) < length buf)%nat ->
  exists b, deranged_string l buf = Ok (b, Some (length (join 44 (expand l)))) /\
            cstring b = Some (join 44 (expand l)).
Proof. exact deranged_fit. Qed.
Print Assumptions C14_deranged_fit.

Theorem C14_deranged_truncation : forall l buf, Forall hr_ok l -> no_nul l -> buf <> [] ->
  (length buf <= length (join 44 (expand l)))%nat ->
  exists b t, deranged_string l buf = Ok (b, None) /\ cstring b = Some t /\
              is_prefix t (join 44 (expand l)) = true /\ (length t < length buf)%nat.
Proof. exact deranged_truncation. Qed.
Print Assumptions C14_deranged_truncation.

Example C14_nonvacuous :
  let l := [mkhr [97] 8 11 1 false; mkhr [98] 0 0 0 true] in
  Forall hr_ok l /\
  (exists b, deranged_string l (repeat 170 16) = Ok (b, Some 15%nat) /\ cstring b = Some (join 44 (expand l))) /\
  (exists b, deranged_string l (repeat 170 15) = Ok (b, None)) /\
  (exists b, ranged_string l (repeat 170 10) = Ok (b, Some 9%nat) /\ cstring b = Some [97;91;56;45;49;49;93;44;98]).
Proof. cbn zeta. split; [repeat constructor; cbn; lia|]. repeat split; eexists; vm_compute; split || idtac; reflexivity. Qed.
