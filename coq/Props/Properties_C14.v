(* C14 - printing a host list is lossless when it fits and safe when it does not.
   Statements only; proofs in Hostlist/HLPrintFacts.v.
   In the model every store into the caller's buffer is bounds-checked against the size
   given (the buffer IS a list of that many bytes) and an out-of-range store is Fault. *)
From PV Require Import Base.DecimalFacts Hostlist.HLDefs Hostlist.HLFacts Hostlist.HLPrint Hostlist.HLPrintFacts Hostlist.HLRangedFit Hostlist.HLRangedTrunc Hostlist.HLSpec Hostlist.HLParseFacts Hostlist.HLRangedRoundtrip.
Local Open Scope N_scope.

Definition no_fault {A} (o : outcome A) : Prop := match o with Fault _ => False | _ => True end.

(* not one byte beyond the size given: every list, every buffer size (including 0) *)
Theorem C14_ranged_no_write_past_n : forall l buf, Forall hr_ok l -> no_fault (ranged_string l buf).
Proof. exact ranged_no_fault. Qed.
Print Assumptions C14_ranged_no_write_past_n.

Theorem C14_deranged_no_write_past_n : forall l buf, Forall hr_ok l -> buf <> [] -> no_fault (deranged_string l buf).
Proof. exact deranged_no_fault. Qed.
Print Assumptions C14_deranged_no_write_past_n.

(* the printers leave the buffer size unchanged and always leave a NUL-terminated string *)
Theorem C14_ranged_terminated : forall l buf b r, Forall hr_ok l -> buf <> [] ->
  ranged_string l buf = Ok (b, r) -> length b = length buf /\ exists t, cstring b = Some t.
Proof. exact ranged_terminated. Qed.
Print Assumptions C14_ranged_terminated.

(* compressed form, when it fits: the buffer receives exactly [ranged_text l] - a pure function of the list -, terminated, and its
   length is what is reported; so the result does not depend on the buffer's size or on what the buffer held before.
   [ranged_text] is the bracket groups joined by commas ([gtexts]: prefix, then - if the group has more than one host -
   '[', the ranges separated by commas, ']').  The reading back of that text is the subject of the correspondence check
   (every printed text is parsed by the implementation and by the parser model), not of a theorem. *)
Theorem C14_ranged_fit : forall l buf, ~ In 0 (ranged_text l) -> (length (ranged_text l) < length buf)%nat ->
  exists b, ranged_string l buf = Ok (b, Some (length (ranged_text l))) /\ cstring b = Some (ranged_text l).
Proof. exact ranged_fit. Qed.
Print Assumptions C14_ranged_fit.

Theorem C14_ranged_fit_independent : forall l buf1 buf2 b1 b2 r1 r2, ~ In 0 (ranged_text l) ->
  (length (ranged_text l) < length buf1)%nat -> (length (ranged_text l) < length buf2)%nat ->
  ranged_string l buf1 = Ok (b1, r1) -> ranged_string l buf2 = Ok (b2, r2) ->
  r1 = r2 /\ cstring b1 = cstring b2.
Proof. exact ranged_fit_independent. Qed.
Print Assumptions C14_ranged_fit_independent.

(* ... and when it does not fit: truncation is reported and the buffer holds exactly the first n-1 bytes of that text, terminated.
   Together: for every list and every non-empty buffer the outcome is decided by comparing the length of [ranged_text l] with
   the size, and it is either the whole text or its longest prefix that leaves room for the terminator. *)
Theorem C14_ranged_truncation : forall l buf, ~ In 0 (ranged_text l) -> buf <> [] -> (length buf <= length (ranged_text l))%nat ->
  exists b, ranged_string l buf = Ok (b, None) /\ cstring b = Some (firstn (length buf - 1) (ranged_text l)).
Proof. exact ranged_truncation. Qed.
Print Assumptions C14_ranged_truncation.

(* the report is exact: success is reported precisely when the text, with its terminator, fits *)
Theorem C14_ranged_reports_fit_exactly : forall l buf b r, ~ In 0 (ranged_text l) -> buf <> [] -> ranged_string l buf = Ok (b, r) ->
  (r = None <-> (length buf <= length (ranged_text l))%nat) /\
  (forall k, r = Some k -> k = length (ranged_text l) /\ (k < length buf)%nat).
Proof.
  intros l buf b r Hn Hne E. destruct (Nat.lt_ge_cases (length (ranged_text l)) (length buf)) as [Hf|Hc].
  - destruct (ranged_fit l buf Hn Hf) as (b' & E' & _). rewrite E in E'. inversion E'; subst. split.
    + split; [discriminate|lia].
    + intros k Hk. inversion Hk; subst. split; [reflexivity|exact Hf].
  - destruct (ranged_truncation l buf Hn Hne Hc) as (b' & E' & _). rewrite E in E'. inversion E'; subst. split.
    + split; [intros _; exact Hc|reflexivity].
    + intros k Hk. discriminate Hk.
Qed.
Print Assumptions C14_ranged_reports_fit_exactly.

Theorem C14_ranged_text_groups : forall l, Forall named l -> ranged_text l = join 44 (gtexts (S (length l)) l).
Proof. exact ranged_text_groups. Qed.
Print Assumptions C14_ranged_text_groups.

(* the compressed text reads back: pdsh's own pass over a target list (hostlist_create, then the second pass of wcoll_expand -
   the parser model of C01) applied to [ranged_text l] yields exactly the hosts of l, in order, repeats included.  [printable]:
   numbers below the parser's limit, prefixes over the name alphabet, no empty plain name, at most MAX_RANGE hosts a range,
   at most MAX_RANGES ranges in any one bracket group, names short enough for the parser's fixed buffers.  Obtained from C01_expansion by exhibiting
   the syntax tree whose text is [ranged_text l] and whose meaning is [expand l]. *)
Theorem C14_ranged_roundtrip : forall l, printable l -> targets (ranged_text l) = Ok (expand l).
Proof. exact ranged_roundtrip. Qed.
Print Assumptions C14_ranged_roundtrip.

(* the clause of the property in one statement: whenever the compressed form fits in the caller's buffer, what the buffer
   holds is terminated, its length is the length reported, and it parses back to exactly the same host sequence *)
Theorem C14_ranged_lossless : forall l buf, printable l -> ~ In 0 (ranged_text l) -> (length (ranged_text l) < length buf)%nat ->
  exists b t, ranged_string l buf = Ok (b, Some (length t)) /\ cstring b = Some t /\ targets t = Ok (expand l).
Proof.
  intros l buf Hp Hn Hf. destruct (ranged_fit l buf Hn Hf) as (b & E & C).
  exists b, (ranged_text l). split; [exact E|]. split; [exact C|]. apply ranged_roundtrip. exact Hp.
Qed.
Print Assumptions C14_ranged_lossless.

(* [printable] is decidable; the correspondence run evaluates [printableb] on every list it prints *)
Theorem C14_printable_decidable : forall l, printableb l = true -> printable l.
Proof. exact printableb_sound. Qed.
Print Assumptions C14_printable_decidable.

Example C14_printable_nonvacuous :
  printable [mkhr [97] 8 11 1 false; mkhr [97] 13 13 1 false; mkhr [98] 0 0 0 true; mkhr [99] 5 5 3 false].
Proof.
  unfold printable. split; [|split].
  - repeat (apply Forall_cons; [unfold rprint, hr_ok2, hr_ok, NUM_LIMIT, named, MAX_RANGE; cbn [single lo hi wid pfx];
                                  repeat split; try lia; try reflexivity; try congruence|]). apply Forall_nil.
  - match goal with |- Forall short (expand ?l) =>
      assert (E : expand l = [[97;56]; [97;57]; [97;49;48]; [97;49;49]; [97;49;51]; [98]; [99;48;48;53]]) by (vm_compute; reflexivity);
      rewrite E end.
    repeat (apply Forall_cons; [unfold short, SUFFIX_HOST_SIZE, CUR_TOK_SIZE; cbn [length]; lia|]). apply Forall_nil.
  - apply groups_small_of_length. cbn [length]. unfold MAX_RANGES. lia.
Qed.

Example C14_ranged_fit_nonvacuous :
  let l := [mkhr [97] 8 11 1 false; mkhr [97] 13 13 1 false; mkhr [98] 0 0 0 true; mkhr [99] 5 5 3 false] in
  ~ In 0 (ranged_text l) /\ Forall named l /\
  ranged_text l = [97;91;56;45;49;49;44;49;51;93;44;98;44;99;48;48;53] /\      (* a[8-11,13],b,c005 *)
  gtexts (S (length l)) l = [[97;91;56;45;49;49;44;49;51;93]; [98]; [99;48;48;53]] /\
  (exists b, ranged_string l (repeat 170 12) = Ok (b, None) /\ cstring b = Some [97;91;56;45;49;49;44;49;51;93;44]).   (* 12 bytes: a[8-11,13], *)
Proof.
  cbn zeta. split; [vm_compute; intuition discriminate|]. split; [repeat constructor; unfold named; cbn; congruence|].
  split; [vm_compute; reflexivity|]. split; [vm_compute; reflexivity|]. eexists. vm_compute. split; reflexivity.
Qed.

(* expanded form: exact characterisation.  It fits iff the comma-joined expansion is
   shorter than the buffer; then the text is exactly that and the length is reported;
   otherwise truncation is reported and the buffer holds a terminated proper prefix. *)
Definition no_nul (l : list hr) : Prop := Forall (fun name => ~ In 0 name) (expand l).

Theorem C14_deranged_fit : forall l buf, Forall hr_ok l -> no_nul l -> buf <> [] ->
  (length (join 44 (expand l)) < length buf)%nat ->
  exists b, deranged_string l buf = Ok (b, Some (length (join 44 (expand l)))) /\
            cstring b = Some (join 44 (expand l)).
Proof. exact deranged_fit. Qed.
Print Assumptions C14_deranged_fit.

Theorem C14_deranged_truncation : forall l buf, Forall hr_ok l -> no_nul l -> buf <> [] ->
  (length buf <= length (join 44 (expand l)))%nat ->
  exists b t, deranged_string l buf = Ok (b, None) /\ cstring b = Some t /\
              is_prefix t (join 44 (expand l)) = true /\ (length t < length buf)%nat.
Proof. exact deranged_truncation. Qed.
Print Assumptions C14_deranged_truncation.

(* the expanded form likewise: its text (C14_deranged_fit: the names joined by commas) reads back as the same hosts *)
Theorem C14_deranged_roundtrip : forall l, printable l -> targets (join 44 (expand l)) = Ok (expand l).
Proof. exact deranged_roundtrip. Qed.
Print Assumptions C14_deranged_roundtrip.

Theorem C14_deranged_lossless : forall l buf, Forall hr_ok l -> no_nul l -> buf <> [] -> printable l ->
  (length (join 44 (expand l)) < length buf)%nat ->
  exists b t, deranged_string l buf = Ok (b, Some (length t)) /\ cstring b = Some t /\ targets t = Ok (expand l).
Proof.
  intros l buf Hok Hn Hne Hp Hf. destruct (deranged_fit l buf Hok Hn Hne Hf) as (b & E & C).
  exists b, (join 44 (expand l)). split; [exact E|]. split; [exact C|]. apply deranged_roundtrip. exact Hp.
Qed.
Print Assumptions C14_deranged_lossless.


Example C14_nonvacuous :
  let l := [mkhr [97] 8 11 1 false; mkhr [98] 0 0 0 true] in
  Forall hr_ok l /\
  (exists b, deranged_string l (repeat 170 16) = Ok (b, Some 15%nat) /\ cstring b = Some (join 44 (expand l))) /\
  (exists b, deranged_string l (repeat 170 15) = Ok (b, None)) /\
  (exists b, ranged_string l (repeat 170 10) = Ok (b, Some 9%nat) /\ cstring b = Some [97;91;56;45;49;49;93;44;98]).
Proof. cbn zeta. split; [repeat constructor; cbn; lia|]. repeat split; eexists; vm_compute; split || idtac; reflexivity. Qed.
