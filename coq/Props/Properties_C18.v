(* C18 - settings obey command line > environment > default; bad values are refused.
   Statements only; proofs in Args/SettingsFacts.v.  For every environment, every list of
   command-line options (any order, any repetitions) and every value string. *)
From PV Require Import Args.Settings Args.SettingsFacts.
Local Open Scope Z_scope.

(* whatever pdsh runs with was validated: positive fanout, non-negative timeouts, known transport *)
Theorem C18_effective_valid : forall w e os s, effective w e os = Run s ->
  1 <= fanout s /\ 0 <= ctimeout s /\ 0 <= utimeout s /\ known_rcmd w (rcmd s) = true.
Proof. exact effective_valid. Qed.
Print Assumptions C18_effective_valid.

(* precedence, setting by setting: the last occurrence on the command line, else the
   environment variable, else the default - whatever other options are present and in
   whatever order *)
Theorem C18_precedence_fanout : forall w e os s, effective w e os = Run s ->
  match last_opt sel_f os with
  | Some v => string_to_int v = Some (fanout s)
  | None => match e_fanout e with Some v => string_to_int v = Some (fanout s) | None => fanout s = Z.of_N DFLT_FANOUT end
  end.
Proof. exact precedence_fanout. Qed.
Print Assumptions C18_precedence_fanout.

Theorem C18_precedence_timeouts : forall w e os s, effective w e os = Run s ->
  match last_opt sel_t os with
  | Some v => ctimeout s = atoi v
  | None => match e_ctimeout e with Some v => string_to_int v = Some (ctimeout s) | None => ctimeout s = Z.of_N CONNECT_TIMEOUT end
  end /\
  match last_opt sel_u os with
  | Some v => utimeout s = atoi v
  | None => match e_utimeout e with Some v => string_to_int v = Some (utimeout s) | None => utimeout s = 0 end
  end.
Proof. exact precedence_timeouts. Qed.
Print Assumptions C18_precedence_timeouts.

Theorem C18_precedence_strings : forall w e os s, effective w e os = Run s ->
  ruser s = pick (last_opt sel_l os) None (login w) /\
  rcmd s = pick (last_opt sel_R os) (e_rcmd e) (dflt_rcmd w) /\
  misc s = match last_opt sel_M os with Some v => Some v | None => e_misc e end /\
  rpath s = pick (last_opt sel_e os) (if is_pcp w then e_rpath e else None) (self_path w).
Proof. exact precedence_strings. Qed.
Print Assumptions C18_precedence_strings.

(* refusals: a fanout that is not a positive integer, a malformed numeric environment value,
   a negative timeout, an over-long user name, an unknown transport *)
Theorem C18_bad_fanout_refused : forall w e os v, last_opt sel_f os = Some v ->
  (string_to_int v = None \/ string_to_int v = Some 0) -> effective w e os = Refused.
Proof. exact bad_fanout_refused. Qed.
Print Assumptions C18_bad_fanout_refused.

Theorem C18_bad_env_refused : forall w e os,
  (exists v, (e_fanout e = Some v \/ e_ctimeout e = Some v \/ e_utimeout e = Some v) /\ string_to_int v = None) ->
  effective w e os = Refused.
Proof. exact bad_env_refused. Qed.
Print Assumptions C18_bad_env_refused.

Theorem C18_zero_env_fanout_refused : forall w e os, e_fanout e = Some [48%N] -> last_opt sel_f os = None -> effective w e os = Refused.
Proof. exact zero_env_fanout_refused. Qed.
Print Assumptions C18_zero_env_fanout_refused.

Theorem C18_negative_timeout_refused : forall w e os v,
  (last_opt sel_t os = Some v \/ last_opt sel_u os = Some v) -> atoi v < 0 -> effective w e os = Refused.
Proof. exact negative_timeout_refused. Qed.
Print Assumptions C18_negative_timeout_refused.

Theorem C18_long_user_refused : forall w e os v, In (Ol v) os -> (name_max w < length v)%nat -> effective w e os = Refused.
Proof. exact long_user_refused. Qed.
Print Assumptions C18_long_user_refused.

Theorem C18_unknown_transport_refused : forall w e os s, effective w e os = Run s ->
  known_rcmd w (pick (last_opt sel_R os) (e_rcmd e) (dflt_rcmd w)) = true.
Proof. exact unknown_transport_refused. Qed.
Print Assumptions C18_unknown_transport_refused.

(* string_to_int accepts exactly the decimal integers 0..INT_MAX *)
Theorem C18_string_to_int_range : forall s v, string_to_int s = Some v -> 0 <= v <= INT_MAX.
Proof. exact string_to_int_range. Qed.
Print Assumptions C18_string_to_int_range.

(* CHANGED BY PROOF: byte literals annotated with %N (the file opens Z_scope, so [114] was read as list Z);
   the statement is otherwise unchanged *)
Example C18_nonvacuous :
  let w := mkworld [114%N] 256 [101%N] (fun b => beq b [101%N]) [47%N;112%N] false in
  effective w (mkenv (Some [55%N]) None None None None None) [Of [51%N]; Ot [52%N]; Of [57%N]] =
    Run (mkset 9 4 0 [114%N] [101%N] None [47%N;112%N]) /\
  effective w (mkenv (Some [55%N]) None None None None None) [Of [48%N]] = Refused.
Proof. split; vm_compute; reflexivity. Qed.
