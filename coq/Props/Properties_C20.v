(* C20 - interrupts: batch ^C stops everything, interactive ^C only reports.
   Statements only; proofs in Dsh/SysSig.v.  The system is Dsh/Sys.v: dispatcher, workers,
   watchdog and the signals thread (_signals_thread / _handle_sigint / _handle_sigtstp /
   _cancel_pending_threads) with both mutexes; a signal may arrive (ESigArrive) before any step.
   Every statement is for every configuration and every admitted event sequence. *)
From PV Require Import Dsh.Sys Dsh.SysFacts Dsh.SysSig Dsh.SysLive.
Local Open Scope Z_scope.

(* which interrupts abort: in batch mode every ^C; otherwise only a ^C within INTR_TIME seconds of
   the previous one (the first one, and one that comes later than that, only report) *)
Theorem C20_which_interrupt_aborts : forall (c : cfg) s s', step c s ESigTake = Some s' -> pend s = Some SInt ->
  sp s' = if batch c then SAbortL else if Z.of_N INTR_TIME <? now s - last s then SListM else SAbortL.
Proof. exact take_int_decision. Qed.
Print Assumptions C20_which_interrupt_aborts.

(* abort: the interrupt is forwarded to exactly the hosts whose command is running when the
   handler takes the state mutex - no other host is signalled, none of them is missed - whatever
   the other threads do in between ... *)
Theorem C20_abort_forwards_exactly : forall (c : cfg) s es s', InvL s -> sp s = SAbortH 0 -> run c s es = Some s' ->
  (forall j, In (ERSigS j) es -> rd (tss s) j) /\
  (sp s' = SAbortU -> forall j, rd (tss s) j -> In (ERSigS j) es).
Proof. exact abort_forwards_exactly. Qed.
Print Assumptions C20_abort_forwards_exactly.

(* ... and then pdsh exits with a non-zero status; nothing can prevent that step *)
Theorem C20_abort_exits_nonzero : forall (c : cfg) s, sp s = SAbortU -> exited s = None ->
  step c s EExitS <> None /\ forall s', step c s EExitS = Some s' -> exited s' = Some 1.
Proof. intros c s H1 H2. split; [apply abort_exit_enabled; assumption|intros s'; apply abort_exit_status; assumption]. Qed.
Print Assumptions C20_abort_exits_nonzero.

(* a ^C that only reports is transparent: deleting the signals thread's events from the run gives
   a run of the system in which that thread never moved - the same commands are started and torn
   down in the same order, the same completions are signalled, the exit is the same *)
Theorem C20_single_interrupt_transparent : forall (c : cfg) s es s', InvL s -> m0 s <> ByS -> run c s es = Some s' ->
  no_action es -> run c (forgetS s) (drop_sig es) = Some (forgetS s').
Proof. exact single_interrupt_transparent. Qed.
Print Assumptions C20_single_interrupt_transparent.

(* the lock discipline used above holds on every run from the initial state *)
Theorem C20_lock_discipline : forall (c : cfg) t0 es s, run c (init c t0) es = Some s -> InvL s.
Proof. intros c t0 es s H. eapply invL_run; [apply invL_init|exact H]. Qed.
Print Assumptions C20_lock_discipline.

(* ^Z right after ^C: only hosts not yet started or still connecting are cancelled ... *)
Theorem C20_cancel_only_pending : forall (c : cfg) s s' i w, step c s ELock0S = Some s' -> nth_error (ws s) i = Some w ->
  exists w', nth_error (ws s') i = Some w' /\ pc w' = pc w /\
    match ts w with TNew | TRcmd => ts w' = TCanceled | _ => ts w' = ts w end.
Proof. exact cancel_only_pending. Qed.
Print Assumptions C20_cancel_only_pending.

(* ... a host already running its command is never cancelled by anything ... *)
Theorem C20_reading_never_canceled : forall (c : cfg) s e s' i w, step c s e = Some s' -> nth_error (ws s) i = Some w ->
  ts w = TReading -> exists w', nth_error (ws s') i = Some w' /\ ts w' <> TCanceled /\ ts w' <> TNew.
Proof. exact reading_never_canceled. Qed.
Print Assumptions C20_reading_never_canceled.

(* ... and a host cancelled before its thread existed is never started *)
Theorem C20_canceled_never_started : forall (c : cfg) s es s' i w, run c s es = Some s' -> nth_error (ws s) i = Some w ->
  pc w = PNone -> ts w = TCanceled -> exists w', nth_error (ws s') i = Some w' /\ pc w' = PNone.
Proof. exact canceled_never_started. Qed.
Print Assumptions C20_canceled_never_started.

(* an interrupt arriving at any moment never deadlocks pdsh: in every reachable state that has not
   exited - whatever the signals thread is in the middle of, whichever mutex it holds - some thread
   can take a step other than a clock tick, a spurious wake-up or a signal arriving; the only
   exception is a state in which pdsh waits for a host hanging inside connect() or the read loop
   with no signal pending, which is C07's business (bounded by the time-outs) *)
Theorem C20_no_deadlock : forall (c : cfg), 1 <= f c -> forall t0 es s, run c (init c t0) es = Some s -> exited s = None ->
  can_move c s \/ hung_worker c s.
Proof. exact no_deadlock. Qed.
Print Assumptions C20_no_deadlock.

(* interrupts never break the fanout limit either: with the signals thread, cancellations, faults and time-outs
   all in the picture, at most f connections are in flight in every reachable state *)
Theorem C20_fanout_bound_under_interrupts : forall (c : cfg), 1 <= f c -> forall t0 es s, run c (init c t0) es = Some s ->
  exited s = None -> inflight s <= f c /\ 0 <= tc s <= f c.
Proof. exact bound_always. Qed.
Print Assumptions C20_fanout_bound_under_interrupts.

(* a host cancelled while connecting is still covered by the connect timeout (the defect repaired
   in dsh.c: the watchdog used to skip cancelled slots): C07_deadline includes cancelled workers *)
Example C20_canceled_connecting_has_deadline :
  hang_due (mkcfg 1 1 2 0 false [BHangConn]) 0 (mkwk PInConn TCanceled 1000 (-1) false false false) = Some 1002.
Proof. reflexivity. Qed.

(* non-vacuity: batch mode, two targets, the first one running its command when ^C arrives *)
Example C20_nonvacuous :
  let c := mkcfg 2 2 2 0 true [BOk; BOk] in
  let pre := [ELockD; ECreate 0; EUnlockD; EStart 0; ELock1 0; EUnlock1 0; EConnBegin 0; EConnOk 0; ELock1 0; EUnlock1 0;
              ELockD; ECreate 1; EUnlockD; EStart 1; ESigArrive SInt; ESigTake; ELock1S] in
  exists s, run c (init c 1000) pre = Some s /\ sp s = SAbortH 0 /\ rd (tss s) 0 /\ ~ rd (tss s) 1 /\
  exists s', run c s [ELock1 1; ERSigS 0; EUnlock1S; EExitS] = None /\ run c s [ERSigS 0; EUnlock1S; EExitS] = Some s' /\ exited s' = Some 1.
Proof.
  cbv zeta. eexists. split; [vm_compute; reflexivity|]. split; [reflexivity|]. split; [reflexivity|]. split; [intro H; discriminate H|].
  eexists. split; [vm_compute; reflexivity|]. split; vm_compute; reflexivity.
Qed.
