(* C08 - exit status faithfully summarises the run.  Statements only; proofs in Dsh/ExitFacts.v. *)
From Coq Require Import Permutation.
From PV Require Import Dsh.Exit Dsh.ExitFacts Dsh.Sys Dsh.SysExit.
Local Open Scope Z_scope.

(* with -S: the largest return code of any remote command, raised to RC_FAILED (254) if any
   host could not be reached or timed out - for every vector of outcomes *)
Theorem C08_S_max : forall l, aggregate l = spec_max l.
Proof. exact aggregate_is_max. Qed.
Print Assumptions C08_S_max.

(* ... in any completion/target order *)
Theorem C08_order_independent : forall l l', Permutation l l' -> aggregate l = aggregate l'.
Proof. exact aggregate_order_independent. Qed.
Print Assumptions C08_order_independent.

(* ... so it is 0 only if every command on every target ran and succeeded *)
Theorem C08_zero_iff_all_succeeded : forall l, Forall (fun h => 0 <= hrc h) l ->
  (aggregate l = 0 <-> Forall (fun h => hrc h = 0 /\ is_failed h = false) l).
Proof. exact zero_iff_all_succeeded. Qed.
Print Assumptions C08_zero_iff_all_succeeded.

(* the process exit status is that maximum itself for codes 0..255 *)
Theorem C08_exit_exact : forall l, Forall (fun h => 0 <= hrc h <= 255) l -> exit_status true l = spec_max l.
Proof. exact exit_status_exact. Qed.
Print Assumptions C08_exit_exact.

(* a command that terminates abnormally never counts as success *)
Theorem C08_signaled_never_zero : forall sig inband, 0 < sig -> 0 <= inband ->
  host_rc inband (exec_destroy_rc (Signaled sig)) <> 0.
Proof. exact signaled_never_zero. Qed.
Print Assumptions C08_signaled_never_zero.

(* without -S (and -k) the status is 0 after a run pdsh was able to start *)
Theorem C08_no_S : forall l, exit_status false l = 0.
Proof. exact no_S_zero. Qed.
Print Assumptions C08_no_S.

(* ---- -k (fail-fast) and the status request ---- *)
(* with -k the exit status is 0 exactly when every host was reached and every command returned 0, with or without -S *)
Theorem C08_k_zero_iff_all_succeeded : forall optS l, Forall (fun h => 0 <= hrc h <= 255) l ->
  (exit_k optS true l = 0 <-> Forall (fun h => hrc h = 0 /\ is_failed h = false) l).
Proof. exact k_zero_iff_all_succeeded. Qed.
Print Assumptions C08_k_zero_iff_all_succeeded.

(* the in-band status is seen exactly when it was requested, and -k alone requests it ... *)
Theorem C08_status_seen_iff_requested : forall optS optk code, seen_inband (getstat optS optk) code = if optS || optk then code else 0.
Proof. exact status_seen_iff_requested. Qed.
Print Assumptions C08_status_seen_iff_requested.

(* ... so a command that fails in-band under -k alone ends pdsh with 1 (Exit.run_exit is the function the check runs on the
   outcome vectors of the scheduler-controlled runs and compares with the observed exit status) *)
Theorem C08_k_alone_sees_inband_failure : forall code rest, 0 < code -> run_exit false true ((false, (code, 0)) :: rest) = 1.
Proof. exact k_alone_sees_inband_failure. Qed.
Print Assumptions C08_k_alone_sees_inband_failure.

Example C08_k_nonvacuous : run_exit false true [(false, (0, 0)); (false, (3, 0))] = 1 /\ run_exit false true [(false, (0, 0)); (false, (0, 0))] = 0 /\
  run_exit true false [(false, (3, 0)); (true, (0, 0))] = 254 /\ run_exit false false [(false, (3, 0))] = 0.
Proof. repeat split; vm_compute; reflexivity. Qed.

(* which hosts the -S loop sees as FAILED: in the timed system of the whole run (Dsh/Sys.v) a worker that has
   written its final status is in state FAILED exactly when it took a failure branch, DONE otherwise ... *)
Theorem C08_final_status : forall (c : cfg), 1 <= f c -> forall t0 es s i w, run c (init c t0) es = Some s ->
  nth_error (ws s) i = Some w -> settled (pc w) = true -> ts w = if failed w then TFailed else TDone.
Proof. exact final_status. Qed.
Print Assumptions C08_final_status.

(* ... and the failure branches are exactly: connect refused, connect interrupted by the connect time-out, command
   interrupted by the command time-out - "could not be reached or timed out" *)
Theorem C08_failed_means_unreachable_or_timed_out : forall (c : cfg) t0 es s i w, run c (init c t0) es = Some s ->
  nth_error (ws s) i = Some w -> failed w = true -> existsb (fail_event i) es = true.
Proof. exact failed_needs_event. Qed.
Print Assumptions C08_failed_means_unreachable_or_timed_out.

Example C08_nonvacuous :
  aggregate [mkhres HDone 255; mkhres HFailed 0; mkhres HDone 3] = 255 /\
  aggregate [mkhres HFailed 0; mkhres HDone 3] = 254 /\ aggregate [mkhres HDone 0] = 0.
Proof. vm_compute. auto. Qed.
