(* C02 - an excluded or filtered-out host is never contacted; all others survive.
   Statements only; proofs in Args/ExcludeHLFacts.v (hostlist level) and Args/ExcludeFacts.v.
   M = Args/Exclude.v, variant `fixed' (the code with fixes/C02-*.diff); S = Args/ExcludeSpec.v.
   `matches' / `compiles' stand for libc's regexec / regcomp and are universally quantified.
   Domain predicates:
     hr_ok          representation invariant of a range (lo <= hi < ULONG_MAX; a single host has none)
     D02r           glued to the digits the range prefix ends in, every number of the range is a
                    number for hostname_create (<= MAX_HOST_SUFFIX = 2^25); outside it the code
                    fails (C02_find_outside_D02_refuted, C02_exclusion_outside_D02_refuted = finding F15)
     arg_dom        numbers in an exclusion argument are below 10^15 (D01, hostlist_pop's buffer)
     run_domain     both, for the lists a command line produces, and the int host count fits;
                    domain_check is its executable form (C02_domain_check_sound). *)
From PV Require Import Base.DecimalFacts Hostlist.HLFacts Args.ExcludeHLFacts Args.ExcludeSpec Args.Exclude Args.ExcludeFacts.
Local Open Scope N_scope.

(* ---- hostlist_find: whole-name matching ---- *)

(* for every list: a position reported by find holds exactly the name looked for (so excluding foo1
   can never remove foo10, foo01 or foo1-ib), and the widths find rewrites change no name *)
Theorem C02_find_sound : forall l name l' k,
  Forall hr_ok l -> (Z.of_nat (length (expand l)) <= 2147483647)%Z -> HLEdit.find l name = (l', k) ->
  expand l' = expand l /\ ((0 <= k)%Z -> nth_error (expand l) (Z.to_nat k) = Some name).
Proof. exact find_sound_nth. Qed.
Print Assumptions C02_find_sound.

(* on D02 a name that is in the list is found, at its first occurrence *)
Theorem C02_find_complete : forall l name l' ret,
  Forall hr_ok l -> Forall D02r l -> (Z.of_nat (length (expand l)) <= 2147483647)%Z ->
  HLEdit.find l name = (l', ret) -> In name (expand l) ->
  exists k, ret = Z.of_nat k /\ nth_error (expand l) k = Some name /\ ~ In name (firstn k (expand l)).
Proof. exact find_complete. Qed.
Print Assumptions C02_find_complete.

(* outside D02 a name that is in the list is not found (MAX_HOST_SUFFIX asymmetry) *)
Theorem C02_find_outside_D02_refuted :
  exists l name, Forall hr_ok l /\ In name (expand l) /\ snd (HLEdit.find l name) = (-1)%Z.
Proof.
  exists [mkhr [102] 33554433 33554434 8 false], [102;51;51;53;53;52;52;51;51].
  split; [repeat constructor; cbn; lia|]. split; [left; reflexivity|vm_compute; reflexivity].
Qed.
Print Assumptions C02_find_outside_D02_refuted.

(* ---- hostlist_delete (repaired): every occurrence of every name the expression stands for ---- *)
Theorem C02_delete_all_occurrences : forall s nm,
  wc_ok s -> name_dom nm ->
  exists s' k, xdelete true s nm = XOk (s', k) /\ wc_ok s' /\
    names s' = filter (fun h => negb (memb h (pass2 nm))) (names s).
Proof. exact xdelete_spec. Qed.
Print Assumptions C02_delete_all_occurrences.

(* ---- hostlist_filter_regex: removing while iterating is filter ---- *)
Theorem C02_regex_filter : forall s keep,
  wc_ok s -> exists s', filter_by s keep = XOk s' /\ wc_ok s' /\ names s' = filter keep (names s).
Proof. exact filter_by_spec. Qed.
Print Assumptions C02_regex_filter.

(* ---- the whole pipeline: M = S ---- *)
Theorem C02_exclusion : forall compiles matches files items a w,
  gather compiles fixed files items = XOk a -> a_wcoll a = Some w ->
  (nhosts (wcoll_expand w) <= INT_MAX)%Z -> in_domain w (a_excl a) ->
  run compiles matches fixed files items =
  XOk (final matches (expand (ranges (wcoll_expand w))) (flat_map names2 (a_excl a))
             (keep_pats (a_regex a)) (drop_pats (a_regex a))).
Proof. exact run_spec. Qed.
Print Assumptions C02_exclusion.

(* the order of the words does not matter, as long as the target-producing words keep theirs *)
Theorem C02_order_independent : forall compiles matches files items items',
  Permutation (words items) (words items') ->
  filter is_target (words items) = filter is_target (words items') ->
  run_domain compiles files items ->
  run compiles matches fixed files items = run compiles matches fixed files items'.
Proof. exact order_independent. Qed.
Print Assumptions C02_order_independent.

(* what "= final" means: survivors keep their order and multiplicity, nothing excluded survives *)
Theorem C02_survivors_keep_order_and_multiplicity : forall matches targets excl keep drop,
  let r := final matches targets excl keep drop in
  subseq r targets /\
  (forall h, survives matches excl keep drop h = true -> occ h r = occ h targets) /\
  (forall h, survives matches excl keep drop h = false -> ~ In h r).
Proof. exact survivors_spec. Qed.
Print Assumptions C02_survivors_keep_order_and_multiplicity.

Theorem C02_excluded_never_survives : forall matches excl keep drop h,
  In h excl -> survives matches excl keep drop h = false.
Proof. exact excluded_never_survives. Qed.
Print Assumptions C02_excluded_never_survives.

(* ---- termination ---- *)
(* in the domain the repaired pipeline neither loops nor leaves the contract *)
Theorem C02_exclusion_file_terminates : forall compiles matches files items,
  run_domain compiles files items ->
  run compiles matches fixed files items <> XDiverges /\
  (forall f, run compiles matches fixed files items <> XFault f).
Proof. exact run_total. Qed.
Print Assumptions C02_exclusion_file_terminates.

(* the repaired list_push_hostlist has no loop at all, whatever the size of the file *)
Theorem C02_push_names_total : forall excl h, exists x, push_hostlist PushNames excl h = XOk x.
Proof. exact push_names_total. Qed.
Print Assumptions C02_push_names_total.

(* the loop as intended, (n *= 2) < 0x7fffff, ends within 11 doublings for every list ... *)
Theorem C02_retry_paren_terminates : forall l,
  match retry_loop true 13 l PUSH_BUF0 0 with
  | RSpin => False
  | RFit _ k | RTrunc _ k => (k <= 11)%nat
  | RPrintFault => True
  end.
Proof. exact retry_paren_terminates. Qed.
Print Assumptions C02_retry_paren_terminates.

(* ... the loop as written, n *= (2 < 0x7fffff), never ends once the first attempt fails *)
Theorem C02_retry_old_spins : forall l s fuel, print_into l PUSH_BUF0 = Some (s, false) ->
  retry_loop false (S fuel) l PUSH_BUF0 0 = RSpin.
Proof. exact retry_old_spins. Qed.
Print Assumptions C02_retry_old_spins.

Theorem C02_domain_check_sound : forall compiles files items,
  domain_check compiles files items = true -> run_domain compiles files items.
Proof. exact domain_check_sound. Qed.
Print Assumptions C02_domain_check_sound.

(* ====================================================================== *)
(* witnesses: the code before each repair, and the boundary of the domain  *)
(* ====================================================================== *)
Definition b_foo := [102;111;111].
Definition no_re (p h : bytes) := false.
Definition all_compile (p : bytes) := true.
(* 600 unrelated names h00000x h00007x ... : ranged form of 4199 bytes *)
Definition big_file : list bytes := map (fun k => [104] ++ fmt 5 (N.of_nat k * 7) ++ [120]) (seq 0 600).

(* -w foo[1-3],foo[2-4] -x foo[2-3] *)
Definition dup_items : list item :=
  [IW (b_foo ++ [91;49;45;51;93;44] ++ b_foo ++ [91;50;45;52;93]); IX (b_foo ++ [91;50;45;51;93])].
(* -w foo[1-2]-[0-1] -x foo1-0 *)
Definition two_items : list item :=
  [IW (b_foo ++ [91;49;45;50;93;45;91;48;45;49;93]); IX (b_foo ++ [49;45;48])].
(* -w a1,h00007x -x ^big *)
Definition file_items : list item := [IW [97;49;44;104;48;48;48;48;55;120]; IX [94;98;105;103]].
(* -w a[1-2]-f[33554433-33554434] -x a1-f33554433 *)
Definition f15_items : list item :=
  [IW [97;91;49;45;50;93;45;102;91;51;51;53;53;52;52;51;51;45;51;51;53;53;52;52;51;52;93]; IX [97;49;45;102;51;51;53;53;52;52;51;51]].

(* first occurrence only (before fixes/C02-delete-all-occurrences.diff): foo2 and foo3 survive *)
Theorem C02_delete_first_only_refuted :
  run all_compile no_re (mkvar false true PushNames) [] dup_items
  = XOk [b_foo ++ [49]; b_foo ++ [50]; b_foo ++ [51]; b_foo ++ [52]] /\
  run all_compile no_re fixed [] dup_items = XOk [b_foo ++ [49]; b_foo ++ [52]].
Proof. split; vm_compute; reflexivity. Qed.
Print Assumptions C02_delete_first_only_refuted.

(* filters before wcoll_expand (before fixes/C02-filter-after-expand.diff): foo1-0 survives *)
Theorem C02_filter_before_expand_refuted :
  (exists r, run all_compile no_re (mkvar true false PushNames) [] two_items = XOk r /\ In (b_foo ++ [49;45;48]) r) /\
  (exists r, run all_compile no_re fixed [] two_items = XOk r /\ ~ In (b_foo ++ [49;45;48]) r /\ length r = 3%nat).
Proof.
  split; eexists; (split; [vm_compute; reflexivity|]).
  - left. reflexivity.
  - split; [|reflexivity]. intros H. repeat (destruct H as [H|H]; [discriminate H|]). exact H.
Qed.
Print Assumptions C02_filter_before_expand_refuted.

(* the exclusion file of more than 4 KiB (before fixes/C02-exclusion-file-hang.diff): pdsh spins *)
Theorem C02_exclusion_file_hang_refuted :
  run all_compile no_re (mkvar true true PushOld) [([98;105;103], big_file)] file_items = XDiverges /\
  run all_compile no_re fixed [([98;105;103], big_file)] file_items = XOk [[97;49]].
Proof. split; vm_compute; reflexivity. Qed.
Print Assumptions C02_exclusion_file_hang_refuted.

(* finding F15: outside D02 (a number above 2^25 behind a SECOND pair of brackets) the excluded host
   survives even in the repaired code; domain_check says so *)
Theorem C02_exclusion_outside_D02_refuted :
  domain_check all_compile [] f15_items = false /\
  exists r, run all_compile no_re fixed [] f15_items = XOk r /\ In [97;49;45;102;51;51;53;53;52;52;51;51] r.
Proof. split; [vm_compute; reflexivity|]. eexists. split; [vm_compute; reflexivity|]. left. reflexivity. Qed.
Print Assumptions C02_exclusion_outside_D02_refuted.

(* ---- the hypotheses are satisfiable by non-trivial inputs ---- *)
Example C02_exclusion_nonvacuous :
  run_domain all_compile [] dup_items /\ run_domain all_compile [] two_items /\
  run_domain all_compile [([98;105;103], big_file)] file_items /\
  (exists a w, gather all_compile fixed [] dup_items = XOk a /\ a_wcoll a = Some w /\
               length (expand (ranges (wcoll_expand w))) = 6%nat /\ a_excl a <> []).
Proof.
  split; [apply domain_check_sound; vm_compute; reflexivity|].
  split; [apply domain_check_sound; vm_compute; reflexivity|].
  split; [apply domain_check_sound; vm_compute; reflexivity|].
  eexists _, _. split; [vm_compute; reflexivity|]. split; [reflexivity|]. split; [vm_compute; reflexivity|discriminate].
Qed.

Example C02_find_nonvacuous :
  let l := [mkhr [102;49] 2 3 1 false; mkhr [102] 1 20 2 false; mkhr [102;111;111;49;45;105;98] 0 0 0 true] in
  Forall hr_ok l /\ Forall D02r l /\
  snd (HLEdit.find l [102;49;50]) = 0%Z /\ snd (HLEdit.find l [102;49;48]) = 11%Z /\ snd (HLEdit.find l [102;49]) = (-1)%Z /\
  snd (HLEdit.find l [102;48;49]) = 2%Z /\ snd (HLEdit.find l [102;111;111;49]) = (-1)%Z.
Proof.
  cbv zeta. split; [repeat constructor; cbn; lia|]. split.
  - apply Forall_forall. intros r Hr.
    destruct Hr as [<-|[<-|[<-|[]]]]; (apply d02b_sound; [cbn; lia|vm_compute; reflexivity]).
  - repeat split; vm_compute; reflexivity.
Qed.

Example C02_order_nonvacuous :
  let i1 := [IW (b_foo ++ [91;49;45;51;93]); IX (b_foo ++ [50]); IW [47;51;47]] in
  let i2 := [IW [47;51;47]; IX (b_foo ++ [50]); IW (b_foo ++ [91;49;45;51;93])] in
  Permutation (words i1) (words i2) /\ filter is_target (words i1) = filter is_target (words i2) /\
  run_domain all_compile [] i1.
Proof.
  cbv zeta. split; [vm_compute; apply Permutation_rev|]. split; [vm_compute; reflexivity|].
  apply domain_check_sound. vm_compute. reflexivity.
Qed.

(* An exclusion argument the host-list parser cannot read (too many items between brackets, unbalanced brackets, a
   reversed range) is never skipped: applying it ends the run with an error, so the hosts it was meant to name are not
   contacted (fix a928c9f; before it, the word was dropped in silence). *)
Theorem C02_unreadable_exclusion_refused : forall s arg e, create arg = Err e -> exclude_arg fixed s arg = XErrx.
Proof. exact exclude_arg_refused. Qed.
Print Assumptions C02_unreadable_exclusion_refused.

Example C02_unreadable_exclusion_nonvacuous : exists e, create (b_foo ++ [91;49;45;51]) = Err e.   (* "foo[1-3" *)
Proof. eexists. vm_compute. reflexivity. Qed.
