(* C11 - pdcp/rpdcp reproduce the source tree exactly on every target.
   Statements only.
   Models: Pcp/PcpClient.v (pcp_client.c: pcp_expand_dirs with the leave-directory sentinel, the record
   encoder T/D/C/E, the BUFSIZ-byte block loop, the one-byte answers; cc_skip = fixes/C11-refused-directory.diff),
   Pcp/PcpSink.v (pcp_server.c _sink; c_dirmode = fixes/C11-preserve-dir-mode.diff), Pcp/FsModel.v.
   Spec: PcpRound.faithful (names, structure, bytes; with -p also permission bits and mtime).
   Proofs: Pcp/FsAlgebra.v FsForward.v PcpRecords.v PcpStep.v PcpEncode.v PcpRound.v PcpCopyFacts.v PcpCopyWitness.v. *)
From PV Require Import Pcp.FsModel Pcp.PcpSink Pcp.PcpClient Pcp.FsFacts Pcp.FsForward Pcp.PcpClientFacts
  Pcp.PcpEncode Pcp.PcpRound Pcp.PcpCopyFacts Pcp.PcpCopyLink Pcp.PcpCopyWitness.
Local Open Scope N_scope.

(* The mode field: "%04o" of the sender and the scanner of the receiver are inverse on all 4096 modes. *)
Theorem C11_mode_field : forall m r, m < 4096 -> getmode 4 (oct4 m ++ r) 0 = POk (m, r).
Proof. exact getmode_oct4. Qed.
Print Assumptions C11_mode_field.

(* C11_blocks.  For EVERY size, every previous content of the file and every st_blksize: the receiver's
   BUFSIZ-piece data loop followed by ftruncate leaves exactly the bytes that were sent (a longer old file
   is cut, a shorter one extended), consumes exactly those bytes, and changes nothing but that file. *)
Theorem C11_blocks : forall cfg p m t old d rest w,
  lookup (w_fs w) p = Some (File m t old) -> w_in w = d ++ rest ->
  exists w2 fs3,
    data_loop (S (length (w_in w))) (blk_cnt cfg) p (Z.of_nat (length d)) 0%Z [] 0 0 w = DDone w2 /\
    w_in w2 = rest /\
    fs_truncate (w_fs w2) p (Z.of_nat (length d)) = Some fs3 /\
    lookup fs3 p = Some (File m None d) /\
    set_at (w_fs w) p (File m None d) = Some fs3.
Proof. exact blocks_exact. Qed.
Print Assumptions C11_blocks.

(* The walk over the pre-expanded flat file list with its leave-directory sentinels is the recursive
   encoding of the trees: given acknowledgements, the sender writes encode_list of its sources
   (any depth, fan-out, sizes; sibling names distinct; a top-level name is not the sentinel).
   sent_entry c = the source under the name sent: for a reverse copy (pdcp -Z host) ".host" is appended
   to the names the user gave. *)
Theorem C11_sender_stream : forall c (l : list src) rs,
  (forall pre k n, In (pre, k, n) l ->
     wf_names n /\ lookup (cc_fs c) (cc_cwd c ++ pre ++ [k]) = Some n /\ (pre <> [] \/ beq k sentinel = false)) ->
  client c (top_files l) (repeat Ack (1 + n_acks_list (cc_preserve c) (map (sent_entry c) l)) ++ rs) =
  encode_list (cc_preserve c) (map (sent_entry c) l).
Proof. intros c l rs. exact (client_all_acks c l rs). Qed.
Print Assumptions C11_sender_stream.

(* C11_roundtrip.  For ALL source trees (depth, fan-out, file sizes, all 12 mode bits, with and without -p)
   whose names are good_name (no '/', newline or NUL, not "." or "..", at most 255 bytes), sizes and times
   below 2^63, joined path names below PATH_MAX, copied into an existing directory that has no entry of
   those names yet: sender and receiver agree on one conversation, every answer is an acknowledgement, and
   the target directory ends up with its old entries plus a faithful copy of every source
   (names, structure, bytes; with -p - and the directory-mode repair - permission bits and mtimes), and
   nothing else in the tree changes. *)
Theorem C11_roundtrip : forall cfg c fs (l : list src) dp t dm dt de,
  cc_preserve c = c_preserve cfg ->
  (forall pre k n, In (pre, k, n) l ->
     lookup (cc_fs c) (cc_cwd c ++ pre ++ [k]) = Some n /\ (pre <> [] \/ beq k sentinel = false)) ->
  wf_src_list cfg (map (sent_entry c) l) -> names_distinct (map (sent_entry c) l) ->
  fits_list (length (c_dest cfg)) (map (sent_entry c) l) ->
  (forall k v, In (k, v) (map (sent_entry c) l) -> assoc k de = None) ->
  resolve fs (c_cwd cfg) (c_dest cfg) = ROk dp t -> lookup fs dp = Some (Dir dm dt de) ->
  (c_preserve cfg = true -> c_dirmode cfg = true) ->
  exists stream w' copies dt',
    sink cfg fs stream = (w', RetEnd) /\
    client c (top_files l) (seen_replies w') = stream /\
    replies w' = repeat Ack (1 + n_acks_list (c_preserve cfg) (map (sent_entry c) l)) /\ w_in w' = [] /\
    lookup (w_fs w') dp = Some (Dir dm dt' (de ++ copies)) /\
    faithful_list cfg (map (sent_entry c) l) copies /\
    set_at fs dp (Dir dm dt' (de ++ copies)) = Some (w_fs w').
Proof. exact copy_roundtrip. Qed.
Print Assumptions C11_roundtrip.

(* The composed function the check runs against the real pdcp (PcpClient.copy: the stream for all-Ack answers
   is tried, accepted iff the sender reproduces it from the receiver's actual answers, else the iterated exchange)
   is, on the inputs of C11_roundtrip, the receiver's run on the encoded forest. *)
Theorem C11_check_model : forall cfg c fs (l : list src) dp t dm dt de,
  cc_preserve c = c_preserve cfg ->
  (forall pre k n, In (pre, k, n) l ->
     lookup (cc_fs c) (cc_cwd c ++ pre ++ [k]) = Some n /\ (pre <> [] \/ beq k sentinel = false)) ->
  wf_src_list cfg (map (sent_entry c) l) -> names_distinct (map (sent_entry c) l) ->
  fits_list (length (c_dest cfg)) (map (sent_entry c) l) ->
  (forall k v, In (k, v) (map (sent_entry c) l) -> assoc k de = None) ->
  resolve fs (c_cwd cfg) (c_dest cfg) = ROk dp t -> lookup fs dp = Some (Dir dm dt de) ->
  copy cfg fs c (top_files l) = sink cfg fs (encode_list (c_preserve cfg) (map (sent_entry c) l)).
Proof. exact copy_is_sink_encode. Qed.
Print Assumptions C11_check_model.

(* Without the chmod after mkdir (the code before fixes/C11-preserve-dir-mode.diff) -p does not
   reproduce the permission bits of a new directory: 02755 arrives as 0755. *)
Theorem C11_dir_mode_refuted_without_chmod :
  exists m t e, at_ (run false true true fs_plain) [n_h; n_tree] = Some (Dir m t e) /\ m = 493 /\ m <> 1517.
Proof. exact dirmode_lost. Qed.
Print Assumptions C11_dir_mode_refuted_without_chmod.

(* C11_error_isolated, on the witness of defect 20 (tree/sub is a regular file on the target):
   the code before fixes/C11-refused-directory.diff puts b into tree/ and z one level too high ... *)
Theorem C11_error_isolated_refuted_without_skip :
  at_ (run true false false fs_blocked) [n_h; n_tree; n_b] = Some (File 420 None [66]) /\
  at_ (run true false false fs_blocked) [n_h; n_z] = Some (File 384 None [90; 90]) /\
  at_ (run true false false fs_blocked) [n_h; n_tree; n_z] = None.
Proof. exact refused_not_isolated. Qed.
Print Assumptions C11_error_isolated_refuted_without_skip.

(* ... with the repair the obstacle is left alone, z arrives where it belongs, nothing lands elsewhere *)
Example C11_error_isolated_example :
  at_ (run true true false fs_blocked) [n_h; n_tree; n_z] = Some (File 384 None [90; 90]) /\
  at_ (run true true false fs_blocked) [n_h; n_tree; n_sub] = Some (File 420 None [120]) /\
  at_ (run true true false fs_blocked) [n_h; n_tree; n_b] = None /\
  at_ (run true true false fs_blocked) [n_h; n_z] = None /\
  at_ (run true true false fs_blocked) [n_h; n_b] = None.
Proof. exact refused_isolated. Qed.

(* the hypotheses of C11_roundtrip are met by an ordinary copy (pdcp -r -p tree .), whose result through
   the composed models is the source tree with all modes and times *)
Example C11_nonvacuous :
  (cc_preserve ex_cc = c_preserve ex_cfg /\
   (forall pre k n, In (pre, k, n) ex_l ->
      lookup (cc_fs ex_cc) (cc_cwd ex_cc ++ pre ++ [k]) = Some n /\ (pre <> [] \/ beq k sentinel = false)) /\
   wf_src_list ex_cfg (map (sent_entry ex_cc) ex_l) /\ names_distinct (map (sent_entry ex_cc) ex_l) /\
   fits_list (length (c_dest ex_cfg)) (map (sent_entry ex_cc) ex_l) /\
   (forall k v, In (k, v) (map (sent_entry ex_cc) ex_l) -> assoc k [] = None) /\
   resolve fs_plain (c_cwd ex_cfg) (c_dest ex_cfg) = ROk [n_h] true /\
   lookup fs_plain [n_h] = Some (Dir 493 None []) /\
   (c_preserve ex_cfg = true -> c_dirmode ex_cfg = true)) /\
  at_ (run true true true fs_plain) [n_h; n_tree] =
  Some (Dir 1517 (Some 1000000000%Z)
            [(n_sub, Dir 493 (Some 1000000001%Z) [(n_b, File 420 (Some 1000000002%Z) [66])]);
             (n_z, File 384 (Some 1000000003%Z) [90; 90])]) /\
  (* a reverse copy: `rpdcp z o` from host h leaves o/z.h with mode and time (-p) *)
  match run_copy true true true true true 18 4096 [n_h] [[n_z]] (Some n_h) [] [111] fs_rev with
  | Some (w, _) => lookup (w_fs w) [[111]; n_z ++ [46] ++ n_h]
  | None => None
  end = Some (File 416 (Some 1000000003%Z) [90; 90]).
Proof. exact (conj ex_hyps (conj plain_copy reverse_copy)). Qed.
