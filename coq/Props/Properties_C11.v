(* C11 - pdcp/rpdcp reproduce the source tree exactly on every target.
   Statements only.  Models: Pcp/PcpClient.v (pcp_client.c), Pcp/PcpSink.v (pcp_server.c), Pcp/FsModel.v.
   Proofs: Pcp/PcpClientFacts.v. *)
From PV Require Import Pcp.FsModel Pcp.PcpSink Pcp.PcpClient Pcp.PcpClientFacts.
Local Open Scope N_scope.

(* the mode field: what the sender prints with "%04o" is what the receiver's scanner reads, for all modes *)
Theorem C11_mode_field : forall m r, m < 4096 -> getmode 4 (oct4 m ++ r) 0 = POk (m, r).
Proof. exact getmode_oct4. Qed.
Print Assumptions C11_mode_field.
