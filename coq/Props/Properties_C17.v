(* C17 - statements (placeholder while the model is being validated) *)
From PV Require Import Mod.ModPerm Mod.ModLoad.
