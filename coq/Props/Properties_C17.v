(* C17 - module loading is deterministic, conflict-safe, and refuses insecure code.
   Statements only; proofs in Mod/ModFacts.v, Mod/ModInitFacts.v, Mod/ModTop.v.
   The model (Mod/ModLoad.v, Mod/ModPerm.v) takes the directory listing in ENUMERATION ORDER, the
   stat() data of every entry and of every directory on the path, what dlsym finds in each file
   (type, name, priority, personality, option table, whether init succeeds), the -M list, the
   personality and pdsh's own option letters.  All statements are for every such input. *)
From Coq Require Import Permutation Sorted.
From PV Require Import Base.Bytes Mod.ModPerm Mod.ModLoad Mod.ModFacts Mod.ModInitFacts Mod.ModTop.
Local Open Scope N_scope.

(* ---- determinism ------------------------------------------------------------------------- *)
(* D17 l: among the entries of l that can be registered (secure regular file, module symbols,
   fitting personality) the pair (priority, name) identifies the module, and priorities are within
   +-2^30.  In particular two candidates with the same type and name have different priorities. *)
Theorem C17_deterministic : forall cfg l l', Permutation l l' -> D17 cfg l ->
  r_status (load cfg l) = r_status (load cfg l') /\
  r_modules (load cfg l) = r_modules (load cfg l') /\       (* module list, in order *)
  r_state (load cfg l) = r_state (load cfg l') /\           (* option string, active set, init() calls in order, registrations, refusals *)
  Permutation (r_opened (load cfg l)) (r_opened (load cfg l')).
Proof. exact deterministic. Qed.
Print Assumptions C17_deterministic.

(* outside D17 the result does depend on the enumeration order (the property only promises "the
   higher priority one"): two files with the same type, name AND priority *)
Theorem C17_order_dependent_outside_D17 :
  exists cfg l l', Permutation l l' /\ NoDup (map f_id l) /\ r_modules (load cfg l) <> r_modules (load cfg l').
Proof. exact order_dependent_equal_priority_duplicate. Qed.
Print Assumptions C17_order_dependent_outside_D17.

(* ... and priorities near INT_MAX/INT_MIN, where _cmp_f's subtraction wraps *)
Theorem C17_order_dependent_priority_overflow :
  exists cfg l l', Permutation l l' /\ NoDup (map f_id l) /\ key_unique (cands (c_who cfg) (c_pers cfg) l) /\
                   r_modules (load cfg l) <> r_modules (load cfg l').
Proof. exact order_dependent_priority_overflow. Qed.
Print Assumptions C17_order_dependent_priority_overflow.

(* the order of the tests in _mod_register before fixes/C17-register-personality-first.diff was
   order dependent INSIDE D17 (load_orig), the repaired order is not (load) *)
Theorem C17_original_register_order_dependent :
  exists cfg l l', Permutation l l' /\ NoDup (map f_id l) /\ D17 cfg l /\
                   r_modules (load_orig cfg l) <> r_modules (load_orig cfg l') /\
                   r_modules (load cfg l) = r_modules (load cfg l').
Proof. exact register_orig_order_dependent. Qed.
Print Assumptions C17_original_register_order_dependent.

(* ---- which modules, in which order ------------------------------------------------------- *)
(* of two candidates with the same type and name the lower priority one is not even listed *)
Theorem C17_duplicate_priority : forall cfg l a b,
  In a (cands (c_who cfg) (c_pers cfg) l) -> In b (cands (c_who cfg) (c_pers cfg) l) ->
  same_tn a b = true -> (lm_prio a < lm_prio b)%Z -> ~ In a (r_modules (load cfg l)).
Proof. exact duplicate_priority. Qed.
Print Assumptions C17_duplicate_priority.

(* the module list is exactly the best candidate of every (type, name) *)
Theorem C17_listed_iff_best : forall cfg l m, r_status (load cfg l) = Loaded -> D17 cfg l ->
  (In m (r_modules (load cfg l)) <-> best_of (cands (c_who cfg) (c_pers cfg) l) m).
Proof. exact listed_iff_best. Qed.
Print Assumptions C17_listed_iff_best.

(* ... sorted by priority (higher first), then by name *)
Theorem C17_priority_then_name : forall cfg l, D17 cfg l ->
  StronglySorted (fun x y => (lm_prio x > lm_prio y)%Z \/ (lm_prio x = lm_prio y /\ (strcmp (lm_name x) (lm_name y) <= 0)%Z))
                 (r_modules (load cfg l)).
Proof. exact modules_sorted. Qed.
Print Assumptions C17_priority_then_name.

(* ---- -M first ---------------------------------------------------------------------------- *)
(* every init() call of the -M pass comes before every call of the priority-ordered pass;
   the first in -M order, the second in list order *)
Theorem C17_forced_then_rest : forall cfg l,
  exists A B, r_inits (load cfg l) = A ++ B /\
    subseq A (map fst (resolve (r_modules (load cfg l)) (c_forced cfg))) /\
    subseq B (map fst (r_modules (load cfg l))).
Proof. exact load_forced_then_sweep. Qed.
Print Assumptions C17_forced_then_rest.

(* the first -M name that names a listed misc module whose options are free of pdsh's own letters
   is initialised before everything else, gets all its options and (init succeeding) is active -
   whatever the priorities of the other modules *)
Theorem C17_forced_first : forall cfg l name rest m,
  r_status (load cfg l) = Loaded -> c_forced cfg = name :: rest ->
  find_misc (r_modules (load cfg l)) name = Some m -> first_conflict (c_pers cfg) (c_base cfg) (snd m) = None ->
  hd_error (r_inits (load cfg l)) = Some (fst m) /\
  (m_init_ok (snd m) = true -> In (fst m) (r_active (load cfg l))) /\
  (forall o, In o (my_opts (c_pers cfg) (snd m)) -> In (fst m, o_letter o, o_arg o) (r_regs (load cfg l))).
Proof. exact load_forced_first. Qed.
Print Assumptions C17_forced_first.

(* ---- conflicts --------------------------------------------------------------------------- *)
(* a listed module one of whose options (for this personality) is held by another module is out as
   a whole: init() never ran, it is not active, NONE of its options was registered, nothing is
   dispatched to it *)
Theorem C17_conflict_whole_module : forall cfg l m o x a,
  NoDup (map f_id l) -> In m (r_modules (load cfg l)) -> In o (my_opts (c_pers cfg) (snd m)) ->
  In (x, o_letter o, a) (r_regs (load cfg l)) -> x <> fst m ->
  ~ In (fst m) (r_inits (load cfg l)) /\ ~ In (fst m) (r_active (load cfg l)) /\
  (forall c b, ~ In (fst m, c, b) (r_regs (load cfg l))) /\
  (forall c, r_dispatch (load cfg l) c <> Some (fst m)).
Proof. exact load_conflict_whole_module. Qed.
Print Assumptions C17_conflict_whole_module.

(* the option string is pdsh's own letters followed by exactly the registered options, and no letter
   has two owners *)
Theorem C17_option_string : forall cfg l,
  r_optstr (load cfg l) = c_base cfg ++ flat_map reg_bytes (r_regs (load cfg l)) /\
  forall i j c a b, In (i, c, a) (r_regs (load cfg l)) -> In (j, c, b) (r_regs (load cfg l)) -> i = j.
Proof. exact option_string. Qed.
Print Assumptions C17_option_string.

(* an inactive module (whose init would not fail) has left no trace; options go to active modules only *)
Theorem C17_inactive_no_trace : forall cfg l m,
  NoDup (map f_id l) -> In m (r_modules (load cfg l)) -> m_init_ok (snd m) = true -> ~ In (fst m) (r_active (load cfg l)) ->
  ~ In (fst m) (r_inits (load cfg l)) /\ (forall c b, ~ In (fst m, c, b) (r_regs (load cfg l))) /\
  (forall c, r_dispatch (load cfg l) c <> Some (fst m)).
Proof. exact load_inactive_no_trace. Qed.
Print Assumptions C17_inactive_no_trace.

(* ---- no insecure code -------------------------------------------------------------------- *)
(* whatever is handed to dlopen is a regular file owned by root, the caller or the owner of the pdsh
   binary and not world-writable, in a directory all of whose ancestors up to "/" are directories
   with such an owner and not world-writable unless sticky *)
Theorem C17_no_insecure_load : forall cfg l i, In i (r_opened (load cfg l)) ->
  (exists f, In f l /\ f_id f = i /\
     f_reg (f_st f) = true /\
     (f_owner (f_st f) = 0 \/ f_owner (f_st f) = w_uid (c_who cfg) \/ f_owner (f_st f) = w_alt (c_who cfg)) /\
     world_writable (f_mode (f_st f)) = false) /\
  Forall (fun d => d_isdir d = true /\
                   (d_owner d = 0 \/ d_owner d = w_uid (c_who cfg) \/ d_owner d = w_alt (c_who cfg)) /\
                   (world_writable (d_mode d) = true -> sticky (d_mode d) = true)) (c_chain cfg).
Proof. exact no_insecure_load. Qed.
Print Assumptions C17_no_insecure_load.

(* only opened files are ever listed or initialised; an insecure path means nothing at all happens *)
Theorem C17_code_runs_only_from_opened : forall cfg l,
  (forall m, In m (r_modules (load cfg l)) -> In (fst m) (r_opened (load cfg l))) /\
  (forall i, In i (r_inits (load cfg l)) -> In i (r_opened (load cfg l))) /\
  (path_permissions_ok (c_who cfg) (c_chain cfg) = false ->
   r_status (load cfg l) = Refused /\ r_opened (load cfg l) = [] /\ r_modules (load cfg l) = [] /\ r_inits (load cfg l) = []).
Proof. exact code_runs_only_from_opened. Qed.
Print Assumptions C17_code_runs_only_from_opened.

(* ---- PDSH_MODULE_DIR --------------------------------------------------------------------- *)
Theorem C17_privileged_ignores_env : forall (A : Type) (w : who) (env : option A) (builtin : A),
  w_uid w = 0 \/ w_uid w <> w_euid w -> module_dir w env builtin = builtin.
Proof. exact @privileged_ignores_env. Qed.
Print Assumptions C17_privileged_ignores_env.

Theorem C17_ordinary_user_env : forall (A : Type) (w : who) (d builtin : A),
  w_uid w <> 0 -> w_uid w = w_euid w -> module_dir w (Some d) builtin = d.
Proof. exact @ordinary_user_env. Qed.
Print Assumptions C17_ordinary_user_env.

(* ---- non-vacuity ------------------------------------------------------------------------- *)
(* a directory inside D17 with a duplicate (type, name), an option conflict, a -M name, a module of
   the other personality and a file of a foreign owner; what load makes of it *)
Example C17_domain_nonvacuous : D17 (cfg0 [nameB]) demo_listing /\ NoDup (map f_id demo_listing).
Proof. exact demo_in_D17. Qed.

Example C17_demo_nonvacuous :
  let r := load (cfg0 [nameB]) demo_listing in
  r_status r = Loaded /\ map fst (r_modules r) = [2; 3] /\ r_active r = [3] /\ r_inits r = [3] /\
  r_opened r = [1; 2; 3; 4] /\ r_optstr r = [104; 76; 78; 88; 90] /\ r_dispatch r 88 = Some 3.
Proof. exact demo_result. Qed.
