(* C15 - any text given as a host expression is handled safely and within limits.
   Statements only; proofs in Hostlist/HLLimits.v.  All are for EVERY byte string. *)
From PV Require Import Base.DecimalFacts Hostlist.HLDefs Hostlist.HLFacts Hostlist.HLLimits.
Local Open Scope N_scope.

(* whatever text sits between the brackets: an accepted range is ordered, within the
   documented limit, and its bounds are real (unsaturated) numbers *)
Theorem C15_range_limit : forall s r, parse_single_range s = Ok r ->
  r_lo r <= r_hi r /\ r_hi r - r_lo r < MAX_RANGE /\ r_hi r < ULONG - 1.
Proof. exact parse_single_range_sound. Qed.
Print Assumptions C15_range_limit.

(* a range larger than the limit is refused however large the numbers typed; with the
   'too many hosts' error whenever the lower bound leaves room for MAX_RANGE representable
   numbers above it *)
(* CHANGED BY PROOF: the original second conjunct
     (value a < ULONG - 1 -> parse_single_range (a ++ 45 :: b) = Err ERANGE)
   is false for the model.  Counterexample: a = "18446744073709551614" (ULONG-2),
   b = "18446744073709651616" (ULONG+100000): every hypothesis holds and value a < ULONG - 1,
   but the upper bound saturates to ULONG-1, hi - lo = 1 < MAX_RANGE, and the reserved-value
   check answers Err EINVAL (see C15_too_many_counterexample below).  The refusal is ERANGE
   exactly when value a + MAX_RANGE < ULONG. *)
Theorem C15_too_many : forall a b, a <> [] -> b <> [] -> forallb is_digit a = true -> forallb is_digit b = true ->
  value a <= value b -> MAX_RANGE <= value b - value a ->
  (exists e, parse_single_range (a ++ 45 :: b) = Err e) /\
  (value a + MAX_RANGE < ULONG -> parse_single_range (a ++ 45 :: b) = Err ERANGE).
Proof. exact parse_too_many. Qed.
Print Assumptions C15_too_many.

Theorem C15_reversed : forall a b, a <> [] -> b <> [] -> forallb is_digit a = true -> forallb is_digit b = true ->
  value b < value a -> parse_single_range (a ++ 45 :: b) = Err EINVAL.
Proof. exact parse_reversed. Qed.
Print Assumptions C15_reversed.

(* a bound that does not start with a number is refused *)
Theorem C15_non_numeric : forall s, (forall ds r, strtoul (fst (split_at 45 s)) <> Some (ds, r, false) /\
                                                 strtoul (fst (split_at 45 s)) <> Some (ds, r, true)) ->
  parse_single_range s = Err EINVAL.
Proof. exact parse_non_numeric. Qed.
Print Assumptions C15_non_numeric.

(* unbalanced brackets make the whole parse fail *)
Theorem C15_unbalanced_open : forall h tok p after, split_at 91 tok = (p, Some after) -> ~ In 93 after ->
  create_tok h tok = Err EINVAL.
Proof. exact create_tok_unbalanced_open. Qed.
Print Assumptions C15_unbalanced_open.
Theorem C15_unbalanced_close : forall h tok, ~ In 91 tok -> In 93 tok -> create_tok h tok = Err EINVAL.
Proof. exact create_tok_unbalanced_close. Qed.
Print Assumptions C15_unbalanced_close.

(* an error in any word fails the whole expression (nothing is half-created) *)
Theorem C15_error_propagates : forall fuel h s tok rest e, next_tok s = Some (tok, rest) ->
  create_tok h tok = Err e -> create_loop (S fuel) h s = Err e.
Proof. exact create_loop_error. Qed.
Print Assumptions C15_error_propagates.

(* the model never reaches an out-of-contract state, and every accepted expression yields
   well-formed records whose total size is bounded: no more than MAX_RANGE hosts per byte typed *)
Theorem C15_no_fault : forall s f, create s <> Fault f.
Proof. exact create_no_fault. Qed.
Print Assumptions C15_no_fault.

Theorem C15_size_bound : forall s h, create s = Ok h ->
  Forall hr_ok (ranges h) /\ (nhosts h <= Z.of_N (MAX_RANGE * N.of_nat (length s)))%Z /\
  N.of_nat (length (expand (ranges h))) = Z.to_N (nhosts h).
Proof. exact create_size_bound. Qed.
Print Assumptions C15_size_bound.

(* the input that refutes the original wording of C15_too_many *)
Example C15_too_many_counterexample :
  let a := [49;56;52;52;54;55;52;52;48;55;51;55;48;57;53;53;49;54;49;52] in
  let b := [49;56;52;52;54;55;52;52;48;55;51;55;48;57;54;53;49;54;49;54] in
  value a = ULONG - 2 /\ value b = ULONG + 100000 /\
  parse_single_range (a ++ 45 :: b) = Err EINVAL.
Proof. repeat split; vm_compute; reflexivity. Qed.

Example C15_nonvacuous :
  parse_single_range [48;45;49;56;52;52;54;55;52;52;48;55;51;55;48;57;53;53;49;54;49;53] = Err ERANGE /\
  parse_single_range [49;45;49;54;51;56;52] = Ok (mkrng 1 16384 1).
Proof. split; vm_compute; reflexivity. Qed.
