(* C07 - a failing or slow host never harms the others; time-outs bound the run.
   Statements only; proofs in Dsh/SysFacts.v. *)
From PV Require Import Dsh.Sys.
Local Open Scope Z_scope.
Example C07_model_runs : exists s, run (mkcfg 1 1 1 0 false [BOk]) (init (mkcfg 1 1 1 0 false [BOk]) 1000) [ELockD; ECreate 0; EUnlockD; EStart 0] = Some s.
Proof. eexists. vm_compute. reflexivity. Qed.
