(* C07 - a failing or slow host never harms the others; time-outs bound the run.
   Statements only; proofs in Dsh/SysFacts.v and Dsh/SysProj.v.  The system (Dsh/Sys.v) is the
   whole dsh() run: dispatcher, one worker per target with an arbitrary behaviour assigned to
   each host (ok / refuse / hang in connect / hang mid-command), the watchdog, the integer clock.
   Every statement is for every number of targets, every fanout >= 1, every assignment of
   behaviours, every time-out setting and every admitted event sequence. *)
From PV Require Import Dsh.Sys Dsh.SysFacts Dsh.SysProj Dsh.SysLive Dsh.SysClock Dsh.SysMeasure Dsh.SysTerm.
Local Open Scope Z_scope.

(* ---- isolation: whatever the other hosts do, each target gets exactly one command ---- *)
(* at most once, in order (create, connect, tear down), only real targets *)
Theorem C07_each_target_once : forall (c : cfg), (0 < ntgt c)%nat -> 1 <= f c -> forall t0 es s i,
  run c (init c t0) es = Some s -> nosig es ->
  (nevs (is_create i) es <= 1)%nat /\ (nevs (is_connbegin i) es <= nevs (is_create i) es)%nat /\
  (nevs (is_destroy i) es <= nevs (is_connbegin i) es)%nat /\ (nevs (is_create i) es = 1%nat -> (i < ntgt c)%nat).
Proof. exact faults_once. Qed.
Print Assumptions C07_each_target_once.

(* pdsh returns only after every target - refused, hung, timed out or healthy - was started
   once, torn down once and its worker has signalled completion: no fault path skips the
   epilogue, none runs it twice *)
Theorem C07_exit_after_all : forall (c : cfg), (0 < ntgt c)%nat -> 1 <= f c -> forall t0 es s,
  run c (init c t0) es = Some s -> nosig es -> In EExit es ->
  tc s = 0 /\ forall i, (i < ntgt c)%nat ->
    (exists w, nth_error (ws s) i = Some w /\ pc w = PExit) /\
    nevs (is_create i) es = 1%nat /\ nevs (is_connbegin i) es = 1%nat /\ nevs (is_destroy i) es = 1%nat.
Proof. exact faults_exit_after_all. Qed.
Print Assumptions C07_exit_after_all.

(* failing hosts do not leak or double-release fanout slots *)
Theorem C07_fanout_bound_with_faults : forall (c : cfg), (0 < ntgt c)%nat -> 1 <= f c -> forall t0 es s,
  run c (init c t0) es = Some s -> nosig es -> inflight s <= f c /\ 0 <= tc s <= f c.
Proof. exact faults_bound. Qed.
Print Assumptions C07_fanout_bound_with_faults.

(* the only thing pdsh ever waits for, apart from the clock, is a host that hangs inside connect()
   or the read loop: in every reachable state that has not exited either some thread can take a
   step, or such a host exists (and the deadline below bounds how long, when its time-out is > 0) *)
Theorem C07_never_stuck : forall (c : cfg), 1 <= f c -> forall t0 es s, run c (init c t0) es = Some s -> exited s = None ->
  can_move c s \/ hung_worker c s.
Proof. exact no_deadlock. Qed.
Print Assumptions C07_never_stuck.

(* ---- time-outs ---- *)
(* On every run in which time advances only while every thread is blocked (Sys.calm: watchdog
   asleep and not due, every worker not created / inside connect() or poll() with no signal
   pending / gone), a worker hanging un-signalled in connect() with a positive connect timeout
   [hang_due = start + timeout], or in the read loop with a positive command timeout
   [hang_due = connect stamp + timeout], is never seen later than that plus the watchdog period:
   it has been sent SIGALRM by then. *)
Theorem C07_deadline : forall (c : cfg) t0 es s i w t, urun c (init c t0) es s ->
  nth_error (ws s) i = Some w -> hang_due c i w = Some t -> now s <= t + Z.of_N WDOG_POLL.
Proof. exact deadline. Qed.
Print Assumptions C07_deadline.

(* The bound in numbers.  With positive connect and command time-outs, on every run in which time advances only
   when no thread can take a step (murun: at each tick the watchdog is asleep and every non-environment event is
   refused), the clock never passes
        t0 + (2 * targets + 1) * (max (connect time-out, command time-out) + watchdog period)
   whatever each host does (answers, refuses, hangs in connect, hangs mid-command) and whatever interrupts arrive:
   every tick is charged to a host that hangs within its deadline, and each worker takes at most two stamps.
   With C07_never_stuck this is "one unresponsive host cannot stall the run". *)
Theorem C07_run_time_bounded : forall (c : cfg), 1 <= f c -> 0 < tconn c -> 0 < tcmd c -> forall t0, 0 <= t0 -> forall es s,
  murun c (init c t0) es s ->
  now s <= t0 + (2 * Z.of_nat (ntgt c) + 1) * (Z.max (tconn c) (tcmd c) + Z.of_N WDOG_POLL).
Proof. exact clock_bound. Qed.
Print Assumptions C07_run_time_bounded.

(* the same with the tick condition in its plain form - "no thread can take a step" alone (mprun); that such a state is
   calm (watchdog asleep and not due, every worker parked) is a lemma, not a hypothesis *)
Theorem C07_run_time_bounded_plain : forall (c : cfg), 1 <= f c -> 0 < tconn c -> 0 < tcmd c -> forall t0, 0 <= t0 -> forall es s,
  mprun c (init c t0) es s ->
  now s <= t0 + (2 * Z.of_nat (ntgt c) + 1) * (Z.max (tconn c) (tcmd c) + Z.of_N WDOG_POLL).
Proof. exact clock_bound_mp. Qed.
Print Assumptions C07_run_time_bounded_plain.

(* No livelock: from every reachable state, a stretch of the run without events of the environment (clock tick,
   spurious wake-up of the dispatcher, arrival of a signal) is no longer than an explicit measure of that state
   (4 * remaining worker steps + dispatcher phase + 5 * watchdog scan + signals thread phase); the watchdog period
   must be positive (it is read from dsh.h into Generated/Params.v).  Faults and interrupts included. *)
Theorem C07_no_livelock : forall (c : cfg), 1 <= f c -> 0 < Z.of_N WDOG_POLL -> forall t0 es1 s es s',
  run c (init c t0) es1 = Some s -> exited s = None -> run c s es = Some s' -> no_env es = true ->
  Z.of_nat (length es) <= mu c s.
Proof. exact no_livelock_reachable. Qed.
Print Assumptions C07_no_livelock.

(* Termination in numbers.  With positive time-outs, a maximal-progress run (the clock ticks only when no thread can take a
   step) without spurious wake-ups of the dispatcher and without signals has at most
       (2N+1) (max time-out + watchdog period) (83N + 29) + 83N + 28
   events, whatever the hosts do; and a run that has not exited can always be extended by such an event.  Hence every
   such run ends, and ends with pdsh exited: a hung or failing host delays the others by a bounded time and never for ever. *)
Theorem C07_run_length_bounded : forall (c : cfg), 1 <= f c -> 0 < tconn c -> 0 < tcmd c -> 0 < Z.of_N WDOG_POLL -> forall t0, 0 <= t0 ->
  forall es s, mprun c (init c t0) es s -> quiet_env es = true ->
  Z.of_nat (length es) <= (2 * Z.of_nat (ntgt c) + 1) * (Z.max (tconn c) (tcmd c) + Z.of_N WDOG_POLL) * (83 * Z.of_nat (ntgt c) + 28 + 1)
                           + (83 * Z.of_nat (ntgt c) + 28).
Proof. exact run_length_bounded. Qed.
Print Assumptions C07_run_length_bounded.

Theorem C07_run_extensible : forall (c : cfg) t0 es s, mprun c (init c t0) es s -> exited s = None ->
  exists e s', mprun c (init c t0) (es ++ [e]) s' /\ match e with ESpur | ESigArrive _ => False | _ => True end.
Proof. exact run_extensible. Qed.
Print Assumptions C07_run_extensible.

Example C07_watchdog_period_positive : 0 < Z.of_N WDOG_POLL.
Proof. vm_compute. reflexivity. Qed.

(* the executable test the trace acceptor applies at every tick of a maximal-progress run is sound for that notion *)
Theorem C07_blocked_test_sound : forall (c : cfg) s, blockedb c s = true -> ~ can_move c s.
Proof. exact blockedb_sound. Qed.
Print Assumptions C07_blocked_test_sound.

(* non-vacuity: a maximal-progress run with ticks exists (same scenario as C07_nonvacuous below: the first of two
   hosts hangs in connect(); every tick is taken in a state where nothing else can move) and reaches t0 + 4 *)
Example C07_run_time_nonvacuous :
  let c := mkcfg 2 2 2 1 false [BHangConn; BOk] in
  let es := [EWdWake; ELockD; ECreate 0; EUnlockD; EStart 0; ELock1 0; EUnlock1 0; EConnBegin 0;
             ELockD; ECreate 1; EUnlockD; EStart 1; ELock1 1; EUnlock1 1; EConnBegin 1; EConnOk 1; ELock1 1; EUnlock1 1;
             ELock1 1; EUnlock1 1; EDestroy 1; ELock0 1; ESignal 1; EUnlock0 1; ELockD; EWaitD;
             ETick; ETick; EWdWake; ETick; ETick] in
  exists s, murun c (init c 1000) es s /\ now s = 1004 /\ now s <= 1000 + (2 * 2 + 1) * (Z.max 2 1 + Z.of_N WDOG_POLL).
Proof.
  cbv zeta. eexists. split; [apply murunb_murun; vm_compute; reflexivity|]. split; vm_compute; [reflexivity|discriminate].
Qed.

(* ... and nobody is signalled early: the watchdog selects a slot only when its stamp + timeout
   is strictly in the past on the watchdog's own reading of the clock *)
Theorem C07_kill_only_when_overdue : forall (c : cfg) s e s' j, step c s e = Some s' -> wd s' = WdKilling j ->
  (e = EWdWake \/ exists i, e = EWdKill i) ->
  exists w, nth_error (ws s') j = Some w /\ killable c s' w = true.
Proof. exact kill_only_when_overdue. Qed.
Print Assumptions C07_kill_only_when_overdue.

(* the documented meaning of command timeout 0: a host hanging mid-command is waited for *)
Theorem C07_timeout0_never_abandons : forall (c : cfg) s w, tcmd c <= 0 -> ts w = TReading -> killable c s w = false.
Proof. exact timeout0_never_abandons. Qed.
Print Assumptions C07_timeout0_never_abandons.

(* non-vacuity: the deadline is attained.  Two targets, the first hangs in connect(); connect
   timeout 2; the worker starts at t=1000, the watchdog polls at 1000, 1002 (not yet overdue:
   1002 < 1002 is false) and 1004 = 1000 + 2 + WDOG_POLL, when it signals. *)
Example C07_nonvacuous :
  let c := mkcfg 2 2 2 0 false [BHangConn; BOk] in
  let es := [EWdWake; ELockD; ECreate 0; EUnlockD; EStart 0; ELock1 0; EUnlock1 0; EConnBegin 0;
             ELockD; ECreate 1; EUnlockD; EStart 1; ELock1 1; EUnlock1 1; EConnBegin 1; EConnOk 1; ELock1 1; EUnlock1 1;
             ELock1 1; EUnlock1 1; EDestroy 1; ELock0 1; ESignal 1; EUnlock0 1; ELockD; EWaitD;
             ETick; ETick; EWdWake; ETick; ETick] in
  exists s w, urun c (init c 1000) es s /\ nth_error (ws s) 0 = Some w /\ hang_due c 0 w = Some 1002 /\ now s = 1004 /\
              step c s EWdWake <> None /\ (forall s', step c s EWdWake = Some s' -> wd s' = WdKilling 0).
Proof.
  cbv zeta. eexists. eexists. split; [apply urunb_urun; vm_compute; reflexivity|].
  split; [vm_compute; reflexivity|]. split; [vm_compute; reflexivity|]. split; [vm_compute; reflexivity|].
  split; [vm_compute; discriminate|]. intros s' H. vm_compute in H. inversion H; subst. reflexivity.
Qed.
