(* C12 - a copy peer can only write inside the destination it was given.
   Statements only.  Model: Pcp/FsModel.v (abstract file system, Linux path resolution, no
   symbolic links), Pcp/PcpSink.v (_sink of src/pdsh/pcp_server.c with the name check of
   fixes/C12-name-escape.diff; c_check = false is the code before the fix).
   Spec: Pcp/PcpSpec.v (under, acceptable).  Proofs: Pcp/FsFacts.v, PcpSinkFacts.v, PcpNoFault.v,
   PcpConfined.v, PcpAnswer.v, PcpWitness.v.

   sink cfg fs stream = (final world, how the run ended); the world holds the tree, the unread
   input and the transcript (control lines read, replies written, file-system calls with the
   canonical path each resolved to). *)
From PV Require Import Pcp.FsModel Pcp.PcpSink Pcp.FsFacts Pcp.PcpSpec Pcp.PcpNoFault Pcp.PcpConfined Pcp.PcpAnswer Pcp.PcpWitness.
Local Open Scope N_scope.

(* For ALL byte streams, trees, destinations, flags, umasks, block sizes - with or without the
   name check: no store outside the control-line buffer (malloc(BUFSIZ), reader bound
   &buf[BUFSIZ - 1]) or the block buffer, no load of a byte never stored, no scanner running off
   the buffer (RetFault), and the fuel (stream length + 1) always suffices (RetFuel). *)
Theorem C12_no_fault : forall cfg fs stream, snd (sink cfg fs stream) = RetEnd.
Proof. exact sink_no_fault. Qed.
Print Assumptions C12_no_fault.

(* For ALL byte streams: every file-system call the receiver makes (stat, mkdir, chmod, open,
   write, ftruncate, utimes - successful or not) resolves to the destination or to a path
   beneath it, and that path is canonical (no "..", ".", empty component or '/').
   Domain: the name check is present; the destination string resolves (its parent exists);
   the tree has no symbolic links (the model has none and the protocol cannot create one). *)
Theorem C12_confined : forall cfg fs stream dp t,
  c_check cfg = true ->
  canon (c_cwd cfg) ->
  resolve fs (c_cwd cfg) (c_dest cfg) = ROk dp t ->
  forall p, In p (touched (fst (sink cfg fs stream))) -> under dp p /\ canon p.
Proof. exact sink_confined. Qed.
Print Assumptions C12_confined.

(* Without the check (the code before the fix) confinement is false: the stream
   "C0644 5 ../evil\nhello\0" sent to `pdcp -z dest` running in /d creates /d/evil. *)
Theorem C12_confined_refuted_without_check :
  exists cfg fs stream dp t p,
    c_check cfg = false /\ canon (c_cwd cfg) /\
    resolve fs (c_cwd cfg) (c_dest cfg) = ROk dp t /\
    In p (touched (fst (sink cfg fs stream))) /\ ~ under dp p /\
    lookup fs p = None /\ lookup (w_fs (fst (sink cfg fs stream))) p <> None.
Proof. exact c12_refuted. Qed.
Print Assumptions C12_confined_refuted_without_check.

(* For ALL byte streams: reading the transcript in chronological order, every control line
   that is not an acceptable record (PcpSpec.acceptable: T/C/D/E syntax, relayed \001/\002
   messages, and a C/D name without '/' that is not "..") is followed immediately by an error
   record (byte 1 ...) on the reply channel. *)
Theorem C12_malformed_answered : forall cfg fs stream,
  c_check cfg = true -> answered (rev (w_log (fst (sink cfg fs stream)))).
Proof. intros cfg fs stream H. exact (sink_answered cfg H fs stream). Qed.
Print Assumptions C12_malformed_answered.

(* the hypotheses are met by ordinary runs, and the conclusions say something there *)
Example C12_nonvacuous :
  (* a T/D/C/E/C session: ends normally, eight acknowledgements, files where they belong *)
  (let r := sink (wit_cfg true) wit_fs ok_stream in
   c_check (wit_cfg true) = true /\ canon (c_cwd (wit_cfg true)) /\
   resolve wit_fs (c_cwd (wit_cfg true)) (c_dest (wit_cfg true)) = ROk [s_d; s_dest] false /\
   snd r = RetEnd /\
   replies (fst r) = [Ack; Ack; Ack; Ack; Ack; Ack; Ack; Ack] /\
   lookup (w_fs (fst r)) [s_d; s_dest; [120]; [121]] = Some (File 384 None [104;105]) /\
   In [s_d; s_dest; [120]; [121]] (touched (fst r))) /\
  (* the hostile record is refused by an error record and the tree is unchanged *)
  (replies (fst (sink (wit_cfg true) wit_fs wit_stream)) = [Ack; Err EName; Err (EScrewup 2)] /\
   w_fs (fst (sink (wit_cfg true) wit_fs wit_stream)) = wit_fs) /\
  (* a transcript with an unacceptable line ("C0694 0 z": 9 is no octal digit) *)
  (exists a b, rev (w_log (fst (sink (wit_cfg true) wit_fs bad_stream))) =
               a ++ Line [67;48;54;57;52;32;48;32;122] :: Reply (Err (EScrewup 9)) :: b /\
               acceptable [67;48;54;57;52;32;48;32;122] = false).
Proof. exact c12_nonvacuous. Qed.
