(* C16 - host-list editing behaves like editing a plain list of names.
   Statements only; proofs in Hostlist/HLEditFacts.v, HLEditFind.v, HLEditHistory.v.
   M = Hostlist/HLEdit.v (hostlist.c with fixes/C16-*.diff and C02-delete-all-occurrences.diff),
   S = Hostlist/HLEditSpec.v (a plain list of names with cursor iterators),
   R m s = the range array expands to the list, the cached count is its length, and every live
   iterator's (range index, depth) denotes the cursor of its plain-list twin. *)
From PV Require Import Base.DecimalFacts Hostlist.HLFacts Hostlist.HLSpec Hostlist.HLParseFacts Hostlist.HLLimits.
From PV Require Import Hostlist.HLEditHistory Hostlist.HLEditUniq.
Local Open Scope nat_scope.

(* ---- any history: counts, names returned, positions, what every live iterator sees ---- *)
Theorem C16_history_refines : forall ops m s s' vs, R m s -> hist_domain s ops -> srun s ops = Some (s', vs) ->
  exists m', run m ops = ROk (m', vs) /\ R m' s'.
Proof. exact history_refines. Qed.
Print Assumptions C16_history_refines.

Theorem C16_history_from_empty : forall ops s' vs, hist_domain ss_empty ops -> srun ss_empty ops = Some (s', vs) ->
  exists m', run st_empty ops = ROk (m', vs) /\ st_names m' = ss_names s' /\ st_count m' = Z.of_nat (length (ss_names s')).
Proof. exact history_from_empty. Qed.
Print Assumptions C16_history_from_empty.

Theorem C16_step_refines : forall m s o s' v, R m s -> op_domain s o -> sstep s o = Some (s', v) ->
  exists m', step m o = ROk (m', v) /\ R m' s'.
Proof. exact step_refines. Qed.
Print Assumptions C16_step_refines.

(* ---- the operations one by one (any number of live iterators) ---- *)
Theorem C16_count : forall m s, R m s -> st_count m = Z.of_nat (length (ss_names s)).
Proof. exact count_refines. Qed.
Print Assumptions C16_count.

Theorem C16_nth : forall m s n, R m s -> (0 <= n)%Z -> st_nth m n = ROk (nth_error (ss_names s) (Z.to_nat n)).
Proof. exact nth_refines. Qed.
Print Assumptions C16_nth.

Theorem C16_shift : forall m s, R m s ->
  match ss_names s with
  | [] => st_shift m = ROk (m, None)
  | x :: _ => exists m', st_shift m = ROk (m', Some x) /\ R m' (s_remove_at s 0)
  end.
Proof. exact shift_refines. Qed.
Print Assumptions C16_shift.

Theorem C16_pop : forall m s, R m s ->
  match ss_names s with
  | [] => st_pop m = ROk (m, None)
  | _ => exists m', st_pop m = ROk (m', nth_error (ss_names s) (length (ss_names s) - 1)) /\
                    R m' (s_remove_at s (length (ss_names s) - 1))
  end.
Proof. exact pop_refines. Qed.
Print Assumptions C16_pop.

Theorem C16_push : forall m s e t, R m s -> create e = Ok t -> Forall hr_ok2 (ranges t) ->
  (Z.of_nat (length (ss_names s) + length (expand (ranges t))) <= INT_MAX)%Z ->
  exists m', st_push m e = ROk (m', Z.of_nat (length (expand (ranges t)))) /\
             R m' (mkss (ss_names s ++ expand (ranges t)) (ss_iters s)).
Proof. exact push_refines. Qed.
Print Assumptions C16_push.

Theorem C16_delete_nth : forall m s n, R m s -> (0 <= n < Z.of_nat (length (ss_names s)))%Z ->
  exists m', st_delete_nth m n = ROk (m', 1%Z) /\ R m' (s_remove_at s (Z.to_nat n)).
Proof. exact delete_nth_refines. Qed.
Print Assumptions C16_delete_nth.

(* find never reports a position that does not hold the name: every list, every name *)
Theorem C16_find_sound : forall m s name m' ret, R m s -> st_find m name = (m', ret) ->
  R m' s /\ (ret = (-1)%Z \/ exists k, ret = Z.of_nat k /\ nth_error (ss_names s) k = Some name).
Proof. exact find_sound_refines. Qed.
Print Assumptions C16_find_sound.

(* and reports the first position, for names whose numeric tail is at most MAX_HOST_SUFFIX *)
Theorem C16_find_complete_partial : forall m s name, R m s -> D02n name ->
  exists m', st_find m name = (m', match first_index name (ss_names s) with Some k => Z.of_nat k | None => (-1)%Z end) /\ R m' s.
Proof. exact find_refines. Qed.
Print Assumptions C16_find_complete_partial.

Theorem C16_delete_host : forall m s name, R m s -> D02n name ->
  exists m', st_delete_host m name = ROk (m', snd (s_delete_host s name)) /\ R m' (fst (s_delete_host s name)).
Proof. exact delete_host_refines. Qed.
Print Assumptions C16_delete_host.

Theorem C16_delete : forall m s e names, R m s -> expr_ok e -> expansion e = Some names ->
  Forall D02n names -> (Z.of_nat (length names) <= INT_MAX)%Z ->
  exists m', st_delete m e = ROk (m', snd (s_delete_names s (rev names) 0)) /\ R m' (fst (s_delete_names s (rev names) 0)).
Proof. exact delete_refines. Qed.
Print Assumptions C16_delete.

(* ---- iterators ---- *)
Theorem C16_iter_next : forall m s h si, R m s -> s_get s h = Some si ->
  match nth_error (ss_names s) (si_pos si) with
  | Some x => exists m', st_next m h = ROk (m', Some x) /\ R m' (s_put s h (Some (mksi (S (si_pos si)) true)))
  | None => exists m', st_next m h = ROk (m', None) /\ R m' (s_put s h (Some (mksi (si_pos si) false)))
  end.
Proof. exact next_refines. Qed.
Print Assumptions C16_iter_next.

Theorem C16_iter_remove : forall m s h si, R m s -> s_get s h = Some si -> si_cur si = true ->
  exists m', st_remove m h = ROk (m', 1%Z) /\ R m' (s_remove_at s (si_pos si - 1)).
Proof. exact remove_refines. Qed.
Print Assumptions C16_iter_remove.

(* whatever happened before, an iterator goes on to return exactly the names behind its cursor *)
Theorem C16_iter_remaining : forall k m s h si, R m s -> s_get s h = Some si ->
  length (ss_names s) - si_pos si <= k ->
  exists m', drain (S k) m h = ROk (m', skipn (si_pos si) (ss_names s)) /\
             R m' (s_put s h (Some (mksi (Nat.max (si_pos si) (length (ss_names s))) false))).
Proof. exact drain_remaining. Qed.
Print Assumptions C16_iter_remaining.

(* ---- where the code fails the property (findings) ---- *)
(* find misses a host that a bracket expression built when its number exceeds MAX_HOST_SUFFIX *)
Theorem C16_find_complete_refuted : exists l name,
  Forall hr_ok2 l /\ In name (expand l) /\ snd (find l name) = (-1)%Z.
Proof. exact find_complete_refuted. Qed.
Print Assumptions C16_find_complete_refuted.

(* uniq keeps foo10 twice for foo[5-10],foo[06-10]: the array is sorted w.r.t. hostrange_cmp (the two
   widths are incompatible, so the comparison falls back to the widths), yet the join loop cannot merge *)
Theorem C16_uniq_refuted : exists m sorted m', st_inv m /\ sorted_by_cmp sorted = true /\ st_uniq m sorted = ROk m' /\
  exists i j x, i <> j /\ nth_error (st_names m') i = Some x /\ nth_error (st_names m') j = Some x.
Proof. exact uniq_refuted. Qed.
Print Assumptions C16_uniq_refuted.

(* ---- removing duplicates, where the code achieves it ----
   qsort is an oracle: `sorted` is whatever array it left (st_uniq refuses anything that is not a
   rearrangement of the range array).  If all ranges of one prefix carry the same zero-padding width,
   names of different prefixes or kinds never coincide, numbers stay below 2^31 - 1 and neighbours are
   in hostrange_cmp order, then every distinct name is left exactly once, none is lost, the cached
   count is right again and every iterator is reset. *)
Theorem C16_uniq_partial : forall m sorted m',
  st_inv m -> Forall small sorted -> uniform sorted -> class_disjoint sorted -> sorted_by_cmp sorted = true ->
  st_uniq m sorted = ROk m' ->
  st_inv m' /\ uniq_spec (st_names m) (st_names m') /\
  (length (st_ranges m) <= 1 \/ Forall (fun o => o = None \/ o = Some (it_reset (st_ranges m'))) (st_iters m')).
Proof. exact uniq_uniform. Qed.
Print Assumptions C16_uniq_partial.

Example C16_uniq_nonvacuous :
  (Forall small uniq_demo /\ uniform uniq_demo /\ class_disjoint uniq_demo /\ sorted_by_cmp uniq_demo = true) /\
  exists m', st_uniq (mkst uniq_demo 15 []) uniq_demo = ROk m' /\
    st_names m' = [[97; 49]; [97; 50]; [97; 51]; [97; 52]; [97; 53]; [97; 54]; [97; 55]; [97; 56]; [97; 57]; [98; 50]; [120]]%N /\ st_count m' = 11%Z.
Proof. exact (conj uniq_demo_ok uniq_demo_run). Qed.

(* ---- the hypotheses are met by ordinary inputs ---- *)
Example C16_history_nonvacuous : exists s' vs,
  hist_domain ss_empty demo_ops /\ srun ss_empty demo_ops = Some (s', vs) /\ ss_names s' = demo_names.
Proof. exact demo_ok. Qed.
