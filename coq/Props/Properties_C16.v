(* C16 - host-list editing behaves like editing a plain list of names.
   Statements only (placeholder while the proofs are being written). *)
From PV Require Import Hostlist.HLEdit.
Local Open Scope N_scope.

Theorem C16_placeholder : st_count st_empty = 0%Z.
Proof. reflexivity. Qed.
Print Assumptions C16_placeholder.
