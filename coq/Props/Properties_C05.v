(* C05 - each host's output is relayed complete, in order, exactly once.
   Statements only; proofs in Dsh/OutputFacts.v. *)
(* with_labels: Dsh/OutputDomain.v *)
From PV Require Import Cbuf.CbufDefs Dsh.Output Dsh.OutputSpec Dsh.OutputDomain Dsh.OutputFacts.
From PV Require Import Props.Properties_C06.
Local Open Scope N_scope.

(* for every stream in the domain and EVERY fragmentation: the texts written for the host,
   labels aside, concatenate to exactly the bytes the remote wrote - nothing lost, nothing
   duplicated, nothing invented, order kept *)
Theorem C05_stream_identity : forall x s, script_ok s -> in_domain x (stream_of s) ->
  exists texts, snd (run_stream x s) = with_labels x texts /\ concat (map snd texts) = stream_of s.
Proof. exact stream_identity. Qed.
Print Assumptions C05_stream_identity.

(* the same on the full domain of the property text (unterminated rest of up to exactly 128 KiB) *)
Theorem C05_stream_identity_wide : forall x s, script_ok s -> in_domain_wide x (stream_of s) ->
  exists texts, snd (run_stream x s) = with_labels x texts /\ concat (map snd texts) = stream_of s.
Proof. exact stream_identity_wide. Qed.
Print Assumptions C05_stream_identity_wide.

(* non-vacuity: a stream cut in the middle of a line, EAGAIN in between, unterminated rest *)
Example C05_nonvacuous :
  let x := mkoctx true false [110;49;46;100] true in
  let s := [Avail [104;105;10;102]; RdErr; Avail [111;10;98;97]; Eof; Avail [33]] in
  script_ok s /\ stream_of s = [104;105;10;102;111;10;98;97] /\ snd (run_stream x s) = [[110;49;58;32;104;105;10]; [110;49;58;32;102;111;10]; [110;49;58;32;98;97]].
Proof. cbn zeta. split; [repeat constructor; discriminate|]. split; vm_compute; reflexivity. Qed.
