(* C10 - the target list is assembled faithfully from every source.
   Statements only; proofs in Args/WcollFacts.v.  Model: Args/WcollFile.v (wcoll.c), Args/Assemble.v (opt.c);
   specification: Args/WcollSpec.v.  For every finite file system (a map from path strings to contents), every
   line length, every include graph (nested, diamond, cyclic), every list of -w arguments in any order, every
   standard input and every value of WCOLL.

   Domain D10 (Args/WcollSpec.v): text files (no NUL byte); a line that starts with "#include" is shorter than
   4095 bytes (the 4096-byte path buffer of wcoll.c; host lines may have ANY length); readable paths are shorter
   than PATH_MAX = 4096.  knows_self: a readable file is also readable under dirname/basename of its name. *)
From PV Require Import Args.WcollSpec Args.WcollFacts.
Local Open Scope N_scope.

(* ---------- (a) model = specification ---------- *)
(* a file named on the command line: the reader computes an outcome (never Fault, never out of fuel), and it is
   the outcome the specification gives; the specification gives only one *)
Theorem C10_assemble_file : forall fs file, D10 fs = true -> knows_self fs file ->
  exists o, read_wcoll fs file = embed o /\ file_hosts fs (dirname file) (self_of file) file o.
Proof. exact read_wcoll_spec. Qed.
Print Assumptions C10_assemble_file.

Theorem C10_assemble_stdin : forall fs content, D10 fs = true -> text_okb content = true ->
  exists o, read_stream fs content = embed o /\ stream_hosts fs content o.
Proof. exact read_stream_spec. Qed.
Print Assumptions C10_assemble_stdin.

Theorem C10_file_spec_deterministic : forall fs dir ls seen o1, reads fs dir ls seen o1 ->
  forall o2, reads fs dir ls seen o2 -> o1 = o2.
Proof. exact reads_fun. Qed.
Print Assumptions C10_file_spec_deterministic.

(* the whole command line: -w arguments in order, standard input, WCOLL *)
Theorem C10_assemble : forall fs, D10 fs = true -> (forall p, knows_self fs p) ->
  forall stdin wcoll args, text_okb stdin = true ->
  match assemble (mkaw fs stdin wcoll) args with
  | AOk es w => target_list fs dirname self_of stdin wcoll args (Some (es, w))
  | AError => target_list fs dirname self_of stdin wcoll args None
  | AFault | ADiverges => False
  | AOutOfScope => exists w, In w (flat_map words_of args) /\ source_of w = SOther
  end.
Proof. exact assemble_spec. Qed.
Print Assumptions C10_assemble.

Theorem C10_spec_deterministic : forall fs d s stdin wcoll args r1 r2,
  target_list fs d s stdin wcoll args r1 -> target_list fs d s stdin wcoll args r2 -> r1 = r2.
Proof. exact target_list_fun. Qed.
Print Assumptions C10_spec_deterministic.

(* the words of a -w argument: list_split cuts exactly at the commas outside brackets *)
Theorem C10_words : forall a, arg_words a = words_of a.
Proof. exact arg_words_spec. Qed.
Print Assumptions C10_words.

(* the directory in which included names are looked up, and the name under which the file itself is remembered:
   for dir/base (base without '/', dir not ending in '/') they are dir and dir/base itself; for a bare name
   they are "." and ./name  (dirname(3) and xbasename as modelled) *)
Theorem C10_directory_of_file : forall d b x y d' b',
  d = d' ++ [x] -> x <> 47 -> b = b' ++ [y] -> ~ In 47 b ->
  dirname (d ++ [47] ++ b) = d /\ basename (d ++ [47] ++ b) = b /\ self_of (d ++ [47] ++ b) = d ++ [47] ++ b.
Proof. exact dirname_basename_split. Qed.
Print Assumptions C10_directory_of_file.

Theorem C10_directory_of_bare_name : forall b b' y, b = b' ++ [y] -> ~ In 47 b ->
  dirname b = [46] /\ basename b = b /\ self_of b = [46;47] ++ b.
Proof. exact dirname_basename_bare. Qed.
Print Assumptions C10_directory_of_bare_name.

(* ---------- (b) the include recursion always ends ---------- *)
(* fuel sufficiency: every nested read enters a readable path that was not in the cache, so fuel >= the number of
   readable paths not yet cached is enough; read_wcoll starts with length fs + 1 *)
Theorem C10_fuel_sufficient : forall fs dir fuel bufs cache,
  (avail fs cache <= fuel)%nat -> read_lines fs dir fuel bufs cache <> RDiverges.
Proof. exact read_lines_terminates. Qed.
Print Assumptions C10_fuel_sufficient.

Theorem C10_fuel_irrelevant : forall fs dir f f' bufs cache, (f <= f')%nat ->
  read_lines fs dir f bufs cache <> RDiverges -> read_lines fs dir f' bufs cache = read_lines fs dir f bufs cache.
Proof. exact fuel_stable. Qed.
Print Assumptions C10_fuel_irrelevant.

(* no file system, no include graph (cyclic or not), no line length makes the reader run out of fuel *)
Theorem C10_includes_terminate : forall fs file, read_wcoll fs file <> RDiverges.
Proof. exact read_wcoll_terminates. Qed.
Print Assumptions C10_includes_terminate.

Theorem C10_includes_terminate_stdin : forall fs content, read_stream fs content <> RDiverges.
Proof. exact read_stream_terminates. Qed.
Print Assumptions C10_includes_terminate_stdin.

Theorem C10_assemble_terminates : forall W args, assemble W args <> ADiverges.
Proof. exact assemble_terminates. Qed.
Print Assumptions C10_assemble_terminates.

(* ---------- (c) lines of any length are read whole ---------- *)
(* every getline buffer holds exactly one line of the text (with or without its newline) *)
Theorem C10_lines_read_whole : forall c, Forall2 bufline (file_lines c) (text_lines c).
Proof. exact file_lines_text_lines. Qed.
Print Assumptions C10_lines_read_whole.

(* every expression handed to the host-list parser is the entry (comment removed, blanks trimmed) of ONE whole
   line - a maximal newline-free stretch - of one readable file: no name is split or truncated *)
Theorem C10_no_split_file : forall fs file es cache w,
  D10 fs = true -> knows_self fs file -> read_wcoll fs file = ROk es cache w ->
  forall e, In e es -> exists p c l, lookup fs p = Some c /\ whole_line l c /\ e = entry l /\ e <> [].
Proof. exact read_wcoll_whole_lines. Qed.
Print Assumptions C10_no_split_file.

Theorem C10_no_split : forall fs stdin wcoll args es wn,
  D10 fs = true -> (forall p, knows_self fs p) -> text_okb stdin = true ->
  assemble (mkaw fs stdin wcoll) args = AOk es wn ->
  forall e, In e es ->
    (exists w, In w (flat_map words_of args) /\ source_of w = SHosts e) \/
    (exists l c, e = entry l /\ e <> [] /\ whole_line l c /\ (c = stdin \/ exists p, lookup fs p = Some c)).
Proof. exact assemble_whole_lines. Qed.
Print Assumptions C10_no_split.

(* ---------- (d) a file reached a second time is skipped with a warning ---------- *)
Theorem C10_second_visit_skipped : forall fs dir fuel b bs cache p,
  line_action fs dir b = LInclude p -> In p cache ->
  read_lines fs dir fuel (b :: bs) cache = then_result (ROk [] cache 1) (read_lines fs dir fuel bs).
Proof. exact second_visit. Qed.
Print Assumptions C10_second_visit_skipped.

(* the cache is the file named on the command line and every file opened since: no file is opened twice *)
Theorem C10_no_file_read_twice : forall fs file es cache w, read_wcoll fs file = ROk es cache w -> NoDup cache.
Proof. exact read_wcoll_nodup. Qed.
Print Assumptions C10_no_file_read_twice.

(* ---------- (e) order, errors, WCOLL ---------- *)
(* words are handled from left to right; each one appends to what the earlier ones gave *)
Theorem C10_order : forall fs st a b,
  run_words fs st (a ++ b) = match run_words fs st a with WOk st1 => run_words fs st1 b | e => e end.
Proof. exact run_words_app. Qed.
Print Assumptions C10_order.

Theorem C10_order_appends : forall fs ws st st', run_words fs st ws = WOk st' -> extends (as_list st) (as_list st').
Proof. exact run_words_extends. Qed.
Print Assumptions C10_order_appends.

(* lines of a file likewise: a ++ b is a, then b with the cache a left *)
Theorem C10_order_lines : forall fs dir fuel a b cache,
  read_lines fs dir fuel (a ++ b) cache = then_result (read_lines fs dir fuel a cache) (read_lines fs dir fuel b).
Proof. exact read_lines_app. Qed.
Print Assumptions C10_order_lines.

(* an unreadable source is an error, never an empty list *)
Theorem C10_unreadable_is_error : forall fs stdin wc args a w b st1 ex p,
  flat_map arg_words args = a ++ w :: b -> run_words fs (mkast None stdin 0) a = WOk st1 ->
  classify_word w = WcFile ex p -> beq p [45] = false -> lookup fs p = None ->
  assemble (mkaw fs stdin wc) args = AError.
Proof. exact unreadable_source. Qed.
Print Assumptions C10_unreadable_is_error.

Theorem C10_unreadable_include_is_error : forall fs dir fuel b bs cache p,
  line_action fs dir b = LInclude p -> ~ In p cache -> lookup fs p = None ->
  read_lines fs dir fuel (b :: bs) cache = RFatal.
Proof. exact unreadable_include. Qed.
Print Assumptions C10_unreadable_include_is_error.

Theorem C10_unresolved_include_is_error : forall fs dir fuel b bs cache,
  line_action fs dir b = LFatal -> read_lines fs dir fuel (b :: bs) cache = RFatal.
Proof. exact unresolved_include. Qed.
Print Assumptions C10_unresolved_include_is_error.

Theorem C10_unreadable_wcoll_is_error : forall fs stdin v args st,
  run_words fs (mkast None stdin 0) (flat_map arg_words args) = WOk st -> as_list st = None ->
  beq v [45] = false -> lookup fs v = None ->
  assemble (mkaw fs stdin (Some v)) args = AError.
Proof. exact unreadable_wcoll. Qed.
Print Assumptions C10_unreadable_wcoll_is_error.

(* WCOLL is used exactly when no word named a target *)
Theorem C10_wcoll_fallback : forall fs stdin v args st,
  existsb names_targets (flat_map arg_words args) = false ->
  run_words fs (mkast None stdin 0) (flat_map arg_words args) = WOk st ->
  assemble (mkaw fs stdin (Some v)) args =
  match fst (read_source fs (as_stdin st) v) with
  | ROk es _ wn => AOk es (as_warn st + wn)
  | RFatal => AError | RFault => AFault | RDiverges => ADiverges
  end.
Proof. exact wcoll_used. Qed.
Print Assumptions C10_wcoll_fallback.

Theorem C10_wcoll_ignored_when_given : forall fs stdin wc args,
  existsb names_targets (flat_map arg_words args) = true ->
  assemble (mkaw fs stdin wc) args = assemble (mkaw fs stdin None) args.
Proof. exact wcoll_ignored. Qed.
Print Assumptions C10_wcoll_ignored_when_given.

(* ---------- non-vacuity ---------- *)
(* a diamond (A -> B -> D, A -> C -> D) and a cycle (C -> A) below d/:
     d/A: a1 / #include B / #include C / " a2 # last"     d/B: b1 / #include D
     d/C: #include D / c1 / #include A                     d/D: "d[1-2] # two"
   D is read once, the way back to A is cut, both with a warning; order is that of the text *)
Definition ex_fs : fsys :=
  [([100;47;65], [97;49;10;35;105;110;99;108;117;100;101;32;66;10;35;105;110;99;108;117;100;101;32;67;10;32;97;50;32;35;32;108;97;115;116;10]);
   ([100;47;66], [98;49;10;35;105;110;99;108;117;100;101;32;68;10]);
   ([100;47;67], [35;105;110;99;108;117;100;101;32;68;10;99;49;10;35;105;110;99;108;117;100;101;32;65;10]);
   ([100;47;68], [100;91;49;45;50;93;32;35;32;116;119;111;10])].
Example C10_diamond_cycle_nonvacuous :
  D10 ex_fs = true /\ knows_self ex_fs [100;47;65] /\
  read_wcoll ex_fs [100;47;65] =
    ROk [[97;49]; [98;49]; [100;91;49;45;50;93]; [99;49]; [97;50]]
        [[100;47;67]; [100;47;68]; [100;47;66]; [100;47;65]] 2.
Proof. split; [vm_compute; reflexivity|]. split; [intros _; vm_compute; discriminate|vm_compute; reflexivity]. Qed.

(* a 5000-byte line is one expression (D10 puts no bound on host lines) *)
Example C10_long_line_nonvacuous :
  let fs := [([76], repeat 97 5000 ++ [10])] in
  D10 fs = true /\ read_wcoll fs [76] = ROk [repeat 97 5000] [[46;47;76]] 0.
Proof. split; vm_compute; reflexivity. Qed.

(* the directory of the file is one directory, whatever its name: a:b/hosts includes a:b/G, not a/G *)
Definition ex_colon : fsys :=
  [([97;58;98;47;104;111;115;116;115], [116;111;112;49;10;35;105;110;99;108;117;100;101;32;71;10]);
   ([97;58;98;47;71], [105;110;103;10]);
   ([97;47;71], [119;114;111;110;103;65;10])].
Example C10_colon_directory_nonvacuous :
  read_wcoll ex_colon [97;58;98;47;104;111;115;116;115] = ROk [[116;111;112;49]; [105;110;103]] [[97;58;98;47;71]; [97;58;98;47;104;111;115;116;115]] 0.
Proof. vm_compute; reflexivity. Qed.

(* a command line: pdsh -w x1,^F -w - -w x[2,3]  with "s1 / #include W" on standard input and WCOLL=W (ignored);
   F and G include each other.  Then: only an exclusion given, so WCOLL is used; then: a missing file *)
Definition ex_cmd : fsys :=
  [([70], [102;49;10;35;105;110;99;108;117;100;101;32;71;10;102;50;10]);
   ([46;47;71], [103;49;10;35;105;110;99;108;117;100;101;32;70;10]);
   ([46;47;70], [102;49;10;35;105;110;99;108;117;100;101;32;71;10;102;50;10]);
   ([87], [119;49;10]);
   ([46;47;87], [119;49;10])].
Example C10_command_line_nonvacuous :
  D10 ex_cmd = true /\
  assemble (mkaw ex_cmd [115;49;10;35;105;110;99;108;117;100;101;32;87;10] (Some [87])) [[120;49;44;94;70]; [45]; [120;91;50;44;51;93]] =
    AOk [[120;49]; [102;49]; [103;49]; [102;50]; [115;49]; [119;49]; [120;91;50;44;51;93]] 1 /\
  assemble (mkaw ex_cmd [] (Some [87])) [[45;122;122]] = AOk [[119;49]] 0 /\
  assemble (mkaw ex_cmd [] (Some [87])) [[120;49]; [94;110;111;115;117;99;104]] = AError.
Proof. split; [vm_compute; reflexivity|]. split; [vm_compute; reflexivity|]. split; vm_compute; reflexivity. Qed.
