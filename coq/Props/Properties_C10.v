From PV Require Import Args.WcollFile.
Theorem C10_placeholder : True. Proof. exact I. Qed.
Print Assumptions C10_placeholder.
