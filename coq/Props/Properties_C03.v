(* C03 - every target gets exactly one command; pdsh ends when all are done.
   Statements only; proofs in Dsh/DispatchFacts.v.  For every n >= 1, every fanout f >= 1 and
   every admitted event sequence (any interleaving, spurious wake-ups included). *)
From PV Require Import Dsh.Dispatch Dsh.DispatchFacts.
Local Open Scope Z_scope.

Definition count_ev (p : ev -> bool) (es : list ev) : nat := length (filter p es).
Definition is_create (i : nat) (e : ev) : bool := match e with ECreate j => Nat.eqb i j | _ => false end.
Definition is_conn (i : nat) (e : ev) : bool := match e with EConn j => Nat.eqb i j | _ => false end.
Definition is_destroy (i : nat) (e : ev) : bool := match e with EDestroy j => Nat.eqb i j | _ => false end.

(* at most once, in order, and only for real targets - at every moment of every run *)
Theorem C03_started_at_most_once : forall (n : nat) (f : Z) es s i, (0 < n)%nat -> 1 <= f ->
  run n f true (init n) es = Some s ->
  (count_ev (is_create i) es <= 1)%nat /\ (count_ev (is_conn i) es <= count_ev (is_create i) es)%nat /\
  (count_ev (is_destroy i) es <= count_ev (is_conn i) es)%nat /\ (count_ev (is_create i) es = 1%nat -> (i < n)%nat).
Proof. exact started_at_most_once. Qed.
Print Assumptions C03_started_at_most_once.

(* pdsh returns only after every target was started exactly once, connected, torn down and
   has signalled its completion *)
Theorem C03_exit_after_all : forall (n : nat) (f : Z) es s, (0 < n)%nat -> 1 <= f ->
  run n f true (init n) es = Some s -> In EExit es ->
  tc s = 0 /\ forall i, (i < n)%nat ->
    nth_error (w s) i = Some WExit /\ count_ev (is_create i) es = 1%nat /\
    count_ev (is_conn i) es = 1%nat /\ count_ev (is_destroy i) es = 1%nat.
Proof. exact exit_after_all. Qed.
Print Assumptions C03_exit_after_all.

(* no lost wake-up, no deadlock: in every reachable state before the exit some event other
   than a spurious wake-up is enabled *)
Theorem C03_deadlock_free : forall (n : nat) (f : Z) es s, (0 < n)%nat -> 1 <= f ->
  run n f true (init n) es = Some s -> d s <> DExited ->
  exists e s', e <> ESpur /\ step n f true s e = Some s'.
Proof. exact deadlock_free. Qed.
Print Assumptions C03_deadlock_free.

(* termination: the length of any run is bounded by a linear function of n plus two steps
   per spurious wake-up - so any schedule with finitely many spurious wake-ups reaches the exit *)
Theorem C03_terminates : forall (n : nat) (f : Z) es s, (0 < n)%nat -> 1 <= f ->
  run n f true (init n) es = Some s -> (length es <= 12 * n + 8 + 3 * count_spur es)%nat.
Proof. exact run_length_bound. Qed.
Print Assumptions C03_terminates.

(* fanout 0 is outside the domain for a reason: the dispatcher parks for ever (C18 refuses it) *)
Theorem C03_fanout0_parks : forall (n : nat), (0 < n)%nat ->
  exists s, run n 0 true (init n) [ELockD; EWaitD] = Some s /\
            forall e s', step n 0 true s e = Some s' -> e = ESpur.
Proof. exact fanout0_parks. Qed.
Print Assumptions C03_fanout0_parks.
