(* C01: statements only. *)
From PV Require Import Hostlist.HLDefs.
Theorem C01_placeholder : True. Proof. exact I. Qed.
Print Assumptions C01_placeholder.
