(* C01 - a host expression targets exactly its mathematical expansion.
   Statements only; proofs live in Hostlist/*Facts.v. *)
From PV Require Import Base.DecimalFacts Hostlist.HLDefs Hostlist.HLSpec Hostlist.HLFacts Hostlist.HLParseFacts.
Local Open Scope N_scope.

(* THE property: for every well-formed expression (any number of words, any separators,
   zero to two bracket pairs per word, any ranges within the documented limit, any typed
   widths, numbers below 10^15, names within the code's fixed buffers - see expr_wf), the
   model of create + opt.c's re-expansion + iteration yields exactly the mathematical
   expansion: order as written, repeats kept, lower bound's typed width. *)
Theorem C01_expansion : forall e : expr, expr_wf e -> targets (render e) = Ok (denote e).
Proof. exact HLParseFacts.C01_expansion. Qed.
Print Assumptions C01_expansion.

(* tail coalescing and the in-place width adjustment never change the names *)
Theorem C01_coalesce_invisible : forall l r,
  Forall hr_ok l -> hr_ok r -> expand (push_range l r) = expand l ++ range_hosts r.
Proof. exact push_range_expand. Qed.
Print Assumptions C01_coalesce_invisible.

(* what makes the width mutation harmless *)
Theorem C01_width_equiv_sound : forall n wn m wm wn' wm',
  width_equiv n wn m wm = Some (wn', wm') ->
  wn' = wm' /\ (forall x, n <= x -> fmt wn' x = fmt wn x) /\ (forall y, m <= y -> fmt wm' y = fmt wm y).
Proof. exact width_equiv_sound. Qed.
Print Assumptions C01_width_equiv_sound.

(* a fresh iterator enumerates exactly the expansion, in order, repeats kept *)
Theorem C01_iterate_exact : forall l, Forall hr_ok l -> iter_all l = expand l.
Proof. exact iter_all_expand. Qed.
Print Assumptions C01_iterate_exact.

(* names that differ only in zero padding are different names, equal names have equal numbers *)
Theorem C01_padding_distinct : forall w a w' b, fmt w a = fmt w' b -> a = b /\ Nat.max w (ndigits a) = Nat.max w' (ndigits b).
Proof. intros w a w' b H. split; [exact (fmt_inj _ _ _ _ H)|].
  apply (f_equal (@length N)) in H. now rewrite !fmt_length in H. Qed.
Print Assumptions C01_padding_distinct.

Example C01_nonvacuous :
  let l := [mkhr [102;111;111] 8 9 1 false] in let r := mkhr [102;111;111] 10 11 2 false in
  Forall hr_ok l /\ hr_ok r /\ push_range l r = [mkhr [102;111;111] 8 11 1 false].
Proof. cbn. repeat split; try lia. repeat constructor; cbn; lia. Qed.
