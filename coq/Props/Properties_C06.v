(* C06 - output records are atomic and carry the label of the host that produced them.
   Statements only; proofs in Dsh/OutputFacts.v and Base/ShuffleFacts.v. *)
(* before_eof, script_ok, stream_of, in_domain, in_domain_wide: Dsh/OutputDomain.v *)
From PV Require Import Cbuf.CbufDefs Cbuf.CbufFd Dsh.Output Dsh.OutputSpec Dsh.OutputDomain Dsh.OutputFacts Base.Shuffle.
Local Open Scope N_scope.

(* Every stdio call is one whole record and nothing else: for every stream in the domain and
   EVERY way the kernel may fragment it (any chunk sizes, EAGAIN anywhere), the sequence of
   out()/err() calls made for the host is exactly: one call "label: line" per complete line,
   in order, then - for an unterminated rest - the label together with its first 8191 bytes
   in one call, followed by label-less 8191-byte pieces. *)
Theorem C06_calls_are_records : forall x s, script_ok s -> in_domain x (stream_of s) ->
  snd (run_stream x s) = records (emit x) (stream_of s).
Proof. exact calls_are_records. Qed.
Print Assumptions C06_calls_are_records.

(* the same for an unterminated rest of up to exactly 128 KiB (in_domain_wide: every complete line
   with its newline AND the rest are at most CBUF_MAXSIZE bytes): this is the full domain of the
   property text; one byte more and the oldest byte is lost (notes/C05-C06.md has the witness) *)
Theorem C06_calls_are_records_wide : forall x s, script_ok s -> in_domain_wide x (stream_of s) ->
  snd (run_stream x s) = records (emit x) (stream_of s).
Proof. exact calls_are_records_wide. Qed.
Print Assumptions C06_calls_are_records_wide.

(* the label is the host's own name, cut at the first dot only when the name does not start
   with a digit and domains are not kept *)
Theorem C06_label : forall keep h, (length h < N.to_nat LINEBUFSIZE)%nat ->
  label keep h = match h with
                 | c :: _ => if negb (is_digit c) && negb keep then fst (split_at 46 h) else h
                 | [] => [] end.
Proof. exact label_spec. Qed.
Print Assumptions C06_label.

(* (proved in Dsh/OutputFacts.v as interleaving_keeps_order; Base/Shuffle.v holds the definitions) *)
(* atomic calls compose: if every worker's call list is its record list, any interleaving of
   the workers' calls is an interleaving of whole records which keeps each host's order *)
Theorem C06_atomic : forall (A : Type) (hs : list (list A)) (g : list A),
  interleaving hs g -> forall i h, nth_error hs i = Some h -> subsequence h g.
Proof. exact interleaving_keeps_order. Qed.
Print Assumptions C06_atomic.

(* non-vacuity: a script with a short read, EAGAIN and an unterminated rest lies in the domain
   (with -S: read_rc = true), and its calls are whole records *)
Example C06_nonvacuous :
  let x := mkoctx true false [110;49;46;100] true in
  let s := [Avail [104;105;10;102]; RdErr; Avail [111;10;98;97]; Eof; Avail [33]] in
  script_ok s /\ in_domain x (stream_of s) /\
  snd (run_stream x s) = [[110;49;58;32;104;105;10]; [110;49;58;32;102;111;10]; [110;49;58;32;98;97]].
Proof.
  cbn zeta. split; [repeat constructor; discriminate|]. split; [|vm_compute; reflexivity].
  unfold in_domain. change (stream_of _) with [104;105;10;102;111;10;98;97].
  split; [cbn; intuition discriminate|]. split; [|split].
  - change (fst (split_lines _)) with [[104;105;10]; [102;111;10]]. repeat constructor; unfold line_ok; vm_compute; discriminate.
  - change (snd (split_lines _)) with [98;97]. unfold line_ok. vm_compute. discriminate.
  - intros _. vm_compute. reflexivity.
Qed.
