(* C06 - output records are atomic and carry the label of the host that produced them.
   Statements only; proofs in Dsh/OutputFacts.v and Base/ShuffleFacts.v. *)
From PV Require Import Cbuf.CbufDefs Cbuf.CbufFd Dsh.Output Dsh.OutputSpec Dsh.OutputFacts Base.Shuffle.
Local Open Scope N_scope.

(* the descriptor script: what read(2) finds, up to end of file *)
Fixpoint before_eof (s : list fdev) : list fdev :=
  match s with [] => [] | Eof :: _ => [] | x :: r => x :: before_eof r end.
Definition script_ok (s : list fdev) : Prop := Forall (fun e => e <> Avail []) (before_eof s).
Definition stream_of (s : list fdev) : bytes := script_bytes (before_eof s).

(* the property's domain: text free of NUL, no line longer than 128 KiB including its
   newline, and (on stdout with -S/-k) free of the reserved marker *)
Definition in_domain (x : octx) (st : bytes) : Prop :=
  ~ In 0 st /\ Forall (line_ok CBUF_MAXSIZE) (fst (split_lines st)) /\ line_ok (CBUF_MAXSIZE - 1) (snd (split_lines st)) /\
  (read_rc x = true -> find_sub RC_MAGIC st = None).

(* Every stdio call is one whole record and nothing else: for every stream in the domain and
   EVERY way the kernel may fragment it (any chunk sizes, EAGAIN anywhere), the sequence of
   out()/err() calls made for the host is exactly: one call "label: line" per complete line,
   in order, then - for an unterminated rest - the label together with its first 8191 bytes
   in one call, followed by label-less 8191-byte pieces. *)
Theorem C06_calls_are_records : forall x s, script_ok s -> in_domain x (stream_of s) ->
  snd (run_stream x s) = records (emit x) (stream_of s).
Proof. exact calls_are_records. Qed.
Print Assumptions C06_calls_are_records.

(* the label is the host's own name, cut at the first dot only when the name does not start
   with a digit and domains are not kept *)
Theorem C06_label : forall keep h, (length h < N.to_nat LINEBUFSIZE)%nat ->
  label keep h = match h with
                 | c :: _ => if negb (is_digit c) && negb keep then fst (split_at 46 h) else h
                 | [] => [] end.
Proof. exact label_spec. Qed.
Print Assumptions C06_label.

(* (proved in Dsh/OutputFacts.v as interleaving_keeps_order; Base/Shuffle.v holds the definitions) *)
(* atomic calls compose: if every worker's call list is its record list, any interleaving of
   the workers' calls is an interleaving of whole records which keeps each host's order *)
Theorem C06_atomic : forall (A : Type) (hs : list (list A)) (g : list A),
  interleaving hs g -> forall i h, nth_error hs i = Some h -> subsequence h g.
Proof. exact interleaving_keeps_order. Qed.
Print Assumptions C06_atomic.
