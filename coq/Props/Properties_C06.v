(* C06 - output records are atomic and carry the label of the host that produced them.
   Statements only; proofs in Dsh/OutputFacts.v and Base/ShuffleFacts.v. *)
(* before_eof, script_ok, stream_of, in_domain, in_domain_wide: Dsh/OutputDomain.v *)
From PV Require Import Cbuf.CbufDefs Cbuf.CbufFd Dsh.Output Dsh.OutputSpec Dsh.OutputDomain Dsh.OutputFacts Base.Shuffle Dsh.Domain.
Local Open Scope N_scope.

(* Every stdio call is one whole record and nothing else: for every stream in the domain and
   EVERY way the kernel may fragment it (any chunk sizes, EAGAIN anywhere), the sequence of
   out()/err() calls made for the host is exactly: one call "label: line" per complete line,
   in order, then - for an unterminated rest - the label together with its first 8191 bytes
   in one call, followed by label-less 8191-byte pieces. *)
Theorem C06_calls_are_records : forall x s, script_ok s -> in_domain x (stream_of s) ->
  snd (run_stream x s) = records (emit x) (stream_of s).
Proof. exact calls_are_records. Qed.
Print Assumptions C06_calls_are_records.

(* the same for an unterminated rest of up to exactly 128 KiB (in_domain_wide: every complete line
   with its newline AND the rest are at most CBUF_MAXSIZE bytes): this is the full domain of the
   property text; one byte more and the oldest byte is lost (notes/C05-C06.md has the witness) *)
Theorem C06_calls_are_records_wide : forall x s, script_ok s -> in_domain_wide x (stream_of s) ->
  snd (run_stream x s) = records (emit x) (stream_of s).
Proof. exact calls_are_records_wide. Qed.
Print Assumptions C06_calls_are_records_wide.

(* the label is the host's own name, cut at the first dot only when the name does not start
   with a digit and domains are not kept *)
Theorem C06_label : forall keep h, (length h < N.to_nat LINEBUFSIZE)%nat ->
  label keep h = match h with
                 | c :: _ => if negb (is_digit c) && negb keep then fst (split_at 46 h) else h
                 | [] => [] end.
Proof. exact label_spec. Qed.
Print Assumptions C06_label.

(* (proved in Dsh/OutputFacts.v as interleaving_keeps_order; Base/Shuffle.v holds the definitions) *)
(* atomic calls compose: if every worker's call list is its record list, any interleaving of
   the workers' calls is an interleaving of whole records which keeps each host's order *)
Theorem C06_atomic : forall (A : Type) (hs : list (list A)) (g : list A),
  interleaving hs g -> forall i h, nth_error hs i = Some h -> subsequence h g.
Proof. exact interleaving_keeps_order. Qed.
Print Assumptions C06_atomic.

(* non-vacuity: a script with a short read, EAGAIN and an unterminated rest lies in the domain
   (with -S: read_rc = true), and its calls are whole records *)
Example C06_nonvacuous :
  let x := mkoctx true false [110;49;46;100] true in
  let s := [Avail [104;105;10;102]; RdErr; Avail [111;10;98;97]; Eof; Avail [33]] in
  script_ok s /\ in_domain x (stream_of s) /\
  snd (run_stream x s) = [[110;49;58;32;104;105;10]; [110;49;58;32;102;111;10]; [110;49;58;32;98;97]].
Proof.
  cbn zeta. split; [repeat constructor; discriminate|]. split; [|vm_compute; reflexivity].
  unfold in_domain. change (stream_of _) with [104;105;10;102;111;10;98;97].
  split; [cbn; intuition discriminate|]. split; [|split].
  - change (fst (split_lines _)) with [[104;105;10]; [102;111;10]]. repeat constructor; unfold line_ok; vm_compute; discriminate.
  - change (snd (split_lines _)) with [98;97]. unfold line_ok. vm_compute. discriminate.
  - intros _. vm_compute. reflexivity.
Qed.

(* ---- when do the labels keep the domain? ----
   dsh() walks the target list once, remembers the domain (the text from the first '.') of the first dotted target and
   raises the flag when a later dotted target has a different one (exact comparison); -K raises it outright.  The flag is up
   exactly when -K was given or two targets lie in different domains - whatever the order of the targets, however many
   targets have no dot, and however the domains are related as strings (prefix, case). *)
Theorem C06_domain_rule : forall optK targets,
  domain_in_label optK targets = true <->
  optK = true \/ exists a b da db, In a targets /\ In b targets /\ domain_of a = Some da /\ domain_of b = Some db /\ da <> db.
Proof. exact domain_in_label_spec. Qed.
Print Assumptions C06_domain_rule.

Example C06_domain_rule_nonvacuous :
  (* n1.example.co, n2.example.com: one domain is a prefix of the other *)
  domain_in_label false [[110;49;46;101;120;46;99;111]; [110;50;46;101;120;46;99;111;109]] = true /\
  (* gw, n1.alpha, n1.beta: the first target has no dot *)
  domain_in_label false [[103;119]; [110;49;46;97]; [110;49;46;98]] = true /\
  (* a.d, b.d, c: one domain *)
  domain_in_label false [[97;46;100]; [98;46;100]; [99]] = false.
Proof. repeat split; vm_compute; reflexivity. Qed.
