(* C04 - never more than `fanout` remote commands are in flight.
   Statements only; proofs in Dsh/DispatchFacts.v.  All statements are for every number of
   targets n >= 1, every fanout f >= 1 and EVERY sequence of events the transition system
   admits - any interleaving of dispatcher and workers, with spurious wake-ups (ESpur)
   allowed wherever the dispatcher is parked. *)
From PV Require Import Dsh.Dispatch Dsh.DispatchFacts.
Local Open Scope Z_scope.

(* the bound, for the code as it is now (the room check is re-evaluated after every wake-up) *)
Theorem C04_bound : forall (n : nat) (f : Z) es s, (0 < n)%nat -> 1 <= f ->
  run n f true (init n) es = Some s -> inflight s <= started s /\ started s <= f /\ 0 <= tc s <= f.
Proof. exact fanout_bound. Qed.
Print Assumptions C04_bound.

(* why the re-check matters: without it one spurious wake-up breaks the bound
   (3 targets, fanout 1, two connections in flight) - the defect repaired in dsh.c *)
Theorem C04_bound_refuted_without_recheck : exists es s, run 3 1 false (init 3) es = Some s /\ inflight s = 2.
Proof. exact fanout_if_refuted. Qed.
Print Assumptions C04_bound_refuted_without_recheck.

(* progress: whenever fewer than f commands are started-and-not-torn-down and targets remain,
   the next one can be started by steps that need nothing but scheduling: no connection has
   to be made or to complete, and no spurious wake-up is needed *)
Theorem C04_progress : forall (n : nat) (f : Z) es s, (0 < n)%nat -> 1 <= f ->
  run n f true (init n) es = Some s -> started s < f -> (idx s < n)%nat -> d s <> DUnlock ->
  exists es', forallb (fun e => negb (is_external e)) es' = true /\
              exists s', run n f true s (es' ++ [ECreate (idx s)]) = Some s'.
Proof. exact fanout_progress. Qed.
Print Assumptions C04_progress.

Example C04_nonvacuous : exists s,
  run 3 2 true (init 3) [ELockD; ECreate 0; EUnlockD; ELockD; EConn 0; ECreate 1; EUnlockD; EConn 1; ELockD; EWaitD; ESpur; EWokenD; EWaitD] = Some s
  /\ inflight s = 2 /\ d s = DWait.
Proof. eexists. vm_compute. repeat split. Qed.
