(* C09 - each host gets the right user, transport, rank and the verbatim command.
   Statements only; proofs in Args/RcmdFacts.v.  Models: Args/Rcmd.v (opt.c get_host_rcmd_type,
   rcmd.c registry and defaults, dsh.c rank), Args/Subst.v (pipecmd.c substitution, the command
   text, xrcmd.c's writes); specification: Args/RcmdSpec.v. *)
From PV Require Import Base.DecimalFacts Args.Subst Args.Rcmd Args.RcmdSpec Args.RcmdFacts
  Hostlist.HLSpec Hostlist.HLParseFacts.
Local Open Scope N_scope.

(* ---- who is contacted how ---- *)

(* THE assignment theorem.  For every list of -w words '[type:][user@]hostexpr' (any number, any
   order, overlapping host sets, zero to two bracket pairs per host word: C01's well-formed
   expressions), every -R / PDSH_RCMD_TYPE / -l setting and every final target list: the run
   contacts target k (rank k) through the transport and as the user of the first word that
   carries a type or a user and whose expansion contains the target; what that word leaves open,
   and everything if no word names the target, comes from the defaults. *)
Theorem C09_assign : forall rank_list loaded st (ws : list eword) targets dt,
  Forall (eword_ok loaded) ws -> default_type rank_list loaded st = Ok dt ->
  assign rank_list loaded st (map eword_text ws) targets
  = Ok (assigned (map eword_mean ws) dt (default_user st) targets).
Proof. exact assign_exprs. Qed.
Print Assumptions C09_assign.

(* the same for ANY expansion function the registry and the specification agree on, and for a
   look-up of ANY host name (not only listed targets) *)
Theorem C09_assign_any_name : forall namesf sem loaded ws,
  Forall (word_ok namesf sem loaded) ws ->
  exists r, process_words namesf loaded [] (map render_sword ws) = Ok r /\
    forall dt du x, connect_info r dt du x = spec_assign (map (aword_of sem) ws) dt du x.
Proof. exact connect_after_words. Qed.
Print Assumptions C09_assign_any_name.

(* the first word naming a host decides, whatever comes later *)
Theorem C09_first_wins : forall namesf sem loaded ws1 w ws2 x,
  Forall (word_ok namesf sem loaded) (ws1 ++ w :: ws2) ->
  (forall w', In w' ws1 -> names_target x (aword_of sem w') = false) ->
  names_target x (aword_of sem w) = true ->
  exists r, process_words namesf loaded [] (map render_sword (ws1 ++ w :: ws2)) = Ok r /\
    forall dt du, connect_info r dt du x =
      (match sw_type w with Some t => t | None => dt end, match sw_user w with Some u => u | None => du end).
Proof. exact first_wins. Qed.
Print Assumptions C09_first_wins.

(* a host no word names gets the defaults; the default transport is -R, else PDSH_RCMD_TYPE, else
   the first loaded module of the preference list, and it is a loaded module; the default user is
   -l, else the invoking user *)
Theorem C09_defaults : forall namesf sem loaded ws x,
  Forall (word_ok namesf sem loaded) ws ->
  (forall w, In w ws -> names_target x (aword_of sem w) = false) ->
  exists r, process_words namesf loaded [] (map render_sword ws) = Ok r /\
    forall dt du, connect_info r dt du x = (dt, du).
Proof. exact defaults_when_unnamed. Qed.
Print Assumptions C09_defaults.

Theorem C09_default_transport : forall rank_list loaded st t, default_type rank_list loaded st = Ok t ->
  memb t loaded = true /\ spec_dtype (s_optR st) (s_envR st) rank_list (fun x => In x loaded) t.
Proof. exact default_type_spec. Qed.
Print Assumptions C09_default_transport.

Theorem C09_default_user : forall st, default_user st = spec_duser (s_optl st) (s_login st).
Proof. exact default_user_spec. Qed.
Print Assumptions C09_default_user.

(* rank = zero-based position in the final target list *)
Theorem C09_rank : forall targets k, nth_error (number_from 0 targets) k = spec_rank targets k.
Proof. exact rank_is_position. Qed.
Print Assumptions C09_rank.

(* the documented word form is split as written *)
Theorem C09_word_split : forall w, sword_wf w ->
  classify (render_sword w) = Ok (mkword (sw_type w) (sw_user w) (sw_hosts w)).
Proof. exact classify_render. Qed.
Print Assumptions C09_word_split.

(* the code before fix C09-register-two-brackets: right for at most one bracket pair per word,
   wrong for two ('bob@foo[1-2]-[0-1]' contacted foo1-0 as the default user) *)
Theorem C09_assign_partial_before_fix : forall rank_list loaded st (ws : list eword) targets dt,
  Forall (eword_ok loaded) ws -> Forall (fun w => one_bracket (snd w)) ws ->
  default_type rank_list loaded st = Ok dt ->
  assign0 rank_list loaded st (map eword_text ws) targets
  = Ok (assigned (map eword_mean ws) dt (default_user st) targets).
Proof. exact assign0_partial. Qed.
Print Assumptions C09_assign_partial_before_fix.

Theorem C09_assign_refuted_before_fix :
  exists loaded ws targets st dt, Forall (eword_ok loaded) ws /\ default_type [w2_exec] loaded st = Ok dt /\
    assign0 [w2_exec] loaded st (map eword_text ws) targets
    <> Ok (assigned (map eword_mean ws) dt (default_user st) targets).
Proof. exact assign0_refuted. Qed.
Print Assumptions C09_assign_refuted_before_fix.

(* ---- what text arrives ---- *)

(* exec: for EVERY argument (any bytes but NUL, '%' anywhere, empty, one byte, a final lone '%')
   the formatted argument is the substitution, no read leaves the string, nothing is dropped *)
Theorem C09_subst : forall e arg, nul_free arg ->
  format_arg e arg = FOk (Some (subst (p_target e) (p_user e) (p_rank e) arg)).
Proof. exact format_arg_subst. Qed.
Print Assumptions C09_subst.

Theorem C09_argv : forall e argv, Forall nul_free argv ->
  exec_args e argv = FOk (map (subst (p_target e) (p_user e) (p_rank e)) argv).
Proof. exact exec_args_subst. Qed.
Print Assumptions C09_argv.

Theorem C09_subst_identity_without_percent : forall host user rank a, ~ In 37 a -> subst host user rank a = a.
Proof. exact subst_no_percent. Qed.
Print Assumptions C09_subst_identity_without_percent.

Theorem C09_subst_escapes : forall host user rank a b, ~ In 37 a ->
  subst host user rank (a ++ [37; 104] ++ b) = a ++ host ++ subst host user rank b /\
  subst host user rank (a ++ [37; 117] ++ b) = a ++ user ++ subst host user rank b /\
  subst host user rank (a ++ [37; 110] ++ b) = a ++ digits rank ++ subst host user rank b /\
  subst host user rank (a ++ [37; 37] ++ b) = a ++ 37 :: subst host user rank b.
Proof. exact subst_escapes. Qed.
Print Assumptions C09_subst_escapes.

(* the code before fix C09-format-arg: a final lone '%' reads past the terminator, the empty
   argument becomes NULL and cuts the argument vector *)
Theorem C09_subst_refuted_before_fix : forall e,
  (exists arg, nul_free arg /\ format_arg0 e arg = FFault) /\
  (exists arg, nul_free arg /\ format_arg0 e arg = FOk None) /\
  (exists argv, Forall nul_free argv /\ exec_args0 e argv = FOk [[97]] /\
                map (subst (p_target e) (p_user e) (p_rank e)) argv = [[97]; []; [98]]).
Proof. exact format_arg0_refuted. Qed.
Print Assumptions C09_subst_refuted_before_fix.

(* the command text handed to every transport: the arguments joined by single blanks *)
Theorem C09_cmd_verbatim : forall a rest, build_cmd (a :: rest) = Some (join 32 (a :: rest)).
Proof. exact build_cmd_join. Qed.
Print Assumptions C09_cmd_verbatim.

(* rsh: the bytes written are port NUL local-user NUL remote-user NUL command NUL, and a peer
   cutting at the NULs recovers exactly those four fields *)
Theorem C09_rsh_wire : forall port luser ruser cmd,
  match port with Some p => p < 10000000 | None => True end ->
  xrcmd_wire port luser ruser cmd = wire_spec port luser ruser cmd.
Proof. exact xrcmd_wire_spec. Qed.
Print Assumptions C09_rsh_wire.

Theorem C09_rsh_fields : forall port luser ruser cmd, nul_free luser -> nul_free ruser -> nul_free cmd ->
  split_all 0 (wire_spec port luser ruser cmd)
  = [match port with None => [] | Some p => digits p end; luser; ruser; cmd; []].
Proof. exact wire_fields. Qed.
Print Assumptions C09_rsh_fields.

(* the hypotheses are satisfiable by non-trivial inputs: a two-bracket word with a user, an
   overlapping typed word, an argument with every escape and a final lone '%' *)
Example C09_nonvacuous :
  Forall (eword_ok [w2_exec]) [w2_word; (Some w2_exec, None, [(WPlain (w2_foo ++ [49;45;48]), [])])] /\
  assign [w2_exec] [w2_exec] w2_st (map eword_text [w2_word; (Some w2_exec, None, [(WPlain (w2_foo ++ [49;45;48]), [])])])
         [w2_foo; w2_foo ++ [49;45;48]]
  = Ok [(w2_foo, w2_exec, [114;111;111;116], 0); (w2_foo ++ [49;45;48], w2_exec, [98;111;98], 1)] /\
  nul_free [37;104;37;117;37;110;37;37;37;120;37] /\
  format_arg (mkpi [104] [117] 7) [37;104;37;117;37;110;37;37;37;120;37] = FOk (Some [104;117;55;37;37;120;37]).
Proof.
  split; [|split; [vm_compute; reflexivity|split; [|vm_compute; reflexivity]]].
  - constructor; [exact w2_ok|constructor; [|constructor]].
    unfold eword_ok. cbn [fst snd ofield_ok]. split.
    { split; intros H; vm_compute in H; intuition discriminate. }
    split; [exact I|]. split. { split; intros H; vm_compute in H; intuition discriminate. }
    split. { cbn [expr_wf word_wf]. split; [split; [vm_compute; discriminate|split; [vm_compute; reflexivity|]]|reflexivity].
             apply Nat.ltb_lt; vm_compute; reflexivity. }
    intros t [= <-]. left; reflexivity.
  - intros H; cbn in H; intuition discriminate.
Qed.
