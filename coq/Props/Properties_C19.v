(* C19 - dshbak regroups output losslessly; its host headers mean what pdsh means.
   Statements only; the model of the script is Dshbak/Dshbak.v, the specification Dshbak/DshbakSpec.v,
   the proofs Dshbak/Dshbak{Base,Regroup,Coalesce,Compress,Facts}.v.  Wherever the script walks a hash in
   hash order the model takes the order from an oracle list (oL: labels, oS: suffix groups of a header);
   every statement holds for all oracles, and every order of the keys is produced by some oracle. *)
From Coq Require Import Permutation Sorted.
From PV Require Import Base.DecimalFacts Hostlist.HLDefs Hostlist.HLSpec
  Dshbak.Dshbak Dshbak.DshbakSpec Dshbak.DshbakBase Dshbak.DshbakRegroup Dshbak.DshbakCoalesce
  Dshbak.DshbakCompress Dshbak.DshbakFacts.
Local Open Scope N_scope.

(* the label/body split: a line "blanks label blanks : [blank] text \n" is cut exactly at its label,
   whatever the text contains (colons, blanks, dividers); a line without colon is ignored *)
Theorem C19_split_label : forall l : lline, lline_ok l ->
  split_line (label_text l ++ [10]) = Some (l_tag l, l_body l ++ [10]).
Proof. exact split_line_label. Qed.
Print Assumptions C19_split_label.

Theorem C19_split_junk : forall t : bytes, ~ In 58 t -> split_line (t ++ [10]) = None.
Proof. exact split_line_junk. Qed.
Print Assumptions C19_split_junk.

(* REGROUP, no option.  For every sequence of labelled and unlabelled lines, in any interleaving,
   optionally followed by one labelled line WITHOUT newline, and every hash order: every label that
   occurs gets exactly one block, headed by the label, holding exactly that label's lines in input order
   (nothing lost, duplicated or moved between hosts). *)
Theorem C19_regroup : forall (items : list item) (last : option lline),
  Forall item_ok items -> match last with Some l => lline_ok l | None => True end ->
  forall oL : list bytes,
  let s := stream items last in let all := all_items items last in
  let bs := blocks_normal oL s in
  NoDup (concat (map b_tags bs)) /\
  (forall t, In t (concat (map b_tags bs)) <-> lines_of t all <> []) /\
  (forall b, In b bs -> exists t, b_tags b = [t] /\ b_head b = [t] /\ b_body b = lines_of t all).
Proof. exact regroup_normal. Qed.
Print Assumptions C19_regroup.

(* REGROUP, -d DIR: one file per label, named by the label, holding exactly its lines in input order *)
Theorem C19_regroup_files : forall (items : list item) (last : option lline),
  Forall item_ok items -> match last with Some l => lline_ok l | None => True end ->
  forall oL : list bytes,
  let s := stream items last in let all := all_items items last in
  let fl := files oL s in
  NoDup (map fst fl) /\
  (forall t, In t (map fst fl) <-> lines_of t all <> []) /\
  (forall t c, In (t, c) fl -> c = concat (lines_of t all)).
Proof. exact regroup_files. Qed.
Print Assumptions C19_regroup_files.

(* REGROUP, -c: every label that occurs stands under exactly one header and the block under that
   header holds exactly that label's lines in input order *)
Theorem C19_regroup_coalesce : forall (items : list item) (last : option lline),
  Forall item_ok items -> match last with Some l => lline_ok l | None => True end ->
  forall (oL : list bytes) (oS : list bytes -> list bytes),
  let s := stream items last in let all := all_items items last in
  let bs := blocks_coalesce oL oS s in
  NoDup (concat (map b_tags bs)) /\
  (forall t, In t (concat (map b_tags bs)) <-> lines_of t all <> []) /\
  (forall b t, In b bs -> In t (b_tags b) -> b_body b = lines_of t all).
Proof. exact regroup_coalesce. Qed.
Print Assumptions C19_regroup_coalesce.

(* COALESCE, on ANY input bytes: every label of the table under exactly one header; the block holds the
   lines of each of its labels; no output is printed twice; two labels share a header if and only if
   their line lists are identical *)
Theorem C19_coalesce : forall (oL : list bytes) (oS : list bytes -> list bytes) (s : bytes),
  let bs := blocks_coalesce oL oS s in
  Permutation (concat (map b_tags bs)) (map fst (table s)) /\
  (forall b k, In b bs -> In k (b_tags b) -> al_get k (table s) = Some (b_body b)) /\
  NoDup (map b_body bs) /\
  (forall a b, In a (map fst (table s)) -> In b (map fst (table s)) ->
     ((exists blk, In blk bs /\ In a (b_tags blk) /\ In b (b_tags blk)) <-> al_get a (table s) = al_get b (table s))).
Proof. exact coalesce_any. Qed.
Print Assumptions C19_coalesce.

(* HEADER.  For every set of host names (distinct; not empty; free of blanks, commas and brackets; shorter
   than 1023 bytes; no run of digits worth 10^15 or more; at most 10240 of them) and every hash order of
   the suffix groups: the header text dshbak -c builds (Perl's compress), read by the model of pdsh's C
   host-list parser with both bracket passes (HLDefs.targets, the function of C01), expands to exactly
   that set. *)
Theorem C19_header_expansion : forall (oS : list bytes) (hosts : list bytes), host_set_ok hosts ->
  exists l, targets (join 44 (compress oS hosts)) = Ok l /\ Permutation l hosts.
Proof. exact header_expansion_lit. Qed.
Print Assumptions C19_header_expansion.

(* ... in particular the header of every block of a -c report expands to the labels of that block *)
Theorem C19_header_of_block : forall (oL : list bytes) (oS : list bytes -> list bytes) (s : bytes) (b : block),
  In b (blocks_coalesce oL oS s) -> host_set_ok (b_tags b) ->
  exists l, targets (join 44 (b_head b)) = Ok l /\ Permutation l (b_tags b).
Proof. exact header_of_block. Qed.
Print Assumptions C19_header_of_block.

(* the oracle only permutes, and reaches every permutation; the report comes sorted by trailing number *)
Theorem C19_hash_order_free : forall o keys : list bytes, NoDup keys ->
  Permutation (pick_order o keys) keys /\ (forall p, NoDup p -> Permutation p keys -> pick_order p keys = p).
Proof. intros o keys H. split; [apply pick_order_perm; exact H|intros p; apply pick_order_id]. Qed.
Print Assumptions C19_hash_order_free.

Theorem C19_report_sorted : forall l : list bytes, StronglySorted (fun a b => numkey a <= numkey b) (sortn l).
Proof. exact sortn_sorted. Qed.
Print Assumptions C19_report_sorted.

(* ---- non-vacuity ---- *)
(* foo01-ib foo7-ib foo03-ib foo02-ib are in the domain and compress to foo[01-03,7]-ib, which expands back *)
Example C19_nonvacuous_header :
  host_set_ok ex_hosts /\
  compress [] ex_hosts = [[102;111;111;91;48;49;45;48;51;44;55;93;45;105;98]] /\
  targets (join 44 (compress [] ex_hosts)) = Ok [ex_h [48;49]; ex_h [48;50]; ex_h [48;51]; ex_h [55]].
Proof. exact ex_header. Qed.

(* padding twins and the 9/10 boundary: n9 n09 n10 n010 give n[09,9-10,010] (as the script prints),
   never a merged range that would expand to other names *)
Example C19_nonvacuous_twins :
  let h n := 110 :: n in
  compress [] (sort_str [h [57]; h [48;57]; h [49;48]; h [48;49;48]]) =
    [[110;91;48;57;44;57;45;49;48;44;48;49;48;93]] /\
  targets [110;91;48;57;44;57;45;49;48;44;48;49;48;93] = Ok [h [48;57]; h [57]; h [49;48]; h [48;49;48]].
Proof. exact ex_twins. Qed.

(* a labelled stream with interleaving, a colon in the text, blanks round a label, an empty line, a junk line
   and an unterminated last line *)
Example C19_nonvacuous_regroup :
  Forall item_ok ex_items /\ lline_ok ex_last /\
  lines_of [97;49] (all_items ex_items (Some ex_last)) = [[120;58;121;10]; [119;10]] /\
  lines_of [98;50] (all_items ex_items (Some ex_last)) = [[10]; [118;10]] /\
  map b_body (blocks_normal [] (stream ex_items (Some ex_last))) = [[[120;58;121;10]; [119;10]]; [[10]; [118;10]]].
Proof. exact ex_regroup. Qed.
