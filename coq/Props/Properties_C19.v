(* C19 - placeholder while the proofs are being written *)
From PV Require Import Dshbak.Dshbak.
