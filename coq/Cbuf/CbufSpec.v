(* S-side of C13: the buffer as a plain FIFO of bytes (oldest first) and what each
   operation means on it.  Independent of the ring representation. *)
From PV Require Export Base.Bytes.
Local Open Scope N_scope.

Definition count_nl (f : bytes) : N := N.of_nat (length (filter (N.eqb 10) f)).

(* length of the shortest prefix of f containing k newlines; None if f has fewer *)
Fixpoint lines_prefix (f : bytes) (k : nat) : option nat :=
  match k with
  | O => Some O
  | S k' => match f with
            | [] => None
            | b :: r => match lines_prefix r (if b =? 10 then k' else k) with
                        | Some n => Some (S n) | None => None end
            end
  end.

(* length of the longest prefix of (firstn chars f) that ends with a newline (0 if none) *)
Fixpoint whole_lines (f : bytes) (chars : nat) : nat :=
  match chars, f with
  | O, _ => O
  | _, [] => O
  | S c, b :: r => let rest := whole_lines r c in
                   if (b =? 10) then S rest else match rest with O => O | _ => S rest end
  end.
