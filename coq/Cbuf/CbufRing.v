(* C13 proofs, part 1: ring arithmetic, byte-wise get/put characterisation, and
   block versions = byte-wise versions. *)
From PV Require Import Cbuf.CbufDefs.
Local Open Scope N_scope.

(* ---- modular arithmetic with a variable modulus ---- *)
Lemma mod_lt2 x m : 0 < m -> x < 2 * m -> x mod m = if x <? m then x else x - m.
Proof.
  intros Hm Hx. destruct (x <? m) eqn:E.
  - apply N.ltb_lt in E. apply N.mod_small; auto.
  - apply N.ltb_ge in E. symmetry. apply N.mod_unique with (q := 1); lia.
Qed.

Lemma mod_lt m x : 0 < m -> x mod m < m.
Proof. intros. apply N.mod_lt. lia. Qed.

Lemma mod_add_l a b m : 0 < m -> (a mod m + b) mod m = (a + b) mod m.
Proof. intros. apply N.add_mod_idemp_l. lia. Qed.
Lemma mod_add_r a b m : 0 < m -> (a + b mod m) mod m = (a + b) mod m.
Proof. intros. apply N.add_mod_idemp_r. lia. Qed.
Lemma mod_add_self a m : 0 < m -> (a + m) mod m = a mod m.
Proof. intros. rewrite <- mod_add_r, N.mod_same, N.add_0_r by lia. reflexivity. Qed.

(* ---- lists ---- *)
Lemma skipn_nth_cons {A} (T : list A) a d : (a < length T)%nat -> skipn a T = nth a T d :: skipn (S a) T.
Proof.
  revert a; induction T as [|h t IH]; intros [|a] H; cbn [length] in *; try lia; cbn [skipn nth]; auto.
  apply IH. lia.
Qed.

Lemma map_nth_seq (T : bytes) a k : (a + k <= length T)%nat ->
  map (fun j => nth (a + j) T 0) (seq 0 k) = firstn k (skipn a T).
Proof.
  revert a; induction k as [|k IH]; intros a H; [reflexivity|].
  cbn [seq map]. rewrite <- seq_shift, map_map.
  rewrite (skipn_nth_cons T a 0) by lia. cbn [firstn]. rewrite Nat.add_0_r. f_equal.
  rewrite <- IH by lia. apply map_ext. intros j. f_equal. lia.
Qed.

Lemma lastn_all {A} n (l : list A) : (length l <= n)%nat -> lastn n l = l.
Proof. intros H. unfold lastn. replace (length l - n)%nat with O by lia. reflexivity. Qed.

Lemma lastn_length {A} n (l : list A) : length (lastn n l) = Nat.min n (length l).
Proof. unfold lastn. rewrite skipn_length. lia. Qed.

(* ---- upd ---- *)
Lemma upd_length l i x : length (upd l i x) = length l.
Proof. revert i; induction l; intros [|j]; cbn [upd length]; auto. Qed.
Lemma nth_upd_same l i x d : (i < length l)%nat -> nth i (upd l i x) d = x.
Proof. revert i; induction l; intros [|j] H; cbn [upd length nth] in *; try lia; auto. apply IHl; lia. Qed.
Lemma nth_upd_other l i j x d : i <> j -> nth j (upd l i x) d = nth j l d.
Proof. revert i j; induction l; intros [|i] [|j] H; cbn [upd nth]; auto; try congruence. Qed.

Lemma getb_upd_same d i x : (N.to_nat i < length d)%nat -> getb (upd d (N.to_nat i) x) i = x.
Proof. intros. unfold getb. apply nth_upd_same; auto. Qed.
Lemma getb_upd_other d i p x : i <> p -> getb (upd d (N.to_nat i) x) p = getb d p.
Proof. intros. unfold getb. apply nth_upd_other. lia. Qed.

Lemma getb_app_l d e p : (N.to_nat p < length d)%nat -> getb (d ++ e) p = getb d p.
Proof. intros. unfold getb. apply app_nth1; auto. Qed.

(* ---- get_ring ---- *)
Lemma get_ring_length d m i k : length (get_ring d m i k) = k.
Proof. revert i; induction k; intros; cbn [get_ring length]; auto. Qed.

Lemma get_ring_map d m i k : 0 < m -> i < m ->
  get_ring d m i k = map (fun j => getb d ((i + N.of_nat j) mod m)) (seq 0 k).
Proof.
  intros Hm. revert i; induction k as [|k IH]; intros i Hi; [reflexivity|].
  cbn [get_ring seq map]. f_equal.
  - rewrite N.mod_small by lia. f_equal. lia.
  - rewrite IH by (apply mod_lt; auto). rewrite <- seq_shift, map_map. apply map_ext. intros j.
    rewrite mod_add_l by auto. do 2 f_equal. lia.
Qed.

Lemma get_ring_ext d d' m m' i i' k : 0 < m -> 0 < m' -> i < m -> i' < m' ->
  (forall j, (j < k)%nat -> getb d ((i + N.of_nat j) mod m) = getb d' ((i' + N.of_nat j) mod m')) ->
  get_ring d m i k = get_ring d' m' i' k.
Proof.
  intros. rewrite !get_ring_map by auto. apply map_ext_in. intros j Hj. apply in_seq in Hj. apply H3. lia.
Qed.

(* the ring window [i, i+k) shows the segment [a, a+k) of T *)
Lemma get_ring_seg d m i k (T : bytes) a : 0 < m -> i < m -> (a + k <= length T)%nat ->
  (forall j, (j < k)%nat -> getb d ((i + N.of_nat j) mod m) = nth (a + j) T 0) ->
  get_ring d m i k = firstn k (skipn a T).
Proof.
  intros Hm Hi Hk H. rewrite get_ring_map by auto. rewrite <- map_nth_seq by auto.
  apply map_ext_in. intros j Hj. apply in_seq in Hj. apply H. lia.
Qed.

Lemma get_ring_nth d m i k j : 0 < m -> i < m -> (j < k)%nat ->
  nth j (get_ring d m i k) 0 = getb d ((i + N.of_nat j) mod m).
Proof.
  intros. rewrite get_ring_map by auto.
  set (f := fun j => getb d ((i + N.of_nat j) mod m)).
  rewrite (nth_indep _ 0 (f O)) by (rewrite map_length, seq_length; auto).
  rewrite map_nth. rewrite seq_nth by auto. reflexivity.
Qed.

Lemma get_ring_app d m i a b : 0 < m -> i < m ->
  get_ring d m i (a + b) = get_ring d m i a ++ get_ring d m ((i + N.of_nat a) mod m) b.
Proof.
  intros Hm. revert i; induction a as [|a IH]; intros i Hi.
  - cbn [Nat.add get_ring app]. rewrite N.mod_small by lia. f_equal. lia.
  - cbn [Nat.add get_ring app]. f_equal. rewrite IH by (apply mod_lt; auto). f_equal.
    rewrite mod_add_l by auto. f_equal. f_equal. lia.
Qed.

Lemma get_ring_firstn d m i k a : 0 < m -> i < m -> (a <= k)%nat ->
  firstn a (get_ring d m i k) = get_ring d m i a.
Proof.
  intros. replace k with (a + (k - a))%nat by lia. rewrite get_ring_app by auto.
  rewrite firstn_app, get_ring_length, Nat.sub_diag. cbn [firstn]. rewrite app_nil_r.
  rewrite firstn_all2; auto. rewrite get_ring_length; auto.
Qed.

Lemma get_ring_skipn d m i k a : 0 < m -> i < m -> (a <= k)%nat ->
  skipn a (get_ring d m i k) = get_ring d m ((i + N.of_nat a) mod m) (k - a).
Proof.
  intros. replace k with (a + (k - a))%nat at 1 by lia. rewrite get_ring_app by auto.
  rewrite skipn_app, get_ring_length, Nat.sub_diag. cbn [skipn].
  rewrite skipn_all2; auto. rewrite get_ring_length; auto.
Qed.

(* ---- put_ring ---- *)
Lemma put_ring_length d m i bs : length (put_ring d m i bs) = length d.
Proof. revert d i; induction bs; intros; cbn [put_ring]; auto. rewrite IHbs, upd_length. auto. Qed.

Lemma put_ring_app d m i a b : 0 < m -> i < m ->
  put_ring d m i (a ++ b) = put_ring (put_ring d m i a) m ((i + N.of_nat (length a)) mod m) b.
Proof.
  intros Hm. revert d i; induction a as [|x a IH]; intros d i Hi.
  - cbn [app put_ring length]. rewrite N.mod_small by lia. f_equal. lia.
  - cbn [app put_ring length]. rewrite IH by (apply mod_lt; auto). f_equal.
    rewrite mod_add_l by auto. f_equal. lia.
Qed.

(* slots not reached by a short write are unchanged *)
Lemma put_ring_old d m i bs j : 0 < m -> i < m -> (length bs <= j)%nat -> (j < N.to_nat m)%nat ->
  getb (put_ring d m i bs) ((i + N.of_nat j) mod m) = getb d ((i + N.of_nat j) mod m).
Proof.
  intros Hm. revert d i j; induction bs as [|b r IH]; intros d i j Hi Hj Hjm; [reflexivity|].
  cbn [put_ring length] in *.
  replace ((i + N.of_nat j) mod m) with (((i + 1) mod m + N.of_nat (j - 1)) mod m)
    by (rewrite mod_add_l by auto; f_equal; lia).
  rewrite IH by (try apply mod_lt; auto; lia).
  apply getb_upd_other.
  rewrite mod_add_l by auto. replace (i + 1 + N.of_nat (j - 1)) with (i + N.of_nat j) by lia.
  rewrite mod_lt2 by lia. destruct (i + N.of_nat j <? m) eqn:E; [apply N.ltb_lt in E|apply N.ltb_ge in E]; lia.
Qed.

(* the last lap of a write is in place *)
Lemma put_ring_new d m i bs j : 0 < m -> i < m -> length d = N.to_nat m ->
  (j < length bs)%nat -> (length bs - j <= N.to_nat m)%nat ->
  getb (put_ring d m i bs) ((i + N.of_nat j) mod m) = nth j bs 0.
Proof.
  intros Hm. revert d i j; induction bs as [|b r IH]; intros d i j Hi Hd Hj Hjm; cbn [length] in *; [lia|].
  cbn [put_ring]. destruct j as [|j].
  - cbn [nth]. replace ((i + N.of_nat 0) mod m) with (((i + 1) mod m + N.of_nat (N.to_nat m - 1)) mod m).
    + rewrite put_ring_old by (try apply mod_lt; auto; lia).
      rewrite mod_add_l by auto. replace (i + 1 + N.of_nat (N.to_nat m - 1)) with (i + m) by lia.
      rewrite mod_add_self, N.mod_small by lia. apply getb_upd_same. lia.
    + rewrite mod_add_l by auto. replace (i + 1 + N.of_nat (N.to_nat m - 1)) with (i + m) by lia.
      rewrite mod_add_self by lia. f_equal. lia.
  - cbn [nth].
    replace ((i + N.of_nat (S j)) mod m) with (((i + 1) mod m + N.of_nat j) mod m)
      by (rewrite mod_add_l by auto; f_equal; lia).
    apply IH; try (apply mod_lt; auto); try lia. rewrite upd_length; auto.
Qed.

(* ---- block versions ---- *)
Fixpoint put_lin (d : list N) (pos : nat) (bs : bytes) : list N :=
  match bs with [] => d | b :: r => put_lin (upd d pos b) (S pos) r end.

Lemma put_lin_cons h t p bs : put_lin (h :: t) (S p) bs = h :: put_lin t p bs.
Proof. revert t p; induction bs as [|b r IH]; intros; cbn [put_lin upd]; auto. Qed.

Lemma put_lin_0 d bs : (length bs <= length d)%nat -> put_lin d 0 bs = bs ++ skipn (length bs) d.
Proof.
  revert d; induction bs as [|b r IH]; intros d H; [reflexivity|].
  destruct d as [|h t]; cbn [length] in *; [lia|].
  cbn [put_lin upd app skipn]. rewrite put_lin_cons. f_equal. apply IH. lia.
Qed.

Lemma put_lin_blit d pos bs : (pos + length bs <= length d)%nat -> put_lin d pos bs = blit d pos bs.
Proof.
  revert d; induction pos as [|p IH]; intros d H.
  - unfold blit. cbn [firstn app Nat.add]. apply put_lin_0. lia.
  - destruct d as [|h t]; cbn [length] in *.
    + destruct bs; cbn [length] in *; [|lia]. reflexivity.
    + rewrite put_lin_cons. unfold blit. cbn [firstn app Nat.add skipn]. f_equal. apply IH. lia.
Qed.

Lemma put_ring_lin d m i bs : 0 < m -> i + N.of_nat (length bs) <= m ->
  put_ring d m i bs = put_lin d (N.to_nat i) bs.
Proof.
  intros Hm. revert d i; induction bs as [|b r IH]; intros d i H; [reflexivity|].
  cbn [put_ring put_lin length] in *. destruct r as [|b' r'].
  - reflexivity.
  - cbn [length] in *. rewrite N.mod_small by lia. rewrite IH by (cbn [length]; lia).
    f_equal. lia.
Qed.

Lemma blit_length d pos bs : (pos + length bs <= length d)%nat -> length (blit d pos bs) = length d.
Proof. intros. unfold blit. rewrite !app_length, firstn_length, skipn_length. lia. Qed.

Lemma put_ring_blk_eq fuel d m i bs : 0 < m -> i < m -> length d = N.to_nat m -> (length bs < fuel)%nat ->
  put_ring_blk fuel d m i bs = put_ring d m i bs.
Proof.
  intros Hm. revert d i bs; induction fuel as [|f IH]; intros d i bs Hi Hd Hf; [lia|].
  cbn [put_ring_blk]. destruct bs as [|b r] eqn:Ebs; [reflexivity|]. rewrite <- Ebs in *.
  assert (Hl : (0 < length bs)%nat) by (subst bs; cbn [length]; lia). clear Ebs.
  set (k := Nat.min (length bs) (N.to_nat (m - i))).
  assert (Hk : (0 < k <= length bs)%nat /\ i + N.of_nat k <= m) by lia.
  assert (Hfk : length (firstn k bs) = k) by (rewrite firstn_length; lia).
  assert (Hb : blit d (N.to_nat i) (firstn k bs) = put_ring d m i (firstn k bs)).
  { rewrite put_ring_lin by (auto; lia). symmetry. apply put_lin_blit. lia. }
  rewrite Hb. rewrite IH.
  - rewrite <- (firstn_skipn k bs) at 3. rewrite put_ring_app by auto. rewrite Hfk. reflexivity.
  - apply mod_lt; auto.
  - rewrite put_ring_length; auto.
  - rewrite skipn_length. lia.
Qed.

Lemma put_ring_fast_eq d m i bs : 0 < m -> i < m -> length d = N.to_nat m ->
  put_ring_fast d m i bs = put_ring d m i bs.
Proof. intros. unfold put_ring_fast. apply put_ring_blk_eq; auto. Qed.

Lemma get_ring_lin d m i a : 0 < m -> i + N.of_nat a <= m -> length d = N.to_nat m ->
  get_ring d m i a = firstn a (skipn (N.to_nat i) d).
Proof.
  intros Hm. revert i; induction a as [|a IH]; intros i H Hd; [reflexivity|].
  cbn [get_ring]. rewrite (skipn_nth_cons d (N.to_nat i) 0) by lia. cbn [firstn]. f_equal.
  destruct a as [|a']; [reflexivity|].
  rewrite N.mod_small by lia. rewrite IH by lia. do 2 f_equal. lia.
Qed.

Lemma get_ring_fast_eq d m i k : 0 < m -> i < m -> (k <= N.to_nat m)%nat -> length d = N.to_nat m ->
  get_ring_fast d m i k = get_ring d m i k.
Proof.
  intros Hm Hi Hk Hd. unfold get_ring_fast.
  set (first := Nat.min k (N.to_nat (m - i))).
  transitivity (get_ring d m i (first + (k - first))); [|f_equal; lia].
  rewrite get_ring_app by auto. f_equal.
  - symmetry. apply get_ring_lin; auto. lia.
  - destruct (k - first)%nat as [|b] eqn:Eb; [reflexivity|].
    assert (i + N.of_nat first = m) by lia. rewrite H, N.mod_same by lia.
    rewrite get_ring_lin by (auto; lia). reflexivity.
Qed.

(* lia expands every [mod] into nonlinear equations, which is hopeless (and very slow) with a
   variable modulus: replace all [mod] terms by opaque variables first.
   [olia]: mod terms fully opaque; [mlia Hm]: keeping their bound (Hm : 0 < m). *)
Ltac hide_mod0 := repeat match goal with
  | H : context [?a mod ?m] |- _ => let x := fresh "md" in set (x := a mod m) in *; clearbody x
  | |- context [?a mod ?m] => let x := fresh "md" in set (x := a mod m) in *; clearbody x
  end.
Ltac hide_mod Hm := repeat match goal with
  | H : context [?a mod ?m] |- _ => let x := fresh "md" in let Hx := fresh "Hmd" in
       pose proof (mod_lt m a Hm) as Hx; set (x := a mod m) in *; clearbody x
  | |- context [?a mod ?m] => let x := fresh "md" in let Hx := fresh "Hmd" in
       pose proof (mod_lt m a Hm) as Hx; set (x := a mod m) in *; clearbody x
  end.
Ltac olia := hide_mod0; lia.
Ltac mlia Hm := hide_mod Hm; lia.
Ltac ifs := repeat match goal with |- context [if ?b then _ else _] => destruct b eqn:? end.
(* normalise every (x mod m) with x < 2m into an if, then split cases *)
Ltac mod2 Hm := repeat (rewrite mod_lt2 by (mlia Hm)); ifs; try olia.
(* split syntactic conjunctions only (plain [split] would unfold defined predicates) *)
Ltac csplit := repeat match goal with |- _ /\ _ => split end.
