(* C13 proofs, part 2: the invariant; create, bounds, read/peek/drop. *)
From PV Require Import Cbuf.CbufDefs Cbuf.CbufSpec Cbuf.CbufRing.
Local Open Scope N_scope.

Definition Inv (c : cbuf) : Prop :=
  0 < minsize c /\ minsize c <= size c /\ size c <= maxsize c /\ used c <= size c /\
  length (data c) = N.to_nat (size c + 1) /\
  i_in c <= size c /\ i_out c <= size c /\ i_rep c <= size c /\
  i_in c = (i_out c + used c) mod (size c + 1) /\
  (* replayable region sits between i_rep and i_out and never overlaps unread data *)
  used c + (i_out c + (size c + 1) - i_rep c) mod (size c + 1) <= size c /\
  (got_wrap c = false -> i_rep c = 0).

Ltac inv_destruct H :=
  let Hmin := fresh "Hmin" in let Hmn := fresh "Hmn" in let Hmx := fresh "Hmx" in let Hu := fresh "Hu" in
  let Hlen := fresh "Hlen" in let Hin := fresh "Hin" in let Hout := fresh "Hout" in let Hrep := fresh "Hrep" in
  let Heq := fresh "Heq" in let Hrp := fresh "Hrp" in let Hgw := fresh "Hgw" in
  destruct H as (Hmin & Hmn & Hmx & Hu & Hlen & Hin & Hout & Hrep & Heq & Hrp & Hgw).


Lemma abs_length c : length (abs c) = N.to_nat (used c).
Proof. unfold abs. apply get_ring_length. Qed.

Lemma inv_create mn mx c : create mn mx = Some c -> Inv c /\ abs c = [] /\ size c = mn.
Proof.
  unfold create. destruct (mn =? 0) eqn:E; [discriminate|]. apply N.eqb_neq in E.
  intros H; injection H as <-. unfold Inv, abs. cbn [minsize maxsize size used i_in i_out i_rep data got_wrap].
  rewrite repeat_length. rewrite N.add_0_r, N.mod_0_l by lia. cbn [N.to_nat get_ring].
  repeat split; try lia.
  destruct (mn <? mx) eqn:E1; lia.
Qed.

Lemma inv_bounds c : Inv c ->
  minsize c <= size c <= maxsize c /\ used c <= size c /\ N.of_nat (length (abs c)) = used c /\
  length (data c) = N.to_nat (size c + 1) /\ i_in c <= size c /\ i_out c <= size c.
Proof. intros H. inv_destruct H. rewrite abs_length. repeat split; auto; lia. Qed.

Lemma inv_opt_set c o : Inv c -> Inv (opt_set c o).
Proof. unfold Inv, opt_set. cbn [minsize maxsize size used i_in i_out i_rep data got_wrap]. auto. Qed.

Lemma inv_flush c : Inv c -> Inv (flush c).
Proof.
  intros H. inv_destruct H. unfold Inv, flush. cbn [minsize maxsize size used i_in i_out i_rep data got_wrap].
  rewrite N.add_0_r, N.mod_0_l by lia. rewrite N.sub_0_r, N.add_0_l, N.mod_same by lia.
  repeat split; auto; lia.
Qed.

(* ---- reading ---- *)
Lemma firstn_min_len {A} a (l : list A) : firstn (Nat.min a (length l)) l = firstn a l.
Proof.
  destruct (Nat.le_gt_cases a (length l)).
  - f_equal. lia.
  - rewrite Nat.min_r by lia. rewrite !firstn_all2; auto; lia.
Qed.
Lemma skipn_min_len {A} a (l : list A) : skipn (Nat.min a (length l)) l = skipn a l.
Proof.
  destruct (Nat.le_gt_cases a (length l)).
  - f_equal. lia.
  - rewrite Nat.min_r by lia. rewrite !skipn_all2; auto; lia.
Qed.

Lemma reader_eq c len : Inv c -> reader c len = firstn (N.to_nat len) (abs c).
Proof.
  intros H. inv_destruct H. unfold reader, M.
  rewrite get_ring_fast_eq by lia.
  rewrite <- firstn_min_len, abs_length. unfold abs, M.
  rewrite get_ring_firstn by lia. f_equal. lia.
Qed.

Lemma dropper_inv c n : Inv c -> n <= used c -> Inv (dropper c n).
Proof.
  intros H Hn. inv_destruct H. unfold Inv, dropper, M.
  cbn [minsize maxsize size used i_in i_out i_rep data got_wrap].
  assert (Hm : 0 < size c + 1) by lia.
  repeat split; auto; try lia.
  - rewrite mod_add_l by auto. rewrite Heq. f_equal. lia.
  - revert Hrp. mod2 Hm.
Qed.

Lemma dropper_abs c n : Inv c -> n <= used c -> abs (dropper c n) = skipn (N.to_nat n) (abs c).
Proof.
  intros H Hn. inv_destruct H. unfold abs, dropper, M.
  cbn [minsize maxsize size used i_in i_out i_rep data got_wrap].
  rewrite get_ring_skipn by lia. rewrite N2Nat.id. f_equal. lia.
Qed.

(* all consuming operations have this shape *)
Definition consume (c : cbuf) (n : N) : cbuf := if n =? 0 then c else dropper c n.

Lemma consume_inv c n : Inv c -> n <= used c -> Inv (consume c n).
Proof. intros. unfold consume. destruct (n =? 0); auto using dropper_inv. Qed.

Lemma consume_abs c n : Inv c -> n <= used c -> abs (consume c n) = skipn (N.to_nat n) (abs c).
Proof.
  intros. unfold consume. destruct (n =? 0) eqn:E; auto using dropper_abs.
  apply N.eqb_eq in E. subst. reflexivity.
Qed.

Lemma read_consume c len : Inv c -> fst (read c len) = consume c (N.min len (used c)).
Proof.
  intros H. unfold read. cbn [fst]. rewrite reader_eq by auto.
  rewrite firstn_length, abs_length. unfold consume.
  replace (N.of_nat (Nat.min (N.to_nat len) (N.to_nat (used c)))) with (N.min len (used c)) by lia. reflexivity.
Qed.

Lemma inv_read c len : Inv c -> Inv (fst (read c len)).
Proof. intros. rewrite read_consume by auto. apply consume_inv; auto. lia. Qed.

Lemma peek_refines c len : Inv c -> peek c len = firstn (N.to_nat len) (abs c).
Proof. apply reader_eq. Qed.

Lemma read_refines c len : Inv c ->
  snd (read c len) = firstn (N.to_nat len) (abs c) /\ abs (fst (read c len)) = skipn (N.to_nat len) (abs c).
Proof.
  intros H. split.
  - unfold read. cbn [snd]. apply reader_eq; auto.
  - rewrite read_consume by auto. rewrite consume_abs by (auto; lia).
    rewrite <- (skipn_min_len (N.to_nat len)), abs_length. f_equal. lia.
Qed.

Lemma drop_consume c len :
  drop c len = (consume c (match len with None => used c | Some l => N.min l (used c) end),
                match len with None => used c | Some l => N.min l (used c) end).
Proof. reflexivity. Qed.

Lemma inv_drop c len : Inv c -> Inv (fst (drop c len)).
Proof. intros. rewrite drop_consume. cbn [fst]. apply consume_inv; auto. destruct len; lia. Qed.

Lemma drop_refines c len : Inv c ->
  abs (fst (drop c len)) = skipn (N.to_nat (snd (drop c len))) (abs c) /\
  snd (drop c len) = match len with None => used c | Some l => N.min l (used c) end.
Proof.
  intros. rewrite drop_consume. cbn [fst snd]. split; auto. apply consume_abs; auto. destruct len; lia.
Qed.
