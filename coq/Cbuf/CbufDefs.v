(* Executable model of src/pdsh/cbuf.c as pdsh builds it (NDEBUG: the only meta byte is
   the sentinel, alloc = size + 1).  Sizes and indices are N (pdsh's buffers are 131072
   bytes).  Concrete ring state, index-level operations.  No proofs here. *)
From PV Require Export Base.Bytes Generated.Params.
Local Open Scope N_scope.

Inductive ovw := NO_DROP | WRAP_ONCE | WRAP_MANY.

Record cbuf := mkcb {
  minsize : N; maxsize : N; size : N; used : N; overwrite : ovw; got_wrap : bool;
  i_in : N; i_out : N; i_rep : N; data : list N (* size + 1 slots *) }.

Definition M (c : cbuf) : N := size c + 1.

Definition create (mn mx : N) : option cbuf :=
  if mn =? 0 then None
  else Some (mkcb mn (if mn <? mx then mx else mn) mn 0 WRAP_MANY false 0 0 0 (repeat 0 (N.to_nat (mn + 1)))).

Definition getb (d : list N) (i : N) : N := nth (N.to_nat i) d 0.

Fixpoint upd (l : list N) (i : nat) (x : N) : list N :=
  match l, i with [], _ => [] | _ :: t, O => x :: t | h :: t, S j => h :: upd t j x end.

(* store bytes one by one starting at index i, wrapping modulo m (the C does this with
   at most two memcpy's per lap; block structure is unobservable) *)
Fixpoint put_ring (d : list N) (m : N) (i : N) (bs : bytes) : list N :=
  match bs with
  | [] => d
  | b :: r => put_ring (upd d (N.to_nat i) b) m ((i + 1) mod m) r
  end.

Fixpoint get_ring (d : list N) (m : N) (i : N) (k : nat) : bytes :=
  match k with
  | O => []
  | S k' => getb d i :: get_ring d m ((i + 1) mod m) k'
  end.

(* block versions used by the executable operations (proved equal to the byte-wise ones
   in CbufFacts.v): one lap = at most two block copies, as the C does it *)
Definition blit (d : list N) (pos : nat) (src : bytes) : list N :=
  firstn pos d ++ src ++ skipn (pos + length src) d.
Fixpoint put_ring_blk (fuel : nat) (d : list N) (m : N) (i : N) (bs : bytes) : list N :=
  match fuel with
  | O => d
  | S f =>
    match bs with
    | [] => d
    | _ => let k := Nat.min (length bs) (N.to_nat (m - i)) in
           put_ring_blk f (blit d (N.to_nat i) (firstn k bs)) m ((i + N.of_nat k) mod m) (skipn k bs)
    end
  end.
Definition put_ring_fast (d : list N) (m i : N) (bs : bytes) : list N :=
  put_ring_blk (S (length bs)) d m i bs.
Definition get_ring_fast (d : list N) (m i : N) (k : nat) : bytes :=
  let first := Nat.min k (N.to_nat (m - i)) in
  firstn first (skipn (N.to_nat i) d) ++ firstn (k - first) d.

Definition set_data c d := mkcb (minsize c) (maxsize c) (size c) (used c) (overwrite c) (got_wrap c) (i_in c) (i_out c) (i_rep c) d.

(* ---- cbuf_grow(cb, n): returns the grown buffer and the number of bytes gained ---- *)
Definition grow (c : cbuf) (n : N) : cbuf * N :=
  if size c =? maxsize c then (c, 0)
  else
    let size_old := size c in
    let m0 := size c + 1 + n in
    let m1 := m0 + (CBUF_CHUNK - m0 mod CBUF_CHUNK) in
    let m := N.min m1 (maxsize c + 1) in
    let size' := m - 1 in
    (* realloc: old bytes kept, new bytes unspecified (0 here) *)
    let d1 := data c ++ repeat 0 (N.to_nat (size' - size_old)) in
    if i_in c <? i_rep c then
      let cnt := size_old + 1 - i_rep c in
      let dst := size' + 1 - cnt in
      (* memmove(data + dst, data + i_rep, cnt) *)
      let blk := firstn (N.to_nat cnt) (skipn (N.to_nat (i_rep c)) d1) in
      let d2 := firstn (N.to_nat dst) d1 ++ blk in
      let out' := if i_rep c <=? i_out c then i_out c + (dst - i_rep c) else i_out c in
      (mkcb (minsize c) (maxsize c) size' (used c) (overwrite c) (got_wrap c) (i_in c) out' dst d2, size' - size_old)
    else
      (mkcb (minsize c) (maxsize c) size' (used c) (overwrite c) (got_wrap c) (i_in c) (i_out c) (i_rep c) d1, size' - size_old).

(* metadata update at the end of cbuf_writer after n > 0 bytes were stored from i_in on *)
Definition commit_write (c : cbuf) (d : list N) (n nfree : N) : cbuf :=
  let m := M c in
  let nrepl := (i_out c + m - i_rep c) mod m in
  let used' := N.min (used c + n) (size c) in
  let in' := (i_in c + n) mod m in
  let wrap := nfree - nrepl <? n in
  let rep' := if wrap then (in' + 1) mod m else i_rep c in
  let out' := if nfree <? n then rep' else i_out c in
  mkcb (minsize c) (maxsize c) (size c) used' (overwrite c) (got_wrap c || wrap) in' out' rep' d.

Inductive wres := WOk (n : N) (ndropped : N) | WErr (* -1 *) | WEof (* 0 from the source *).

(* the first part of cbuf_writer: grow if needed, compute the effective length *)
Definition writer_prep (c : cbuf) (len : N) : cbuf * N (* nfree *) * option N (* len, None = ENOSPC *) :=
  let nfree0 := size c - used c in
  let '(c1, nfree) := if (nfree0 <? len) && (size c <? maxsize c)
                      then let '(c', g) := grow c (len - nfree0) in (c', nfree0 + g) else (c, nfree0) in
  match overwrite c1 with
  | NO_DROP => let l := N.min len (size c1 - used c1) in (c1, nfree, if l =? 0 then None else Some l)
  | WRAP_ONCE => (c1, nfree, Some (N.min len (size c1)))
  | WRAP_MANY => (c1, nfree, Some len)
  end.

(* cbuf_write (memory source): all requested bytes are available *)
Definition write (c : cbuf) (bs : bytes) : cbuf * wres :=
  let len := N.of_nat (length bs) in
  if len =? 0 then (c, WOk 0 0)
  else
    let '(c1, nfree, ol) := writer_prep c len in
    match ol with
    | None => (c1, WErr)
    | Some l =>
      let d := put_ring_fast (data c1) (M c1) (i_in c1) (firstn (N.to_nat l) bs) in
      (commit_write c1 d l nfree, WOk l (l - nfree))
    end.

(* ---- descriptor source: a script of what successive read(2) calls find ---- *)
Inductive fdev := Avail (bs : bytes) | Eof | RdErr.

(* read(fd, n): result bytes (None = -1, Some [] = EOF) and the remaining script *)
Definition fd_read (s : list fdev) (n : N) : option bytes * list fdev :=
  match s with
  | [] => (Some [], [])
  | Eof :: r => (Some [], s)
  | RdErr :: r => (None, r)
  | Avail bs :: r =>
    let k := N.to_nat n in
    let got := firstn k bs in
    let rest := skipn k bs in
    (Some got, match rest with [] => r | _ => Avail rest :: r end)
  end.

(* the copy loop of cbuf_writer with getf = read: segments end at the physical end of the array *)
Fixpoint fd_loop (fuel : nat) (d : list N) (m : N) (i : N) (nleft : N) (s : list fdev) (last : Z)
  : list N * N (* nleft *) * list fdev * Z (* last getf result *) :=
  match fuel with
  | O => (d, nleft, s, last)
  | S f =>
    if nleft =? 0 then (d, nleft, s, last)
    else
      let n := N.min nleft (m - i) in
      match fd_read s n with
      | (None, s') => (d, nleft, s', (-1)%Z)
      | (Some got, s') =>
        let k := N.of_nat (length got) in
        let d' := put_ring_fast d m i got in
        if k =? n then fd_loop f d' m ((i + k) mod m) (nleft - k) s' (Z.of_N k)
        else (d', nleft - k, s', Z.of_N k)
      end
  end.

(* cbuf_write_from_fd(dst, fd, len, &ndropped) with len = -1 encoded as None *)
Definition write_from_fd (c : cbuf) (s : list fdev) (len : option N) : cbuf * list fdev * wres :=
  let len0 := match len with
              | Some l => l
              | None => let f := size c - used c in if f =? 0 then N.min (size c) CBUF_CHUNK else f
              end in
  if len0 =? 0 then (c, s, WOk 0 0)
  else
    let '(c1, nfree, ol) := writer_prep c len0 in
    match ol with
    | None => (c1, s, WErr)
    | Some l =>
      let '(d, nleft, s', last) := fd_loop (S (N.to_nat (l / M c1 + 2))) (data c1) (M c1) (i_in c1) l s 0%Z in
      let n := l - nleft in
      if n =? 0 then (set_data c1 d, s', if (last <? 0)%Z then WErr else WEof)
      else (commit_write c1 d n nfree, s', WOk n (n - nfree))
    end.

(* ---- reading ---- *)
(* cbuf_dropper *)
Definition dropper (c : cbuf) (len : N) : cbuf :=
  mkcb (minsize c) (maxsize c) (size c) (used c - len) (overwrite c) (got_wrap c) (i_in c)
       ((i_out c + len) mod M c) (i_rep c) (data c).

(* cbuf_reader with putf = memcpy: the bytes delivered *)
Definition reader (c : cbuf) (len : N) : bytes :=
  get_ring_fast (data c) (M c) (i_out c) (N.to_nat (N.min len (used c))).

Definition peek (c : cbuf) (len : N) : bytes := reader c len.
Definition read (c : cbuf) (len : N) : cbuf * bytes :=
  let bs := reader c len in
  let n := N.of_nat (length bs) in
  (if n =? 0 then c else dropper c n, bs).
Definition drop (c : cbuf) (len : option N) : cbuf * N :=
  let l := match len with None => used c | Some l => N.min l (used c) end in
  (if l =? 0 then c else dropper c l, l).

(* cbuf_find_unread_line(cb, chars, &nlines): lines = None means -1; returns (bytes, lines found).
   chars is a C int and may be negative (len - 1 with len = 0). *)
Fixpoint ful_loop (bs : bytes) (n mm l : N) (chars : Z) (lines : Z) : N * N * Z :=
  match bs with
  | [] => (mm, l, lines)
  | b :: rest =>
      let n1 := n + 1 in
      let chars1 := if (0 <? chars)%Z then (chars - 1)%Z else chars in
      let isnl := b =? 10 in
      let lines1 := if isnl && (0 <? lines)%Z then (lines - 1)%Z else lines in
      let mm1 := if isnl then n1 else mm in
      let l1 := if isnl then l + 1 else l in
      if (chars1 =? 0)%Z || (lines1 =? 0)%Z then (mm1, l1, lines1)
      else ful_loop rest n1 mm1 l1 chars1 lines1
  end.

(* the C walks the ring from i_out until it meets i_in, i.e. over the unread bytes *)
Definition find_unread_line (c : cbuf) (chars : Z) (lines : Z) : N * N :=
  if (lines =? 0)%Z || ((lines <=? -1)%Z && (chars <=? 0)%Z) then (0, 0)
  else if used c =? 0 then (0, 0)
  else
    let chars' := if (0 <? lines)%Z then (-1)%Z else chars in
    let '(mm, l, lines') := ful_loop (get_ring_fast (data c) (M c) (i_out c) (N.to_nat (used c))) 0 0 0 chars' lines in
    if (0 <? lines')%Z then (0, 0) else (mm, l).

Definition lines_used (c : cbuf) : N := snd (find_unread_line c (Z.of_N (size c)) (-1)%Z).

(* cbuf_peek_line / cbuf_read_line / cbuf_drop_line (len = size of the caller's buffer, lines >= -1);
   result: return value n and the NUL-terminated text placed in the caller's buffer (None: untouched) *)
Definition peek_line (c : cbuf) (len : N) (lines : Z) : N * option bytes :=
  if (lines =? 0)%Z then (0, None)
  else
    let '(n, _) := find_unread_line c (Z.of_N len - 1)%Z lines in
    if (0 <? n) && (0 <? len) then (n, Some (reader c (N.min n (len - 1)))) else (n, None).
Definition read_line (c : cbuf) (len : N) (lines : Z) : cbuf * N * option bytes :=
  let '(n, t) := peek_line c len lines in
  (if 0 <? n then dropper c n else c, n, t).
Definition drop_line (c : cbuf) (len : N) (lines : Z) : cbuf * N :=
  if (lines =? 0)%Z then (c, 0)
  else let '(n, _) := find_unread_line c (Z.of_N len) lines in
       (if 0 <? n then dropper c n else c, n).

(* cbuf_write_line(dst, str, &ndropped): str without NUL *)
Definition write_line (c : cbuf) (str : bytes) : cbuf * wres :=
  let ncopy := N.of_nat (length str) in
  let has_nl := match rev str with 10 :: _ => true | _ => false end in
  let len := if has_nl then ncopy else ncopy + 1 in
  let nfree0 := size c - used c in
  let c1 := if (nfree0 <? len) && (size c <? maxsize c) then fst (grow c (len - nfree0)) else c in
  let refuse := match overwrite c1 with
                | NO_DROP => size c1 - used c1 <? len
                | WRAP_ONCE => size c1 <? len
                | WRAP_MANY => false
                end in
  if refuse then (c1, WErr)
  else
    let ndrop0 := if size c1 <? len then len - size c1 else 0 in
    let src := skipn (N.to_nat ndrop0) str in
    let '(c2, d1) := match src with
                     | [] => (c1, 0)
                     | _ => match write c1 src with (c', WOk _ d) => (c', d) | (c', _) => (c', 0) end
                     end in
    let '(c3, d2) := if has_nl then (c2, 0)
                     else match write c2 [10] with (c', WOk _ d) => (c', d) | (c', _) => (c', 0) end in
    (c3, WOk len (ndrop0 + d1 + d2)).

Definition opt_set (c : cbuf) (o : ovw) : cbuf :=
  mkcb (minsize c) (maxsize c) (size c) (used c) o (got_wrap c) (i_in c) (i_out c) (i_rep c) (data c).
Definition flush (c : cbuf) : cbuf :=
  mkcb (minsize c) (maxsize c) (size c) 0 (overwrite c) false 0 0 0 (data c).

(* abstraction: the unread bytes, oldest first *)
Definition abs (c : cbuf) : bytes := get_ring (data c) (M c) (i_out c) (N.to_nat (used c)).
