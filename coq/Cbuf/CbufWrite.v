(* C13 proofs, part 3: commit_write, grow, writer_prep, write. *)
From PV Require Import Cbuf.CbufDefs Cbuf.CbufSpec Cbuf.CbufRing Cbuf.CbufInv.
Local Open Scope N_scope.

Ltac cbf := cbn [minsize maxsize size used i_in i_out i_rep data got_wrap overwrite].

(* ---- commit_write: n bytes stored from i_in on ---- *)
Lemma commit_write_fields c d n nf :
  size (commit_write c d n nf) = size c /\ maxsize (commit_write c d n nf) = maxsize c /\
  minsize (commit_write c d n nf) = minsize c /\ overwrite (commit_write c d n nf) = overwrite c /\
  used (commit_write c d n nf) = N.min (used c + n) (size c) /\ data (commit_write c d n nf) = d.
Proof. unfold commit_write. cbf. repeat split; reflexivity. Qed.

Lemma commit_write_inv c d n : Inv c -> length d = length (data c) ->
  Inv (commit_write c d n (size c - used c)).
Proof.
  intros H Hd. inv_destruct H. unfold commit_write, M, Inv. cbf.
  set (m := size c + 1) in *. assert (Em : m = size c + 1) by reflexivity. clearbody m.
  assert (Hm : 0 < m) by olia.
  assert (Ein' : (i_in c + n) mod m = (i_out c + (used c + n)) mod m).
  { rewrite Heq. rewrite mod_add_l by auto. f_equal. olia. }
  destruct (size c - used c - (i_out c + m - i_rep c) mod m <? n) eqn:Ew;
    [apply N.ltb_lt in Ew|apply N.ltb_ge in Ew].
  - (* wrap *)
    rewrite orb_true_r.
    destruct (size c - used c <? n) eqn:Ef; [apply N.ltb_lt in Ef|apply N.ltb_ge in Ef].
    + assert (Eu : N.min (used c + n) (size c) = size c) by olia. rewrite Eu.
      set (in' := (i_in c + n) mod m) in *.
      assert (Hin' : in' < m) by (apply mod_lt; auto).
      assert (A1 : in' = ((in' + 1) mod m + size c) mod m).
      { rewrite mod_add_l by auto. replace (in' + 1 + size c) with (in' + m) by olia.
        rewrite mod_add_self, N.mod_small by auto. reflexivity. }
      assert (A2 : ((in' + 1) mod m + m - (in' + 1) mod m) mod m = 0).
      { replace ((in' + 1) mod m + m - (in' + 1) mod m) with m by olia. apply N.mod_same. olia. }
      rewrite A2. clearbody in'. hide_mod Hm. repeat split; auto; try lia.
    + assert (Eu : N.min (used c + n) (size c) = used c + n) by olia. rewrite Eu.
      assert (A2 : used c + n + (i_out c + m - ((i_in c + n) mod m + 1) mod m) mod m <= size c).
      { rewrite Ein'. clear Hrp Ein' Heq Ew. mod2 Hm. }
      hide_mod Hm. repeat split; auto; try lia.
  - (* no wrap *)
    assert (Ef : (size c - used c <? n) = false) by (apply N.ltb_ge; olia). rewrite Ef.
    assert (Eu : N.min (used c + n) (size c) = used c + n) by olia. rewrite Eu.
    rewrite orb_false_r. hide_mod Hm. repeat split; auto; try lia.
Qed.

(* after the store, the ring shows the last lap of (unread ++ new) *)
Lemma store_window c bs j : Inv c ->
  (j < length (abs c ++ bs))%nat -> (length (abs c ++ bs) - j <= N.to_nat (M c))%nat ->
  getb (put_ring (data c) (M c) (i_in c) bs) ((i_out c + N.of_nat j) mod M c) = nth j (abs c ++ bs) 0.
Proof.
  intros H Hj Hjm. inv_destruct H. clear Hrp. unfold M in *.
  set (m := size c + 1) in *. assert (Em : m = size c + 1) by reflexivity. clearbody m.
  assert (Hm : 0 < m) by olia.
  rewrite app_length, abs_length in *.
  destruct (Nat.lt_ge_cases j (N.to_nat (used c))) as [Hlt|Hge].
  - rewrite app_nth1 by (rewrite abs_length; auto).
    unfold abs, M. rewrite <- Em. rewrite get_ring_nth by olia.
    replace ((i_out c + N.of_nat j) mod m)
      with ((i_in c + N.of_nat (N.to_nat m - N.to_nat (used c) + j)) mod m).
    + apply put_ring_old; olia.
    + rewrite Heq, mod_add_l by auto.
      replace (i_out c + used c + N.of_nat (N.to_nat m - N.to_nat (used c) + j)) with (i_out c + N.of_nat j + m) by olia.
      apply mod_add_self; auto.
  - rewrite app_nth2 by (rewrite abs_length; olia). rewrite abs_length.
    replace ((i_out c + N.of_nat j) mod m) with ((i_in c + N.of_nat (j - N.to_nat (used c))) mod m).
    + apply put_ring_new; olia.
    + rewrite Heq, mod_add_l by auto. f_equal. olia.
Qed.

Lemma commit_write_abs c bs : Inv c ->
  abs (commit_write c (put_ring (data c) (M c) (i_in c) bs) (N.of_nat (length bs)) (size c - used c))
  = lastn (N.to_nat (size c)) (abs c ++ bs).
Proof.
  intros H. pose proof (store_window c bs) as W. specialize (fun j => W j H).
  pose proof H as H'. inv_destruct H'. clear Hgw Hrep Hmin Hmn Hmx.
  set (d' := put_ring (data c) (M c) (i_in c) bs) in *. clearbody d'.
  set (T := abs c ++ bs) in *.
  assert (HT : length T = (N.to_nat (used c) + length bs)%nat) by (unfold T; rewrite app_length, abs_length; auto).
  clearbody T.
  set (n := N.of_nat (length bs)) in *. assert (En : n = N.of_nat (length bs)) by reflexivity. clearbody n.
  unfold abs at 1. unfold commit_write, M in *. cbf.
  set (m := size c + 1) in *. assert (Em : m = size c + 1) by reflexivity. clearbody m.
  assert (Hm : 0 < m) by olia.
  destruct (size c - used c <? n) eqn:Ef; [apply N.ltb_lt in Ef|apply N.ltb_ge in Ef].
  - assert (Ew : (size c - used c - (i_out c + m - i_rep c) mod m <? n) = true) by (apply N.ltb_lt; olia).
    rewrite Ew. assert (Eu : N.min (used c + n) (size c) = size c) by olia. rewrite Eu.
    clear Ew Eu Hrp.
    set (a := (length T - N.to_nat (size c))%nat).
    assert (Ea : a = (length T - N.to_nat (size c))%nat) by reflexivity. clearbody a.
    assert (Eo : ((i_in c + n) mod m + 1) mod m = (i_out c + N.of_nat a) mod m).
    { rewrite mod_add_l by auto. rewrite Heq. rewrite <- N.add_assoc, mod_add_l by auto.
      rewrite <- (mod_add_self (i_out c + N.of_nat a)) by auto. f_equal. olia. }
    rewrite Eo. clear Eo Heq. rewrite (get_ring_seg _ _ _ _ T a).
    + unfold lastn. rewrite <- Ea. apply firstn_all2. rewrite skipn_length. lia.
    + auto.
    + apply mod_lt; auto.
    + lia.
    + intros j Hj. rewrite mod_add_l by auto. rewrite <- N.add_assoc, <- Nat2N.inj_add.
      apply W; lia.
  - assert (Eu : N.min (used c + n) (size c) = used c + n) by olia. rewrite Eu.
    clear Eu Hrp Heq.
    rewrite (get_ring_seg _ _ _ _ T 0).
    + cbn [skipn]. rewrite firstn_all2 by lia. symmetry. apply lastn_all. lia.
    + auto.
    + lia.
    + lia.
    + intros j Hj. apply W; lia.
Qed.

(* ---- grow ---- *)
Lemma nth_firstn' {A} (l : list A) n i d : (i < n)%nat -> nth i (firstn n l) d = nth i l d.
Proof.
  revert n i; induction l as [|h t IH]; intros [|n] [|i] H; cbn [firstn nth]; auto; try lia.
  apply IH. lia.
Qed.
Lemma nth_skipn' {A} (l : list A) n i d : nth i (skipn n l) d = nth (n + i) l d.
Proof.
  revert n; induction l as [|h t IH]; intros [|n]; cbn [skipn nth Nat.add]; auto.
  destruct i; reflexivity.
Qed.

Lemma reloc_low d1 dst blk p : (p < dst)%nat -> (dst <= length d1)%nat ->
  nth p (firstn dst d1 ++ blk) 0 = nth p d1 0.
Proof. intros. rewrite app_nth1 by (rewrite firstn_length; lia). apply nth_firstn'; auto. Qed.

Lemma reloc_high d1 dst src cnt p : (dst <= p)%nat -> (p < dst + cnt)%nat -> (dst <= length d1)%nat ->
  nth p (firstn dst d1 ++ firstn cnt (skipn src d1)) 0 = nth (src + (p - dst)) d1 0.
Proof.
  intros. rewrite app_nth2 by (rewrite firstn_length; lia). rewrite firstn_length, Nat.min_l by lia.
  rewrite nth_firstn' by lia. apply nth_skipn'.
Qed.

(* where the data lies when the write index is physically below the replay index *)
Lemma layout_wrapped c : Inv c -> i_in c < i_rep c ->
  (i_rep c <= i_out c /\ i_out c + used c = i_in c + (size c + 1)) \/
  (i_out c < i_rep c /\ i_out c + used c = i_in c).
Proof.
  intros H Hlt. inv_destruct H. assert (Hm : 0 < size c + 1) by olia.
  revert Heq Hrp. mod2 Hm.
Qed.

Lemma layout_flat c : Inv c -> i_rep c <= i_in c -> i_rep c <= i_out c /\ i_out c + used c = i_in c.
Proof.
  intros H Hlt. inv_destruct H. assert (Hm : 0 < size c + 1) by olia.
  revert Heq Hrp. mod2 Hm.
Qed.

Lemma grow_spec c n : Inv c ->
  Inv (fst (grow c n)) /\ abs (fst (grow c n)) = abs c /\ size (fst (grow c n)) = size c + snd (grow c n) /\
  used (fst (grow c n)) = used c /\ overwrite (fst (grow c n)) = overwrite c /\
  maxsize (fst (grow c n)) = maxsize c /\ minsize (fst (grow c n)) = minsize c /\
  (size (fst (grow c n)) = maxsize c \/ size c + n < size (fst (grow c n))).
Proof.
  intros H. unfold grow.
  destruct (size c =? maxsize c) eqn:Emax.
  { apply N.eqb_eq in Emax. cbn [fst snd]. split; [auto|]. repeat split; auto; lia. }
  apply N.eqb_neq in Emax.
  pose proof (layout_wrapped c H) as LW. pose proof (layout_flat c H) as LF.
  pose proof H as H'. inv_destruct H'. clear Heq Hrp.
  set (m0 := size c + 1 + n).
  set (m1 := m0 + (CBUF_CHUNK - m0 mod CBUF_CHUNK)).
  assert (Hm1 : m0 < m1) by (unfold m1, CBUF_CHUNK; lia).
  set (size' := N.min m1 (maxsize c + 1) - 1).
  assert (Hs1 : size c < size') by (unfold size', m0 in *; lia).
  assert (Hs2 : size' <= maxsize c) by (unfold size'; lia).
  assert (Hs3 : size' = maxsize c \/ size c + n < size') by (unfold size', m0 in *; lia).
  clearbody size'. clear Hm1. clearbody m1. clear m1 m0.
  set (d1 := data c ++ repeat 0 (N.to_nat (size' - size c))).
  assert (Hd1 : length d1 = N.to_nat (size' + 1)) by (unfold d1; rewrite app_length, repeat_length; lia).
  assert (Gd1 : forall p, p <= size c -> getb d1 p = getb (data c) p).
  { intros p Hp. unfold d1. apply getb_app_l. lia. }
  clearbody d1.
  assert (Hm : 0 < size c + 1) by lia. assert (Hm' : 0 < size' + 1) by lia.
  destruct (i_in c <? i_rep c) eqn:Erel; [apply N.ltb_lt in Erel|apply N.ltb_ge in Erel]; cbn [fst snd].
  - (* relocation *)
    specialize (LW Erel). clear LF.
    set (cnt := size c + 1 - i_rep c). set (dst := size' + 1 - cnt).
    assert (Ecnt : cnt = size c + 1 - i_rep c) by reflexivity.
    assert (Edst : dst = i_rep c + (size' - size c)) by (unfold dst, cnt; lia).
    assert (Esh : dst - i_rep c = size' - size c) by lia. rewrite Esh.
    set (d2 := firstn (N.to_nat dst) d1 ++ firstn (N.to_nat cnt) (skipn (N.to_nat (i_rep c)) d1)).
    assert (Hd2 : length d2 = N.to_nat (size' + 1)).
    { unfold d2. rewrite app_length, !firstn_length, skipn_length. lia. }
    assert (Glow : forall p, p < dst -> p <= size c -> getb d2 p = getb (data c) p).
    { intros p Hp Hp'. rewrite <- Gd1 by auto. unfold d2, getb. apply reloc_low; lia. }
    assert (Ghigh : forall p, dst <= p -> p <= size' -> getb d2 p = getb (data c) (p - (size' - size c))).
    { intros p Hp Hp'. rewrite <- Gd1 by lia. unfold d2, getb. rewrite reloc_high by lia. f_equal. lia. }
    clearbody d2. clearbody cnt dst.
    split; [|split; [|cbf; repeat split; auto; lia]].
    + (* Inv *)
      unfold Inv. cbf.
      assert (R1 : i_in c = ((if i_rep c <=? i_out c then i_out c + (size' - size c) else i_out c) + used c) mod (size' + 1)).
      { destruct (i_rep c <=? i_out c) eqn:Eo; [apply N.leb_le in Eo|apply N.leb_gt in Eo]; mod2 Hm'. }
      assert (R2 : used c + ((if i_rep c <=? i_out c then i_out c + (size' - size c) else i_out c) + (size' + 1) - dst) mod (size' + 1) <= size').
      { destruct (i_rep c <=? i_out c) eqn:Eo; [apply N.leb_le in Eo|apply N.leb_gt in Eo]; mod2 Hm'. }
      destruct (i_rep c <=? i_out c) eqn:Eo; [apply N.leb_le in Eo|apply N.leb_gt in Eo];
      hide_mod Hm'; repeat split; auto; try lia.
    + (* abs *)
      unfold abs, M. cbf. apply get_ring_ext; auto; try lia.
      { destruct (i_rep c <=? i_out c); lia. }
      intros j Hj.
      destruct (i_rep c <=? i_out c) eqn:Eo; [apply N.leb_le in Eo|apply N.leb_gt in Eo].
      * rewrite (mod_lt2 _ (size c + 1)) by lia. rewrite (mod_lt2 _ (size' + 1)) by lia.
        destruct (i_out c + N.of_nat j <? size c + 1) eqn:E1; [apply N.ltb_lt in E1|apply N.ltb_ge in E1].
        -- assert (E2 : (i_out c + (size' - size c) + N.of_nat j <? size' + 1) = true) by (apply N.ltb_lt; lia).
           rewrite E2. rewrite Ghigh by lia. f_equal. lia.
        -- assert (E2 : (i_out c + (size' - size c) + N.of_nat j <? size' + 1) = false) by (apply N.ltb_ge; lia).
           rewrite E2. rewrite Glow by lia. f_equal. lia.
      * rewrite !N.mod_small by lia. apply Glow; lia.
  - (* no relocation *)
    specialize (LF Erel). clear LW. destruct LF as [LF1 LF2].
    split; [|split; [|cbf; repeat split; auto; lia]].
    + unfold Inv. cbf.
      assert (R1 : i_in c = (i_out c + used c) mod (size' + 1)) by (rewrite N.mod_small by lia; lia).
      assert (R2 : used c + (i_out c + (size' + 1) - i_rep c) mod (size' + 1) <= size') by (mod2 Hm').
      hide_mod Hm'. repeat split; auto; try lia.
    + unfold abs, M. cbf. apply get_ring_ext; auto; try lia.
      intros j Hj. rewrite !N.mod_small by lia. apply Gd1. lia.
Qed.

(* ---- writer_prep ---- *)
Definition eff_len (o : ovw) (len size1 used0 : N) : option N :=
  match o with
  | NO_DROP => let l := N.min len (size1 - used0) in if l =? 0 then None else Some l
  | WRAP_ONCE => Some (N.min len size1)
  | WRAP_MANY => Some len
  end.

Lemma writer_prep_spec c len c1 nfree ol : Inv c -> writer_prep c len = (c1, nfree, ol) ->
  Inv c1 /\ abs c1 = abs c /\ used c1 = used c /\ overwrite c1 = overwrite c /\ maxsize c1 = maxsize c /\
  nfree = size c1 - used c1 /\ size c <= size c1 /\
  (size c1 = maxsize c \/ used c + len <= size c1) /\
  ol = eff_len (overwrite c) len (size c1) (used c).
Proof.
  intros H. unfold writer_prep.
  assert (P : forall c1 nfree, 
    Inv c1 /\ abs c1 = abs c /\ used c1 = used c /\ overwrite c1 = overwrite c /\ maxsize c1 = maxsize c /\
    nfree = size c1 - used c1 /\ size c <= size c1 /\ (size c1 = maxsize c \/ used c + len <= size c1) ->
    forall c1' nfree' ol,
    match overwrite c1 with
    | NO_DROP => let l := N.min len (size c1 - used c1) in (c1, nfree, if l =? 0 then None else Some l)
    | WRAP_ONCE => (c1, nfree, Some (N.min len (size c1)))
    | WRAP_MANY => (c1, nfree, Some len)
    end = (c1', nfree', ol) ->
    Inv c1' /\ abs c1' = abs c /\ used c1' = used c /\ overwrite c1' = overwrite c /\ maxsize c1' = maxsize c /\
    nfree' = size c1' - used c1' /\ size c <= size c1' /\ (size c1' = maxsize c \/ used c + len <= size c1') /\
    ol = eff_len (overwrite c) len (size c1') (used c)).
  { clear c1 nfree ol. intros c1 nfree (A1 & A2 & A3 & A4 & A5 & A6 & A7 & A8) c1' nfree' ol.
    rewrite A4, A3. unfold eff_len.
    destruct (overwrite c); cbv zeta; intros E; injection E as <- <- <-; csplit; auto. }
  pose proof H as H'. inv_destruct H'. clear Heq Hrp.
  destruct ((size c - used c <? len) && (size c <? maxsize c)) eqn:Eg.
  - destruct (grow c (len - (size c - used c))) as [c' g] eqn:Egr.
    pose proof (grow_spec c (len - (size c - used c)) H) as G. rewrite Egr in G. cbn [fst snd] in G.
    destruct G as (G1 & G2 & G3 & G4 & G5 & G6 & G7 & G8).
    apply P. csplit; auto; try lia.
  - apply P. csplit; auto; try lia.
Qed.

Definition wr_result (c1 : cbuf) (bs : bytes) (ol : option N) : cbuf * wres :=
  match ol with
  | None => (c1, WErr)
  | Some l => (commit_write c1 (put_ring (data c1) (M c1) (i_in c1) (firstn (N.to_nat l) bs)) l (size c1 - used c1),
               WOk l (l - (size c1 - used c1)))
  end.

Lemma write_cases c bs : Inv c ->
  (bs = [] /\ write c bs = (c, WOk 0 0)) \/
  (bs <> [] /\ exists c1,
     Inv c1 /\ abs c1 = abs c /\ used c1 = used c /\ overwrite c1 = overwrite c /\ maxsize c1 = maxsize c /\
     size c <= size c1 /\ (size c1 = maxsize c \/ used c + N.of_nat (length bs) <= size c1) /\
     write c bs = wr_result c1 bs (eff_len (overwrite c) (N.of_nat (length bs)) (size c1) (used c))).
Proof.
  intros H. unfold write. destruct bs as [|b r] eqn:Ebs; [left; auto|]. rewrite <- Ebs. right.
  split; [subst; discriminate|].
  assert (E0 : (N.of_nat (length bs) =? 0) = false) by (apply N.eqb_neq; subst; cbn [length]; lia).
  rewrite E0. clear Ebs.
  destruct (writer_prep c (N.of_nat (length bs))) as [[c1 nfree] ol] eqn:Ep.
  apply writer_prep_spec in Ep; auto. destruct Ep as (A1 & A2 & A3 & A4 & A5 & A6 & A7 & A8 & A9).
  exists c1. csplit; auto. rewrite <- A9. unfold wr_result. destruct ol as [l|]; auto.
  pose proof A1 as A1'. inv_destruct A1'. unfold M.
  rewrite put_ring_fast_eq by olia. subst nfree. reflexivity.
Qed.

Lemma eff_len_le o len s u l : eff_len o len s u = Some l -> l <= len /\ (0 < len -> 0 < s -> 0 < l).
Proof.
  unfold eff_len. destruct o; cbv zeta.
  - destruct (N.min len (s - u) =? 0) eqn:E; [discriminate|]. apply N.eqb_neq in E. intros [= <-]. lia.
  - intros [= <-]. lia.
  - intros [= <-]. lia.
Qed.

Lemma wr_result_ok c1 bs l : Inv c1 -> l <= N.of_nat (length bs) ->
  let c' := fst (wr_result c1 bs (Some l)) in
  Inv c' /\ size c' = size c1 /\ maxsize c' = maxsize c1 /\
  abs c' = lastn (N.to_nat (size c1)) (abs c1 ++ firstn (N.to_nat l) bs).
Proof.
  intros H Hl. unfold wr_result. cbn [fst].
  assert (El : l = N.of_nat (length (firstn (N.to_nat l) bs))) by (rewrite firstn_length; lia).
  csplit; try reflexivity.
  - apply commit_write_inv; auto. apply put_ring_length.
  - set (bs' := firstn (N.to_nat l) bs) in *. clearbody bs'. rewrite El. apply commit_write_abs; auto.
Qed.

Lemma inv_write c bs : Inv c -> Inv (fst (write c bs)).
Proof.
  intros H. destruct (write_cases c bs H) as [[_ E]|(_ & c1 & A1 & A2 & A3 & A4 & A5 & A6 & A7 & E)]; rewrite E; auto.
  destruct (eff_len _ _ _ _) as [l|] eqn:El; [|exact A1].
  apply eff_len_le in El. apply wr_result_ok; auto. lia.
Qed.

Lemma write_refines c bs c' n nd : Inv c -> write c bs = (c', WOk n nd) ->
  abs c' = lastn (N.to_nat (size c')) (abs c ++ firstn (N.to_nat n) bs) /\
  nd = used c + n - size c' /\ n <= N.of_nat (length bs) /\
  (overwrite c = WRAP_MANY -> n = N.of_nat (length bs)) /\
  (overwrite c = NO_DROP -> nd = 0 /\ n = N.min (N.of_nat (length bs)) (size c' - used c)) /\
  (overwrite c = WRAP_ONCE -> n = N.min (N.of_nat (length bs)) (size c')).
Proof.
  intros H. pose proof H as H'. inv_destruct H'. clear Heq Hrp.
  destruct (write_cases c bs H) as [[E0 E]|(_ & c1 & A1 & A2 & A3 & A4 & A5 & A6 & A7 & E)]; rewrite E.
  - intros [= <- <- <-]. subst bs. cbn [firstn N.to_nat length N.of_nat]. rewrite app_nil_r.
    rewrite lastn_all by (rewrite abs_length; lia). csplit; auto; lia.
  - destruct (eff_len _ _ _ _) as [l|] eqn:El; [|discriminate].
    pose proof (eff_len_le _ _ _ _ _ El) as [Hl _].
    pose proof (wr_result_ok c1 bs l A1 Hl) as (W1 & W2 & W3 & W4).
    unfold wr_result in *. cbn [fst] in *. intros [= <- <- <-].
    rewrite W2, W4, A2, A3. pose proof A1 as A1'. inv_destruct A1'. clear Heq Hrp.
    unfold eff_len in El.
    split; [reflexivity|]. split; [lia|]. split; [lia|].
    destruct (overwrite c); cbv zeta in El.
    + destruct (N.min (N.of_nat (length bs)) (size c1 - used c) =? 0); [discriminate|]. injection El as <-.
      csplit; try discriminate; intros _; lia.
    + injection El as <-. csplit; try discriminate; intros _; lia.
    + injection El as <-. csplit; try discriminate; intros _; lia.
Qed.

Lemma write_refused c bs c' : Inv c -> write c bs = (c', WErr) ->
  abs c' = abs c /\ overwrite c = NO_DROP /\ used c' = size c' /\ bs <> [].
Proof.
  intros H. pose proof H as H'. inv_destruct H'. clear Heq Hrp.
  destruct (write_cases c bs H) as [[E0 E]|(Hne & c1 & A1 & A2 & A3 & A4 & A5 & A6 & A7 & E)]; rewrite E.
  - discriminate.
  - destruct (eff_len _ _ _ _) as [l|] eqn:El; unfold wr_result; [discriminate|]. intros [= <-].
    unfold eff_len in El. destruct (overwrite c); cbv zeta in El; try discriminate.
    destruct (N.min (N.of_nat (length bs)) (size c1 - used c) =? 0) eqn:E0; [|discriminate].
    apply N.eqb_eq in E0. pose proof A1 as A1'. inv_destruct A1'. clear Heq Hrp.
    assert (0 < N.of_nat (length bs)) by (destruct bs; [congruence|cbn [length]; lia]).
    csplit; auto. lia.
Qed.

Lemma write_drop_only_at_max c bs c' n nd : Inv c -> write c bs = (c', WOk n nd) -> 0 < nd -> size c' = maxsize c.
Proof.
  intros H. pose proof H as H'. inv_destruct H'. clear Heq Hrp.
  destruct (write_cases c bs H) as [[E0 E]|(_ & c1 & A1 & A2 & A3 & A4 & A5 & A6 & A7 & E)]; rewrite E.
  - intros [= <- <- <-]. lia.
  - destruct (eff_len _ _ _ _) as [l|] eqn:El; [|discriminate].
    pose proof (eff_len_le _ _ _ _ _ El) as [Hl _].
    unfold wr_result. intros [= <- <- <-] Hnd. unfold commit_write. cbf. lia.
Qed.
