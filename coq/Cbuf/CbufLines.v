(* C13 proofs, part 4: line operations. *)
From PV Require Import Cbuf.CbufDefs Cbuf.CbufSpec Cbuf.CbufRing Cbuf.CbufInv.
Local Open Scope N_scope.

Ltac tup := repeat match goal with |- (_, _) = (_, _) => apply f_equal2 end; try reflexivity; try lia.

Lemma count_nl_cons b f : count_nl (b :: f) = (if b =? 10 then 1 else 0) + count_nl f.
Proof.
  unfold count_nl. cbn [filter]. rewrite (N.eqb_sym 10 b). destruct (b =? 10); cbn [length]; lia.
Qed.
Lemma count_nl_nil : count_nl [] = 0.
Proof. reflexivity. Qed.

Lemma whole_lines_nil ch : whole_lines [] ch = O.
Proof. destruct ch; reflexivity. Qed.

Lemma whole_lines_0 f : whole_lines f 0 = O.
Proof. destruct f; reflexivity. Qed.

Lemma whole_lines_le f : forall ch, (whole_lines f ch <= length f)%nat.
Proof.
  induction f as [|b r IH]; intros ch; [rewrite whole_lines_nil; cbn; lia|].
  destruct ch as [|ch]; cbn [whole_lines length]; [lia|].
  specialize (IH ch). destruct (b =? 10); [lia|]. destruct (whole_lines r ch); lia.
Qed.

Lemma lines_prefix_0 f : lines_prefix f 0 = Some O.
Proof. destruct f; reflexivity. Qed.

Lemma lines_prefix_le f : forall k p, lines_prefix f k = Some p -> (p <= length f)%nat.
Proof.
  induction f as [|b r IH]; intros [|k] p; cbn [lines_prefix length]; try (intros [= <-]; lia); try discriminate.
  destruct (lines_prefix r (if b =? 10 then k else S k)) as [q|] eqn:E; [|discriminate].
  intros [= <-]. apply IH in E. lia.
Qed.

(* ---- ful_loop with a character budget (lines < 0) ---- *)
Lemma ful_chars bs : forall n mm l ch lines, (lines < 0)%Z ->
  ful_loop bs n mm l (Z.of_nat (S ch)) lines =
  ((if (whole_lines bs (S ch) =? 0)%nat then mm else n + N.of_nat (whole_lines bs (S ch))),
   l + count_nl (firstn (S ch) bs), lines).
Proof.
  induction bs as [|b r IH]; intros n mm l ch lines Hl.
  - cbn [ful_loop whole_lines firstn Nat.eqb]. rewrite count_nl_nil, N.add_0_r. reflexivity.
  - cbn [ful_loop].
    assert (E1 : (0 <? Z.of_nat (S ch))%Z = true) by lia. rewrite E1.
    assert (E2 : (0 <? lines)%Z = false) by lia. rewrite E2, andb_false_r.
    assert (E3 : (lines =? 0)%Z = false) by lia. rewrite E3, orb_false_r.
    replace (Z.of_nat (S ch) - 1)%Z with (Z.of_nat ch) by lia.
    cbn [firstn]. rewrite count_nl_cons.
    destruct ch as [|ch].
    + cbn [Z.of_nat Z.eqb whole_lines firstn]. rewrite count_nl_nil.
      rewrite whole_lines_0. destruct (b =? 10); cbn [Nat.eqb]; tup.
    + assert (E4 : (Z.of_nat (S ch) =? 0)%Z = false) by lia. rewrite E4.
      rewrite IH by auto.
      change (whole_lines (b :: r) (S (S ch))) with
        (if b =? 10 then S (whole_lines r (S ch)) else match whole_lines r (S ch) with O => O | _ => S (whole_lines r (S ch)) end).
      destruct (b =? 10); destruct (whole_lines r (S ch)) as [|w]; cbn [Nat.eqb]; tup.
Qed.

(* ---- ful_loop with a line count (no character budget) ---- *)
Lemma ful_lines bs : forall n mm l chars k, (chars < 0)%Z ->
  match lines_prefix bs (S k) with
  | Some p => ful_loop bs n mm l chars (Z.of_nat (S k)) = (n + N.of_nat p, l + N.of_nat (S k), 0%Z) /\ (0 < p)%nat
  | None => (0 <? snd (ful_loop bs n mm l chars (Z.of_nat (S k))))%Z = true
  end.
Proof.
  induction bs as [|b r IH]; intros n mm l chars k Hc.
  - cbn [lines_prefix ful_loop snd]. lia.
  - cbn [lines_prefix ful_loop].
    assert (E1 : (0 <? chars)%Z = false) by lia. rewrite E1.
    assert (E2 : (chars =? 0)%Z = false) by lia. rewrite E2, orb_false_l.
    assert (E3 : (0 <? Z.of_nat (S k))%Z = true) by lia. rewrite E3, andb_true_r.
    destruct (b =? 10) eqn:Eb.
    + replace (Z.of_nat (S k) - 1)%Z with (Z.of_nat k) by lia.
      destruct k as [|k].
      * rewrite lines_prefix_0. cbn [Z.of_nat Z.eqb]. split; [|lia]. tup.
      * assert (E4 : (Z.of_nat (S k) =? 0)%Z = false) by lia. rewrite E4.
        specialize (IH (n + 1) (n + 1) (l + 1) chars k Hc).
        destruct (lines_prefix r (S k)) as [p|]; [|exact IH].
        destruct IH as [IH _]. rewrite IH. split; [|lia]. tup.
    + assert (E4 : (Z.of_nat (S k) =? 0)%Z = false) by lia. rewrite E4.
      specialize (IH (n + 1) mm l chars k Hc).
      destruct (lines_prefix r (S k)) as [p|]; [|exact IH].
      destruct IH as [IH _]. rewrite IH. split; [|lia]. tup.
Qed.

(* ---- the position returned never exceeds what was scanned ---- *)
Lemma ful_bound bs : forall n mm l chars lines, mm <= n ->
  fst (fst (ful_loop bs n mm l chars lines)) <= n + N.of_nat (length bs).
Proof.
  induction bs as [|b r IH]; intros n mm l chars lines H; cbn [ful_loop length fst].
  - lia.
  - match goal with |- context [if ?c then _ else _] =>
      match c with (_ || _)%bool => destruct c end end.
    + cbn [fst]. destruct (b =? 10); lia.
    + etransitivity; [apply IH|lia]. destruct (b =? 10); lia.
Qed.

(* ---- find_unread_line over the abstraction ---- *)
Definition ful_spec (f : bytes) (chars lines : Z) : N * N :=
  if ((lines =? 0)%Z || ((lines <=? -1)%Z && (chars <=? 0)%Z))%bool then (0, 0)
  else if (length f =? 0)%nat then (0, 0)
  else
    let chars' := if (0 <? lines)%Z then (-1)%Z else chars in
    let '(mm, l, lines') := ful_loop f 0 0 0 chars' lines in
    if (0 <? lines')%Z then (0, 0) else (mm, l).

Lemma ful_abs c chars lines : Inv c -> find_unread_line c chars lines = ful_spec (abs c) chars lines.
Proof.
  intros H. inv_destruct H. unfold find_unread_line, ful_spec.
  rewrite abs_length. unfold M. rewrite get_ring_fast_eq by olia.
  replace (N.to_nat (used c) =? 0)%nat with (used c =? 0); [reflexivity|].
  destruct (used c =? 0) eqn:E; [apply N.eqb_eq in E|apply N.eqb_neq in E]; symmetry.
  - apply Nat.eqb_eq. lia.
  - apply Nat.eqb_neq. lia.
Qed.

Lemma ful_spec_le f chars lines : fst (ful_spec f chars lines) <= N.of_nat (length f).
Proof.
  unfold ful_spec. destruct (_ || _)%bool; [cbn [fst]; lia|].
  destruct (length f =? 0)%nat; [cbn [fst]; lia|]. cbv zeta.
  pose proof (ful_bound f 0 0 0 (if (0 <? lines)%Z then (-1)%Z else chars) lines) as B.
  destruct (ful_loop f 0 0 0 _ lines) as [[mm l] lines']. cbn [fst] in B.
  destruct (0 <? lines')%Z; cbn [fst]; lia.
Qed.

Lemma lines_used_refines c : Inv c -> lines_used c = count_nl (abs c).
Proof.
  intros H. unfold lines_used. rewrite ful_abs by auto. pose proof (abs_length c) as L.
  inv_destruct H. clear Heq Hrp. unfold ful_spec.
  assert (E1 : ((-1 =? 0)%Z || ((-1 <=? -1)%Z && (Z.of_N (size c) <=? 0)%Z))%bool = false).
  { cbn [Z.eqb orb]. apply andb_false_iff. right. lia. }
  rewrite E1. destruct (abs c) as [|b r] eqn:Ea; [reflexivity|]. rewrite <- Ea in *.
  assert (E2 : (length (abs c) =? 0)%nat = false) by (apply Nat.eqb_neq; rewrite Ea; cbn [length]; lia).
  rewrite E2. cbv zeta. change (0 <? -1)%Z with false. cbv iota.
  replace (Z.of_N (size c)) with (Z.of_nat (S (N.to_nat (size c) - 1))) by lia.
  rewrite ful_chars by lia. change (0 <? -1)%Z with false. cbv iota. cbn [snd].
  rewrite firstn_all2 by lia. lia.
Qed.

(* ---- read_line ---- *)
Lemma consume_alt c n : (if 0 <? n then dropper c n else c) = consume c n.
Proof. unfold consume. destruct n; reflexivity. Qed.

Lemma read_line_shape c len lines :
  read_line c len lines =
  let n := if (lines =? 0)%Z then 0 else fst (find_unread_line c (Z.of_N len - 1) lines) in
  (consume c n, n, if ((0 <? n) && (0 <? len))%bool then Some (reader c (N.min n (len - 1))) else None).
Proof.
  unfold read_line, peek_line. destruct (lines =? 0)%Z; [reflexivity|]. cbv zeta.
  destruct (find_unread_line c (Z.of_N len - 1) lines) as [n x]. cbn [fst].
  destruct ((0 <? n) && (0 <? len))%bool; rewrite consume_alt; reflexivity.
Qed.

Lemma inv_read_line c len lines : Inv c -> Inv (fst (fst (read_line c len lines))).
Proof.
  intros H. rewrite read_line_shape. cbv zeta. cbn [fst]. apply consume_inv; auto.
  destruct (lines =? 0)%Z; [lia|]. rewrite ful_abs by auto.
  pose proof (ful_spec_le (abs c) (Z.of_N len - 1) lines). rewrite abs_length in *. lia.
Qed.

Lemma read_line_max_refines c len : Inv c ->
  let n := whole_lines (abs c) (N.to_nat (len - 1)) in
  snd (fst (read_line c len (-1))) = N.of_nat n /\ abs (fst (fst (read_line c len (-1)))) = skipn n (abs c).
Proof.
  intros H n. rewrite read_line_shape. cbv zeta. cbn [fst snd]. change (-1 =? 0)%Z with false. cbv iota.
  rewrite ful_abs by auto.
  assert (E : fst (ful_spec (abs c) (Z.of_N len - 1) (-1)) = N.of_nat n).
  { unfold ful_spec. change (-1 =? 0)%Z with false. change (-1 <=? -1)%Z with true. cbn [orb andb].
    destruct (Z.of_N len - 1 <=? 0)%Z eqn:E1.
    - unfold n. replace (N.to_nat (len - 1)) with O by lia. destruct (abs c); reflexivity.
    - destruct (length (abs c) =? 0)%nat eqn:E2.
      + apply Nat.eqb_eq in E2. unfold n. destruct (abs c); [|discriminate]. rewrite whole_lines_nil. reflexivity.
      + cbv zeta. change (0 <? -1)%Z with false. cbv iota.
        replace (Z.of_N len - 1)%Z with (Z.of_nat (S (N.to_nat (len - 1) - 1))) by lia.
        rewrite ful_chars by lia. change (0 <? -1)%Z with false. cbv iota. cbn [fst].
        replace (S (N.to_nat (len - 1) - 1)) with (N.to_nat (len - 1)) by lia. fold n.
        destruct (n =? 0)%nat eqn:E3; [apply Nat.eqb_eq in E3|]; lia. }
  rewrite E. split; [reflexivity|].
  rewrite consume_abs; auto.
  - f_equal. lia.
  - pose proof (whole_lines_le (abs c) (N.to_nat (len - 1))). fold n in H0. rewrite abs_length in H0. lia.
Qed.

Lemma read_line_refines c len k : Inv c -> (0 < k)%Z ->
  match lines_prefix (abs c) (Z.to_nat k) with
  | Some n => read_line c len k =
                (fst (fst (read_line c len k)), N.of_nat n,
                 if 0 <? len then Some (firstn (Nat.min n (N.to_nat (len - 1))) (abs c)) else None) /\
              abs (fst (fst (read_line c len k))) = skipn n (abs c)
  | None => read_line c len k = (c, 0, None)
  end.
Proof.
  intros H Hk. rewrite read_line_shape. cbv zeta. cbn [fst].
  assert (E0 : (k =? 0)%Z = false) by lia. rewrite E0.
  rewrite ful_abs by auto.
  replace (Z.to_nat k) with (S (Z.to_nat k - 1)) by lia.
  assert (E : match lines_prefix (abs c) (S (Z.to_nat k - 1)) with
              | Some p => fst (ful_spec (abs c) (Z.of_N len - 1) k) = N.of_nat p /\ (0 < p)%nat
              | None => fst (ful_spec (abs c) (Z.of_N len - 1) k) = 0
              end).
  { unfold ful_spec. rewrite E0. assert (E1 : (k <=? -1)%Z = false) by lia. rewrite E1. cbn [orb andb].
    destruct (length (abs c) =? 0)%nat eqn:E2.
    - apply Nat.eqb_eq in E2. destruct (abs c); [|discriminate]. reflexivity.
    - cbv zeta. assert (E3 : (0 <? k)%Z = true) by lia. rewrite E3.
      pose proof (ful_lines (abs c) 0 0 0 (-1)%Z (Z.to_nat k - 1)) as L.
      replace (Z.of_nat (S (Z.to_nat k - 1))) with k in L by lia.
      destruct (lines_prefix (abs c) (S (Z.to_nat k - 1))) as [p|].
      + destruct L as [L Hp]; [lia|]. rewrite L. cbn [Z.ltb Z.compare fst]. split; [lia|auto].
      + specialize (L ltac:(lia)). destruct (ful_loop (abs c) 0 0 0 (-1)%Z k) as [[mm l] lines']. cbn [snd] in L.
        rewrite L. reflexivity. }
  destruct (lines_prefix (abs c) (S (Z.to_nat k - 1))) as [p|] eqn:Ep.
  - destruct E as [E Hp]. rewrite E.
    assert (E4 : (0 <? N.of_nat p) = true) by (apply N.ltb_lt; lia). rewrite E4. cbn [andb].
    split.
    + f_equal. destruct (0 <? len); [|reflexivity]. f_equal. rewrite reader_eq by auto. f_equal. lia.
    + apply lines_prefix_le in Ep. rewrite abs_length in Ep.
      rewrite consume_abs by (auto; lia). f_equal. lia.
  - rewrite E. reflexivity.
Qed.
