(* C13 proofs, part 5: writes from a descriptor. *)
From PV Require Import Cbuf.CbufDefs Cbuf.CbufSpec Cbuf.CbufRing Cbuf.CbufInv Cbuf.CbufWrite.
Local Open Scope N_scope.

(* same text as in Props/Properties_C13.v (convertible with it) *)
Fixpoint script_bytes (s : list fdev) : bytes :=
  match s with [] => [] | Avail b :: r => b ++ script_bytes r | _ :: r => script_bytes r end.

Lemma fd_read_some s n got s' : fd_read s n = (Some got, s') ->
  script_bytes s = got ++ script_bytes s' /\ N.of_nat (length got) <= n.
Proof.
  destruct s as [|[bs| |] r]; cbn [fd_read].
  - intros [= <- <-]. cbn [length]. split; [reflexivity|lia].
  - intros [= <- <-]. split; [|rewrite firstn_length; lia].
    cbn [script_bytes].
    pose proof (firstn_skipn (N.to_nat n) bs) as F.
    set (a := firstn (N.to_nat n) bs) in *. set (b := skipn (N.to_nat n) bs) in *. clearbody a b. subst bs.
    destruct b; cbn [script_bytes]; rewrite <- ?app_assoc, ?app_nil_r; reflexivity.
  - intros [= <- <-]. cbn [length]. split; [reflexivity|lia].
  - discriminate.
Qed.

Lemma fd_read_none s n s' : fd_read s n = (None, s') -> script_bytes s = script_bytes s'.
Proof.
  destruct s as [|[bs| |] r]; cbn [fd_read]; try discriminate.
  intros [= <-]. reflexivity.
Qed.

Lemma fd_loop_spec fuel : forall d m i nleft s last d' nleft' s' last',
  0 < m -> i < m -> length d = N.to_nat m ->
  fd_loop fuel d m i nleft s last = (d', nleft', s', last') ->
  exists delivered, script_bytes s = delivered ++ script_bytes s' /\ nleft' <= nleft /\
    N.of_nat (length delivered) = nleft - nleft' /\ d' = put_ring d m i delivered.
Proof.
  induction fuel as [|f IH]; intros d m i nleft s last d' nleft' s' last' Hm Hi Hd; cbn [fd_loop].
  - intros [= <- <- <- <-]. exists []. cbn [app length put_ring]. csplit; auto; lia.
  - destruct (nleft =? 0) eqn:E0.
    + intros [= <- <- <- <-]. exists []. cbn [app length put_ring]. csplit; auto; lia.
    + destruct (fd_read s (N.min nleft (m - i))) as [[got|] s1] eqn:Er.
      * apply fd_read_some in Er as [Er1 Er2].
        rewrite put_ring_fast_eq by auto.
        destruct (N.of_nat (length got) =? N.min nleft (m - i)) eqn:Ek.
        -- intros E. apply IH in E; auto.
           ++ destruct E as (dl & E1 & E2 & E3 & E4). exists (got ++ dl). csplit.
              ** rewrite Er1, E1, app_assoc. reflexivity.
              ** lia.
              ** rewrite app_length. lia.
              ** rewrite put_ring_app by auto. exact E4.
           ++ apply mod_lt; auto.
           ++ rewrite put_ring_length; auto.
        -- intros [= <- <- <- <-]. exists got. csplit; auto; lia.
      * apply fd_read_none in Er. intros [= <- <- <- <-]. exists []. cbn [app length put_ring]. csplit; auto; lia.
Qed.

Lemma set_data_same c : set_data c (data c) = c.
Proof. destruct c; reflexivity. Qed.

Definition fd_len0 (c : cbuf) (len : option N) : N :=
  match len with
  | Some l => l
  | None => let f := size c - used c in if f =? 0 then N.min (size c) CBUF_CHUNK else f
  end.

Lemma write_from_fd_shape c s len : Inv c ->
  write_from_fd c s len = (c, s, WOk 0 0) \/
  exists c1, Inv c1 /\ abs c1 = abs c /\ used c1 = used c /\
    (write_from_fd c s len = (c1, s, WErr) \/
     (exists s' r, script_bytes s = script_bytes s' /\ write_from_fd c s len = (c1, s', r) /\ (r = WErr \/ r = WEof)) \/
     (exists delivered s', script_bytes s = delivered ++ script_bytes s' /\
       write_from_fd c s len =
         (commit_write c1 (put_ring (data c1) (M c1) (i_in c1) delivered) (N.of_nat (length delivered)) (size c1 - used c1),
          s', WOk (N.of_nat (length delivered)) (N.of_nat (length delivered) - (size c1 - used c1))))).
Proof.
  intros H. unfold write_from_fd. fold (fd_len0 c len).
  destruct (fd_len0 c len =? 0) eqn:E0; [left; reflexivity|right].
  destruct (writer_prep c (fd_len0 c len)) as [[c1 nfree] ol] eqn:Ep.
  apply writer_prep_spec in Ep; auto. destruct Ep as (A1 & A2 & A3 & A4 & A5 & A6 & A7 & A8 & A9).
  exists c1. csplit; auto. clear A9.
  destruct ol as [l|]; [|left; reflexivity]. right.
  destruct (fd_loop _ _ _ _ _ _ _) as [[[d nleft] s'] last] eqn:El.
  pose proof A1 as A1'. inv_destruct A1'. clear Heq Hrp.
  apply fd_loop_spec in El; unfold M; try lia.
  destruct El as (dl & E1 & E2 & E3 & E4).
  destruct (l - nleft =? 0) eqn:En; [apply N.eqb_eq in En|apply N.eqb_neq in En].
  - left. assert (dl = []) by (destruct dl; [auto|cbn [length] in E3; lia]). subst dl.
    cbn [put_ring] in E4. subst d. rewrite set_data_same. cbn [app] in E1.
    exists s'. eexists. csplit; [exact E1|reflexivity|]. destruct (last <? 0)%Z; auto.
  - right. exists dl, s'. csplit; auto. subst d nfree. rewrite E3. reflexivity.
Qed.

Lemma inv_write_from_fd c s len : Inv c -> Inv (fst (fst (write_from_fd c s len))).
Proof.
  intros H. destruct (write_from_fd_shape c s len H) as [E|(c1 & A1 & A2 & A3 & [E|[(s' & r & _ & E & _)|(dl & s' & _ & E)]])];
    rewrite E; cbn [fst]; auto.
  apply commit_write_inv; auto. apply put_ring_length.
Qed.

Lemma write_from_fd_refines c s len c' s' n nd : Inv c -> write_from_fd c s len = (c', s', WOk n nd) ->
  exists delivered, script_bytes s = delivered ++ script_bytes s' /\ N.of_nat (length delivered) = n /\
    abs c' = lastn (N.to_nat (size c')) (abs c ++ delivered) /\ nd = used c + n - size c'.
Proof.
  intros H. pose proof H as H'. inv_destruct H'. clear Heq Hrp.
  destruct (write_from_fd_shape c s len H) as [E|(c1 & A1 & A2 & A3 & [E|[(s1 & r & _ & E & Hr)|(dl & s1 & E1 & E)]])];
    rewrite E.
  - intros [= <- <- <- <-]. exists []. rewrite app_nil_r. cbn [length app]. csplit; auto; try lia.
    symmetry. apply lastn_all. rewrite abs_length. lia.
  - discriminate.
  - intros [= -> -> ->]. destruct Hr; discriminate.
  - intros [= <- <- <- <-]. exists dl. csplit; auto.
    + rewrite commit_write_abs by auto. rewrite A2. reflexivity.
    + pose proof A1 as A1'. inv_destruct A1'. clear Heq Hrp. unfold commit_write. cbf. lia.
Qed.

Lemma write_from_fd_nothing c s len c' s' r : Inv c -> write_from_fd c s len = (c', s', r) ->
  (r = WErr \/ r = WEof) -> abs c' = abs c /\ script_bytes s' = script_bytes s.
Proof.
  intros H.
  destruct (write_from_fd_shape c s len H) as [E|(c1 & A1 & A2 & A3 & [E|[(s1 & r1 & E1 & E & Hr)|(dl & s1 & E1 & E)]])];
    rewrite E.
  - intros [= <- <- <-] [?|?]; discriminate.
  - intros [= <- <- <-] _. auto.
  - intros [= <- <- <-] _. auto.
  - intros [= <- <- <-] [?|?]; discriminate.
Qed.
