(* C13 proofs: invariant and refinement of the ring model to the FIFO spec.
   The development is split over
     CbufRing.v   ring arithmetic, get/put characterisation, block = byte-wise versions
     CbufInv.v    Inv, create, bounds, read/peek/drop
     CbufWrite.v  commit_write, grow, writer_prep, write
     CbufLines.v  find_unread_line, lines_used, read_line
     CbufFd.v     write_from_fd
   and re-exported here, together with write_line. *)
From PV Require Import Cbuf.CbufDefs Cbuf.CbufSpec.
From PV Require Export Cbuf.CbufRing Cbuf.CbufInv Cbuf.CbufWrite Cbuf.CbufLines Cbuf.CbufFd.
Local Open Scope N_scope.

Lemma wl_tail (p2 : cbuf * N) (has_nl : bool) (len nd0 : N) : Inv (fst p2) ->
  Inv (fst (let '(c2, d1) := p2 in
            let '(c3, d2) := if has_nl then (c2, 0)
                             else match write c2 [10] with (c', WOk _ d) => (c', d) | (c', _) => (c', 0) end in
            (c3, WOk len (nd0 + d1 + d2)))).
Proof.
  destruct p2 as [c2 d1]. cbn [fst]. intros H. destruct has_nl; cbn [fst]; auto.
  pose proof (inv_write c2 [10] H) as W. destruct (write c2 [10]) as [c' [? ?| |]]; cbn [fst] in *; auto.
Qed.

Lemma inv_write_line c str : Inv c -> Inv (fst (write_line c str)).
Proof.
  intros H. unfold write_line. cbv zeta.
  match goal with |- context [if ?b then fst (grow c ?n) else c] => set (c1 := if b then fst (grow c n) else c) end.
  assert (H1 : Inv c1). { unfold c1. destruct (_ && _)%bool; auto. apply grow_spec; auto. }
  clearbody c1.
  match goal with |- context [if ?b then (c1, WErr) else _] => destruct b end; [exact H1|].
  apply wl_tail.
  match goal with |- context [match ?s with [] => _ | _ :: _ => _ end] => destruct s eqn:Es end; [exact H1|].
  rewrite <- Es. clear Es.
  match goal with |- context [write c1 ?s] => pose proof (inv_write c1 s H1) as W; destruct (write c1 s) as [c' [? ?| |]] end;
    cbn [fst] in *; auto.
Qed.
