(* C13 proofs: invariant and refinement of the ring model to the FIFO spec. *)
From PV Require Import Cbuf.CbufDefs Cbuf.CbufSpec.
Local Open Scope N_scope.
