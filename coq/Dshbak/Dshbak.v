(* Executable model of scripts/dshbak (Perl), function by function.
   M-side only: definitions, no proofs (this file must keep running when a proof breaks).

   What is transcribed by hand and tied to the script only by the correspondence run
   (checks/C19.py): Perl's regex engine (the three patterns of the script are written out
   as matchers below, with the reasoning in the comments), Perl's hashes (association
   lists in first-insertion order; every place where the script iterates a hash in hash
   order takes the order from an oracle list, see pick_order), `sort` (byte-wise cmp) and
   the stable merge sort behind sortn, numeric conversion of digit strings (exact in N;
   entry points answer Unmodelled when a numeric part reaches 10^15, where Perl's
   numbers stop being obviously exact). *)
From PV Require Export Base.Decimal.
Local Open Scope N_scope.

Definition default {A} (d : A) (o : option A) : A := match o with Some a => a | None => d end.

(* ---------------------------------------------------------------------------------- *)
(* `while (<>)`: the input cut after every "\n"; the last piece may lack the newline     *)
Fixpoint read_lines (s : bytes) : list bytes :=
  match s with
  | [] => []
  | c :: r => if c =? 10 then [10] :: read_lines r
              else match read_lines r with
                   | [] => [[c]]
                   | l :: ls => (c :: l) :: ls
                   end
  end.

(* `$_ .= "\n" unless /\n$/;`  (an unterminated last line gets its newline) *)
Definition ends_nl (l : bytes) : bool := match rev l with 10 :: _ => true | _ => false end.
Definition terminate (l : bytes) : bytes := if ends_nl l then l else l ++ [10].

(* ---------------------------------------------------------------------------------- *)
(* m/^\s*(\S+?)\s*: ?(.*\n)$/  on one line (a string with at most one "\n", at its end).
   ^\s*     : greedy; giving back a blank makes \S+? fail at once, so all leading blanks go.
   (\S+?)   : at least one non-blank, then the SHORTEST extension such that the rest matches:
              after the tag either a ':' follows directly, or the non-blank run ends and
              blanks followed by ':' come next.  A ':' may be the first character of a tag.
   : ?      : the colon and one optional blank (0x20 only).
   (.*\n)$  : the rest up to and including the newline; `.` does not match "\n" and `$`
              accepts the very end or one final "\n".  Whether this part matches does not
              depend on where the tag was cut (every cut leaves a suffix of the line), so no
              backtracking into the tag is needed.
   \s is [\t\n\v\f\r ] on byte strings (is_space). *)
Fixpoint scan_tag (s : bytes) : option (bytes * bytes) :=
  match s with
  | [] => None
  | c :: r =>
    if c =? 58 then Some ([], r)
    else if is_space c then
      match drop_while is_space s with
      | 58 :: r' => Some ([], r')
      | _ => None
      end
    else match scan_tag r with Some (t, d) => Some (c :: t, d) | None => None end
  end.

Definition data_part (d : bytes) : option bytes :=
  let d' := match d with 32 :: d1 => d1 | _ => d end in
  match split_at 10 d' with
  | (x, Some []) => Some (x ++ [10])
  | (x, Some [10]) => Some (x ++ [10])
  | _ => None
  end.

Definition split_line (line : bytes) : option (bytes * bytes) :=
  match drop_while is_space line with
  | [] => None
  | c :: r =>
    match scan_tag r with
    | None => None
    | Some (t, d) => match data_part d with Some x => Some (c :: t, x) | None => None end
    end
  end.

(* ---------------------------------------------------------------------------------- *)
(* Perl hashes with string keys: association lists, first insertion first *)
Section AL.
  Context {V : Type}.
  Definition al := list (bytes * V).
  Fixpoint al_get (k : bytes) (h : al) : option V :=
    match h with
    | [] => None
    | (k', v) :: r => if beq k k' then Some v else al_get k r
    end.
  Fixpoint al_upd (k : bytes) (f : option V -> V) (h : al) : al :=
    match h with
    | [] => [(k, f None)]
    | (k', v) :: r => if beq k k' then (k', f (Some v)) :: r else (k', v) :: al_upd k f r
    end.
  Fixpoint al_del (k : bytes) (h : al) : al :=
    match h with
    | [] => []
    | (k', v) :: r => if beq k k' then r else (k', v) :: al_del k r
    end.
End AL.
Arguments al V : clear implicits.

(* push (@{$h{$k}}, $v) *)
Definition al_push {V} (k : bytes) (v : V) (h : al (list V)) : al (list V) :=
  al_upd k (fun o => default [] o ++ [v]) h.

(* `keys %h`: some order of the keys.  The order is an input: [oracle] is a preference list,
   keys named in it come first in its order, the others follow in insertion order.  For keys
   without repeats the result is always a permutation of them, and every permutation is
   reached (by passing it as the oracle). *)
Definition memb (k : bytes) (l : list bytes) : bool := existsb (beq k) l.
Definition remove_key (k : bytes) (l : list bytes) : list bytes := filter (fun x => negb (beq k x)) l.
Fixpoint pick_order (oracle keys : list bytes) : list bytes :=
  match oracle with
  | [] => keys
  | k :: o' => if memb k keys then k :: pick_order o' (remove_key k keys) else pick_order o' keys
  end.

(* process_lines *)
Definition process_lines (ls : list bytes) : al (list bytes) :=
  fold_left (fun h l => match split_line (terminate l) with
                        | Some (t, d) => al_push t d h
                        | None => h
                        end) ls [].
Definition table (s : bytes) : al (list bytes) := process_lines (read_lines s).

(* ---------------------------------------------------------------------------------- *)
(* sortn: the sort key is what /(\d* )$/ captures (written with a blank before the parenthesis
   here), compared with <=> after `||0`: the key is the value of
   the longest run of digits at the end (none: 0); equal keys keep their order (merge sort) *)
Definition trailing_digits (s : bytes) : bytes := rev (take_while is_digit (rev s)).
Definition numkey (s : bytes) : N := value (trailing_digits s).
Fixpoint insert_n (x : bytes) (l : list bytes) : list bytes :=
  match l with
  | [] => [x]
  | y :: r => if numkey x <=? numkey y then x :: l else y :: insert_n x r
  end.
Definition sortn (l : list bytes) : list bytes := fold_right insert_n [] l.

(* `sort`: byte-wise string comparison *)
Fixpoint ble (a b : bytes) : bool :=
  match a, b with
  | [], _ => true
  | _ :: _, [] => false
  | x :: a', y :: b' => if x <? y then true else if y <? x then false else ble a' b'
  end.
Fixpoint insert_s (x : bytes) (l : list bytes) : list bytes :=
  match l with
  | [] => [x]
  | y :: r => if ble x y then x :: l else y :: insert_s x r
  end.
Definition sort_str (l : list bytes) : list bytes := fold_right insert_s [] l.

(* compress: /(.*?\d* )(\D* )$/ (blanks added) : the suffix is the longest digit-free run at the end, the head the rest.
   comp:     /(.*?)(\d* )$/         : the number is the longest run of digits at the end, the prefix the rest. *)
Definition not_digit (c : N) : bool := negb (is_digit c).
Definition split_sfx (s : bytes) : bytes * bytes :=
  let r := rev s in (rev (drop_while not_digit r), rev (take_while not_digit r)).
Definition split_num (s : bytes) : bytes * bytes :=
  let r := rev s in (rev (drop_while is_digit r), rev (take_while is_digit r)).

(* zeropadwidth: length $n if ($n =~ /^0/ and $n ne "0"), else 1 *)
Definition zeropadwidth (n : bytes) : nat :=
  match n with
  | 48 :: _ :: _ => length n
  | _ => 1%nat
  end.

(* ---------------------------------------------------------------------------------- *)
(* comp: %s maps a prefix to an array of [start] / [start, end]; %i maps
   (prefix, zero-pad class, number) to an index into that array *)
Record rge := mkrge { r_start : bytes; r_end : option bytes }.
Definition ikey := (bytes * nat * Z)%type.
Definition ikey_eqb (a b : ikey) : bool :=
  let '(p, z, k) := a in let '(p', z', k') := b in beq p p' && Nat.eqb z z' && Z.eqb k k'.
Fixpoint ilookup (k : ikey) (t : list (ikey * nat)) : option nat :=
  match t with
  | [] => None
  | (k', v) :: r => if ikey_eqb k k' then Some v else ilookup k r
  end.

Record cstate := mkcs { cs_s : al (list rge); cs_i : list (ikey * nat) }.

Fixpoint set_end (n : bytes) (idx : nat) (rs : list rge) : list rge :=
  match rs, idx with
  | [], _ => []
  | r :: rest, O => mkrge (r_start r) (Some n) :: rest
  | r :: rest, S i => r :: set_end n i rest
  end.

Definition comp_step (st : cstate) (host : bytes) : cstate :=
  let '(p, n) := split_num host in
  let zp := zeropadwidth n in
  let v := Z.of_N (value n) in
  let idx := match ilookup (p, zp, (v - 1)%Z) (cs_i st) with
             | Some x => Some x
             | None => if Nat.eqb zp 1 then ilookup (p, length n, (v - 1)%Z) (cs_i st) else None
             end in
  match idx with
  | Some ix =>
    mkcs (al_upd p (fun o => set_end n ix (default [] o)) (cs_s st)) (((p, zp, v), ix) :: cs_i st)
  | None =>
    mkcs (al_upd p (fun o => default [] o ++ [mkrge n None]) (cs_s st))
         (((p, zp, v), length (default [] (al_get p (cs_s st)))) :: cs_i st)
  end.

Definition rge_text (r : rge) : bytes :=
  match r_end r with None => r_start r | Some e => r_start r ++ 45 :: e end.

Definition comp (hosts : list bytes) : al (list bytes) :=
  map (fun pr => (fst pr, map rge_text (snd pr)))
      (cs_s (fold_left comp_step (sortn hosts) (mkcs [] []))).

(* compress_inner: prefixes in `sort` order; brackets when there is more than one element or
   the only element is a range *)
Definition inner_word (p : bytes) (rs : list bytes) : bytes :=
  if (1 <? length rs)%nat || mem 45 (hd [] rs) then p ++ 91 :: join 44 rs ++ [93]
  else p ++ join 44 rs.
Definition compress_inner (heads : list bytes) : list bytes :=
  let rng := comp heads in
  map (fun p => inner_word p (default [] (al_get p rng))) (sort_str (map fst rng)).

(* compress: group the heads by suffix (in sortn order); per suffix, a name that has no number
   (empty head) stands alone, the others go through compress_inner and get the suffix back.
   The groups come out in first-insertion order here; the script takes them in hash order. *)
Definition nonempty (b : bytes) : bool := match b with [] => false | _ => true end.
Definition suffix_table (hosts : list bytes) : al (list bytes) :=
  fold_left (fun h x => let '(hd, t) := split_sfx x in al_push t hd h) (sortn hosts) [].
Definition group_words (t : bytes) (heads : list bytes) : list bytes :=
  let heads' := filter nonempty heads in
  (if (length heads' <? length heads)%nat then [t] else []) ++
  map (fun w => w ++ t) (compress_inner heads').
Definition compress_groups (hosts : list bytes) : al (list bytes) :=
  map (fun pr => (fst pr, group_words (fst pr) (snd pr))) (suffix_table hosts).
Definition compress (oS : list bytes) (hosts : list bytes) : list bytes :=
  let g := compress_groups hosts in
  flat_map (fun t => default [] (al_get t g)) (pick_order oS (map fst g)).

(* ---------------------------------------------------------------------------------- *)
(* output *)
Record block := mkblock { b_tags : list bytes; b_head : list bytes; b_body : list bytes }.
Definition div : bytes := repeat 45 16 ++ [10].
(* print_header: print $div, join (",", @_), "\n", $div *)
Definition render_block (b : block) : bytes :=
  div ++ join 44 (b_head b) ++ [10] ++ div ++ concat (b_body b).
Definition render_blocks (bs : list block) : bytes := flat_map render_block bs.

(* &$output_fn ($_) for (sortn (keys %lines)) *)
Definition order (oL : list bytes) (t : al (list bytes)) : list bytes :=
  sortn (pick_order oL (map fst t)).

Definition blocks_normal (oL : list bytes) (s : bytes) : list block :=
  let t := table s in
  map (fun tag => mkblock [tag] [tag] (default [] (al_get tag t))) (order oL t).

(* -d DIR: one file per tag (name, content) *)
Definition files (oL : list bytes) (s : bytes) : list (bytes * bytes) :=
  let t := table s in
  map (fun tag => (tag, concat (default [] (al_get tag t)))) (order oL t).

(* cmp_list *)
Fixpoint cmp_list (a b : list bytes) : bool :=
  match a, b with
  | [], [] => true
  | x :: a', y :: b' => beq x y && cmp_list a' b'
  | _, _ => false
  end.

(* do_output_coalesced for every tag of the order; [t] is %lines, shrinking as the tags whose
   output was printed with an earlier one are deleted (the earlier one itself stays) *)
Fixpoint coalesce (oS : list bytes -> list bytes) (ord : list bytes) (t : al (list bytes)) : list block :=
  match ord with
  | [] => []
  | tag :: rest =>
    match al_get tag t with
    | None => coalesce oS rest t
    | Some ls =>
      let ident := map fst (filter (fun kv => negb (beq (fst kv) tag) && cmp_list ls (snd kv)) t) in
      let t' := fold_left (fun h k => al_del k h) ident t in
      let tags := sort_str (ident ++ [tag]) in
      mkblock tags (compress (oS tags) tags) ls :: coalesce oS rest t'
    end
  end.
Definition blocks_coalesce (oL : list bytes) (oS : list bytes -> list bytes) (s : bytes) : list block :=
  let t := table s in coalesce oS (order oL t) t.

(* ---------------------------------------------------------------------------------- *)
(* entry points with the limits of the transcription made explicit *)
Inductive result (A : Type) : Type := Modelled (a : A) | Unmodelled.
Arguments Modelled {A} a. Arguments Unmodelled {A}.

Definition NUM_LIMIT19 : N := 1000000000000000. (* 10^15 *)
Definition num_ok (name : bytes) : bool :=
  (numkey name <? NUM_LIMIT19) && (numkey (fst (split_sfx name)) <? NUM_LIMIT19).
Definition nums_ok (names : list bytes) : bool := forallb num_ok names.

(* a tag that `open (OUTPUT, ">$opt_d/$tag")` turns into a plain file inside DIR *)
Definition file_safe (tag : bytes) : bool :=
  negb (mem 47 tag) && negb (mem 0 tag) && negb (beq tag [46]) && negb (beq tag [46; 46]) &&
  (length tag <=? 255)%nat.

Definition dshbak_normal (oL : list bytes) (s : bytes) : result bytes :=
  if nums_ok (map fst (table s)) then Modelled (render_blocks (blocks_normal oL s)) else Unmodelled.
Definition dshbak_files (oL : list bytes) (s : bytes) : result (list (bytes * bytes)) :=
  if nums_ok (map fst (table s)) && forallb file_safe (map fst (table s))
  then Modelled (files oL s) else Unmodelled.
Definition dshbak_coalesce (oL : list bytes) (oS : list bytes -> list bytes) (s : bytes) : result bytes :=
  if nums_ok (map fst (table s)) then Modelled (render_blocks (blocks_coalesce oL oS s)) else Unmodelled.
(* the same with the header of every block left as its per-suffix groups (for the comparison
   with the script's output, where the groups come in hash order) *)
Definition dshbak_coalesce_groups (oL : list bytes) (s : bytes)
  : result (list (list bytes * al (list bytes) * list bytes)) :=
  if nums_ok (map fst (table s))
  then Modelled (map (fun b => (b_tags b, compress_groups (b_tags b), b_body b))
                     (blocks_coalesce oL (fun _ => []) s))
  else Unmodelled.
Definition compress_checked (hosts : list bytes) : result (al (list bytes)) :=
  if nums_ok hosts then Modelled (compress_groups hosts) else Unmodelled.
